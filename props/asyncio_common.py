"""C33: AsyncIOScheduler / AsyncIOThreadSafeScheduler against AsyncIOSched.tla.

The model (spec/AsyncIOSched.tla) has two layers that share their actions:
  * the property-level MONITOR (schedule call/ret, dispose call/ret, action start, loop start/stop,
    loop idle) with the invariants OnLoopThread, NotEarly, NoStartAfterDisposeReturned, NoLostAction;
  * the MECHANISM (asyncio ready FIFO, timer set, handle `cancelled` flags, call_soon_threadsafe, the
    scheduler's stage 1 / stage 2, the closure's handle list, direct vs marshalled cancellation) whose
    steps perform the monitor actions.
TLC explores every interleaving of the mechanism for every scenario of a bounded family (design check:
the design with cancellation marshalled by the scheduler's OWN loop state satisfies the invariants; the
design as the pinned code reads - the CALLER's running loop decides - is refuted, which is the negative
control) and exports the scenario family.  Python holds only the codec: each exported scenario is built
on the REAL schedulers over a virtual-time subclass of the REAL asyncio.BaseEventLoop and executed under
every DetSched schedule up to the preemption bound (+ seeded random schedules); every execution yields a
totally ordered trace of monitor events, validated in batch by TLC against AsyncIOSchedTrace.tla
(monitor actions only => property-level verdicts).  The same traces are then matched against monitor +
mechanism (silent mechanism steps inferred by TLC); a mismatch there is model drift, not an alarm."""
from __future__ import annotations

import _thread
import asyncio
import concurrent.futures
import asyncio.base_events as _be
import asyncio.events as _ev
import json
import os
import re
import sys
from datetime import timedelta
from typing import Any, Callable, Dict, List, Optional, Sequence, Tuple

from harness import core, detsched, shims, tlc, tracecheck

TS_MOD = "reactivex.scheduler.eventloop.asynciothreadsafescheduler"
AIO_MOD = "reactivex.scheduler.eventloop.asyncioscheduler"

# ---- switch points ---------------------------------------------------------------------------------------
# whole files of the two scheduler modules; of asyncio only the functions that touch handles / the queues
FOCUS_FILES = ("reactivex/scheduler/eventloop/asyncioscheduler.py",
               "reactivex/scheduler/eventloop/asynciothreadsafescheduler.py")
FOCUS_FUNCS = {
    "asyncio/events.py": {"cancel", "_run"},
    "asyncio/base_events.py": {"_run_once", "call_soon_threadsafe", "call_soon", "_call_soon", "call_later", "call_at",
                               "_timer_handle_cancelled"},
}
WIDE_FILES = ("reactivex/disposable/compositedisposable.py", "reactivex/disposable/disposable.py",
              "reactivex/disposable/singleassignmentdisposable.py")


class _BinSem:
    """binary semaphore on a C lock (threading.Semaphore is pure Python)"""
    __slots__ = ("l",)

    def __init__(self):
        self.l = _thread.allocate_lock()
        self.l.acquire()

    def acquire(self):
        self.l.acquire()

    def release(self):
        self.l.release()


class FocusDetSched(detsched.DetSched):
    """DetSched whose focus set can name single functions of a file (asyncio/base_events.py is large: only
    the functions that touch handles, the ready queue and the timer heap are switch-point territory)."""

    def __init__(self, choose, focus=(), focus_funcs=None, **kw):
        super().__init__(choose, focus=focus, **kw)
        self.focus_funcs = {k: set(v) for k, v in (focus_funcs or {}).items()}
        self._ff_cache: Dict[str, Optional[set]] = {}

    def _funcs_for(self, filename: str) -> Optional[set]:
        if filename not in self._ff_cache:
            r = None
            for suf, names in self.focus_funcs.items():
                if filename.endswith(suf):
                    r = names
                    break
            self._ff_cache[filename] = r
        return self._ff_cache[filename]

    # ---- direct hand-over ---------------------------------------------------------------------------------
    # DetSched proper parks every switch point at a controller thread (two OS context switches per point).
    # This box is oversubscribed, a context switch costs ~1 ms, so here the RUNNING logical thread evaluates
    # the controller's decision procedure itself (`_pick` is the body of DetSched.run's loop, verbatim) and
    # wakes the chosen thread directly; the decisions recorded - and hence the schedules Explorer enumerates -
    # are the same.
    def spawn(self, name, fn, daemon_like=False, start=True):
        t = detsched.LThread(self, name, fn, daemon_like)
        t.sem = _BinSem()
        t.index = len(self.threads)
        self.threads.append(t)
        if start:
            self.start_thread(t)
        return t

    def start_thread(self, t) -> None:
        if t.started:
            return
        t.started = True

        def boot():
            t.ident = _thread.get_ident()
            self.by_ident[t.ident] = t
            t.sem.acquire()
            try:
                if self.aborting:
                    raise detsched.Abort()
                sys.settrace(self._tracer_for(t))
                try:
                    t.fn()
                finally:
                    sys.settrace(None)
            except detsched.Abort:
                pass
            except BaseException as e:  # noqa: BLE001 - recorded, reported by the caller
                t.exc = e
            finally:
                t.done = True
                if self.aborting:
                    self.ctrl.release()
                else:
                    self._handover(t, final=True)

        t.real = detsched._real_Thread(target=boot, name=t.name, daemon=True)
        t.real.start()

    def _pick(self, cur: int) -> Optional[int]:
        while True:
            live = [t for t in self.threads if t.started and not t.done]
            if not any(not t.daemon_like for t in live):
                en = [t.index for t in live if t.enabled()]
                if not en:
                    return None
            en = [t.index for t in live if t.enabled()]
            if not en:
                waits = [t.deadline for t in live if t.deadline is not None]
                if waits:
                    self.clock = max(self.clock, min(waits))
                    continue
                self.deadlocked = True
                return None
            self.steps += 1
            if self.steps > self.max_steps:
                self.step_limit_hit = True
                return None
            cur_enabled = cur in en
            can_preempt = cur_enabled and self.threads[cur].realisable
            if len(en) == 1:
                pick = en[0]
            elif cur_enabled and not can_preempt:
                pick = cur
            else:
                pick = self.choose(en, cur if cur_enabled else -1, can_preempt)
                self.decisions.append((tuple(en), pick, cur if cur_enabled else -1, can_preempt))
            return pick

    def _handover(self, t, final: bool = False) -> None:
        """decide who runs next; returns when `t` is to continue (never, for a finished thread)"""
        pick = self._pick(t.index)
        if pick is None:
            self.ctrl.release()          # run() tears the execution down
            if final:
                return
            t.sem.acquire()
            raise detsched.Abort()
        if pick == t.index:
            return
        nxt = self.threads[pick]
        self.current = nxt
        nxt.sem.release()
        if final:
            return
        t.sem.acquire()
        if self.aborting:
            raise detsched.Abort()

    def switch_point(self, realisable: bool = True) -> None:
        t = self.me()
        if t is None or t is not self.current:
            return
        if self.aborting:
            raise detsched.Abort()
        t.realisable = realisable
        if not realisable:
            self.steps += 1              # the controller would resume the caller without a decision
            if self.steps <= self.max_steps:
                return
            self.steps -= 1
        self._handover(t)

    def block(self, pred, deadline=None, what: str = "") -> bool:
        t = self.me()
        if t is None:
            raise RuntimeError("block() outside a logical thread")
        if self.aborting:
            raise detsched.Abort()
        t.pred, t.deadline, t.waiting_on = pred, deadline, what
        t.realisable = True
        try:
            self._handover(t)
            ok = pred()
        finally:
            t.pred, t.deadline, t.waiting_on = None, None, ""
        return ok

    def run(self) -> None:
        self.ctrl = _BinSem()
        pick = self._pick(-1)
        if pick is not None:
            nxt = self.threads[pick]
            self.current = nxt
            nxt.sem.release()
            self.ctrl.acquire()
        self.teardown()

    def teardown(self) -> None:
        self.aborting = True
        for t in self.threads:
            if t.started and not t.done:
                self.current = t
                t.sem.release()
                self.ctrl.acquire()
        for t in self.threads:
            if t.real is not None:
                t.real.join(timeout=2.0)

    def _tracer_for(self, t):
        sched = self
        prev: Dict[int, int] = {}
        call_lines = detsched._call_lines

        def local(frame, event, arg):
            if event == "line":
                ln = frame.f_lineno
                p = prev.get(id(frame))
                back = p is not None and ln <= p
                realisable = t.last_line_has_call or back or sched.granularity == "line"
                prev[id(frame)] = ln
                t.last_line_has_call = ln in call_lines(frame.f_code)
                sched.switch_point(realisable)
            elif event == "return":
                prev.pop(id(frame), None)
                t.last_line_has_call = True
            return local

        def glob(frame, event, arg):
            if event == "call":
                t.last_line_has_call = True
                fn = frame.f_code.co_filename
                if sched._is_focus(fn):
                    return local
                names = sched._funcs_for(fn)
                if names is not None and frame.f_code.co_name in names:
                    return local
            return None
        return glob


# ---- the cooperative concurrent.futures.Future ------------------------------------------------------------
class CoopFuture:
    """Stands in for concurrent.futures.Future inside asynciothreadsafescheduler: result() blocks by yielding
    to DetSched (a real Future would block the only running thread); set_result is a switch point."""

    def __init__(self):
        self._done = False
        self._result = None

    def __class_getitem__(cls, item):
        return cls

    def set_result(self, value):
        self._result = value
        self._done = True
        ds = shims.CUR
        if ds is not None and ds.me() is not None:
            ds.switch_point(True)

    def done(self):
        return self._done

    def result(self, timeout=None):
        ds = shims.CUR
        if ds is None or ds.me() is None:
            if not self._done:
                raise RuntimeError("CoopFuture.result() would block the set-up thread")
            return self._result
        ds.switch_point(True)
        if not self._done:
            deadline = None if timeout is None else ds.clock + timeout
            ok = ds.block(lambda: self._done, deadline, what="future")       # deadline on the CONTROLLED clock
            if not ok:
                raise concurrent.futures.TimeoutError()
        return self._result


# ---- the virtual-time event loop -----------------------------------------------------------------------------
class _Selector:
    """Cooperative selector stub: there is no I/O.  select() yields to DetSched until the self-pipe has data
    (_write_to_self was called: call_soon_threadsafe from another thread - a plain call_soon does NOT wake a sleeping
    loop, as in production), the loop is being stopped, or the controlled clock reaches the next timer (timeout).
    With no timer pending it also ends when every other thread has finished: nobody is left to wake the loop -
    quiescence, the loop is told to stop."""

    def __init__(self, loop):
        self.loop = loop

    def select(self, timeout=None):
        loop = self.loop
        ds = loop._ds
        if timeout is not None and timeout <= 0:
            loop._woken = False              # a poll drains the self-pipe
            return []
        me = ds.me()

        def others_done():
            return all(t.done for t in ds.threads if t is not me and not t.daemon_like and t.started)

        if timeout is None:
            # no timer.  The loop is IDLE if also nothing is ready and no wake-up is pending (a handle may have been
            # appended, even announced, since _run_once computed the timeout: then select() returns at once)
            if not loop._woken and not loop._ready and loop._on_idle is not None:
                loop._on_idle()
            ds.block(lambda: loop._woken or loop._stopping or others_done(), None, what="select")
            if not loop._woken and not loop._stopping and others_done():
                if loop._ready and loop._on_idle is not None:
                    loop._on_idle()          # asleep with handles nobody announced, and nobody left to do it
                loop._quiesced = True
                loop.stop()
        else:
            ds.block(lambda: loop._woken or loop._stopping, ds.clock + timeout, what="select")
        loop._woken = False
        return []

    def close(self):
        pass


class VLoop(_be.BaseEventLoop):
    """The stdlib's BaseEventLoop (Handle, TimerHandle, _run_once, the ready deque, the timer heap and
    cancellation are the stdlib's own) on the controlled clock, without I/O."""

    def __init__(self, ds):
        super().__init__()
        self._ds = ds
        self._selector = _Selector(self)
        self._on_idle: Optional[Callable[[], None]] = None
        self._woken = False
        self._quiesced = False
        self.set_debug(False)
        self.errors: List[Any] = []
        self.set_exception_handler(lambda loop, ctx: self.errors.append(ctx))

    # The loop's clock is the controlled clock plus an epoch of the loop's own: asyncio promises nothing about the
    # origin of loop.time() (it need not be time.monotonic()), and every due time the schedulers hand to the loop
    # must be expressed on the loop's clock.  Traces keep using the controlled clock, so the epoch is invisible to
    # the oracle; scenarios alternate between epoch 0 and a loop clock far ahead of any other clock of the process.
    epoch = 0.0

    def time(self):
        return self._ds.clock + self.epoch

    def _write_to_self(self):
        self._woken = True

    def _process_events(self, event_list):
        pass

    def pending(self) -> int:
        """handles that could still run"""
        return sum(1 for h in list(self._ready) + list(self._scheduled) if not h._cancelled)


def run_execution(build, choose, wide: bool = False, max_steps: int = 20000) -> detsched.DetSched:
    focus = FOCUS_FILES + (WIDE_FILES if wide else ())
    ds = FocusDetSched(choose, focus=focus, focus_funcs=FOCUS_FUNCS, max_steps=max_steps)
    shims.CUR = ds
    shims.Thread._n = 0
    try:
        build(ds)
        ds.run()
    finally:
        shims.CUR = None
    return ds


def patches():
    return shims.patched(extra={TS_MOD: {"Future": CoopFuture},
                                "reactivex.scheduler.scheduler": {"default_now": shims.now}})


# ---- the codec: an exported scenario performed on the real schedulers ------------------------------------------
# the trace spec evaluates NoStartAfterDisposeReturned inside Track (so that a failure can be named), the others in the constraint
TRACE_INVS = ["OnLoopThread", "NotEarly", "NoLostAction"]
DESIGN_INVS = ["TypeOK", "D_OnLoopThread", "D_NotEarly", "D_NoStart", "D_NoLost", "D_AtMostOnce", "D_EndOK", "D_NoMissedWakeup",
               "D_CallerInsideAnotherLoop"]
TRACE_CONSTS = dict(Items={1, 2, 3}, Foreign={"F", "G"})
UNIT = 1000          # trace times are in 1/1000 of a scenario tick (the monitor is unit-agnostic)
VARIANTS_ALL = ("own", "caller", "early", "lose", "nowake", "inline", "impatient", "spent")


LOOP_EPOCHS = (0.0, 4.0e6, 0.0, 1.0e7)


def make_run_one(sc: Dict[str, Any], form: str = "rel", wide: bool = False):
    """sc = {"scn": [item...], "f": {foreign thread: [op...]}, "l": [op...]} as exported by AsyncIOSched.tla (ExportScn).
    form: how a positive delay is passed - "rel" float seconds, "td" timedelta, "abs" schedule_absolute(now + d);
    "rel0" = like "rel", but an immediate item goes through schedule_relative(0.0)."""
    items = sc["scn"]

    def run_one(choose):
        def build(ds):
            from reactivex.scheduler.eventloop import AsyncIOScheduler, AsyncIOThreadSafeScheduler
            loop = VLoop(ds)
            loop.epoch = LOOP_EPOCHS[len(json.dumps(sc, sort_keys=True)) % len(LOOP_EPOCHS)]
            ds.vloop = loop
            scheds = {"aio": AsyncIOScheduler(loop), "ts": AsyncIOThreadSafeScheduler(loop)}
            disp: Dict[int, Any] = {}
            state = {"go": False, "starts": 0, "runs": 0, "fin": False}

            def log(e, **kw):
                t = ds.me()
                ev = {"e": e, "th": t.name if t else "main", "t": int(round(ds.clock * UNIT))}
                ev.update(kw)
                ds.trace.append(ev)

            def action_for(i):
                def action(scheduler, state_):
                    log("st", i=i)
                return action

            def do(op):
                o, i, w = op["op"], op["i"], op["w"]
                if o == "go":
                    state["go"] = True
                elif o == "up":
                    ds.block(lambda: state["starts"] >= w or state.get("fin"), what="up")     # the loop was started w times
                elif o == "down":        # the loop has run and is stopped (it will be run again when F says go)
                    ds.block(lambda: state["runs"] >= 1 and not loop.is_running(), what="down")
                elif o == "sleep":
                    if w > 0:
                        shims.sleep(float(w))
                elif o == "await":
                    ds.block(lambda: i in disp, what="await")
                elif o == "sched":
                    item = items[i - 1]
                    s, d = scheds[item["k"]], item["d"]
                    log("sc", i=i, k=item["k"], d=d * UNIT)
                    if d == 0 and form == "rel0":
                        r = s.schedule_relative(0.0, action_for(i))      # due now: delegates to schedule()
                    elif d == 0:
                        r = s.schedule(action_for(i))
                    elif form == "rel":
                        r = s.schedule_relative(float(d), action_for(i))
                    elif form == "td":
                        r = s.schedule_relative(timedelta(seconds=d), action_for(i))
                    else:
                        r = s.schedule_absolute(s.now + timedelta(seconds=d), action_for(i))
                    log("sr", i=i)
                    disp[i] = r
                elif o == "disp":
                    log("dc", i=i)
                    disp[i].dispose()
                    log("dr", i=i)
                elif o == "post":
                    def cb(i=i):
                        do({"op": "disp", "i": i, "w": 0})
                    me = ds.me()
                    if me is not None and me.name == "L":
                        if w > 0:
                            loop.call_later(float(w), cb)
                        else:
                            loop.call_soon(cb)
                    else:
                        loop.call_soon_threadsafe(cb)
                else:
                    raise ValueError(o)

            def drv():
                for op in sc["l"]:
                    do(op)

            if sc["l"]:
                loop.call_soon(drv)
            loop._on_idle = lambda: log("id")

            if sc.get("pause"):
                loop.call_at(float(sc["pause"]), loop.stop)      # a loop callback stops the loop; F runs it again later

            def lmain():
                while True:
                    ds.block(lambda: state["go"], what="go")
                    state["go"] = False
                    log("ls")
                    state["starts"] += 1
                    loop.run_forever()
                    if loop._quiesced:
                        state["fin"] = True
                    log("lx")
                    state["runs"] += 1
                    if loop._quiesced:
                        return

            def fmain(name):
                def script():
                    if name != "F":
                        ds.block(lambda: loop.is_running() or state.get("fin"), what="up")   # the others start once the loop runs
                    for op in sc["f"][name]:
                        do(op)

                def inside_another_loop():
                    # the foreign thread runs an event loop of its own; its script is a callback of THAT loop, so
                    # asyncio.get_running_loop() answers (with another loop) while it calls schedule / dispose
                    other = VLoop(ds)

                    def cb():
                        try:
                            script()
                        finally:
                            other.stop()
                    other.call_soon(cb)
                    other.run_forever()
                    if other.errors:
                        raise RuntimeError(f"the foreign thread's own loop caught {other.errors[0].get('exception')!r}")
                return inside_another_loop if name in sc.get("own", []) else script

            ds.spawn("L", lmain)
            for name in sorted(sc["f"]):
                ds.spawn(name, fmain(name))
        return run_execution(build, choose, wide=wide)
    return run_one


def finish_trace(ds) -> Tuple[List[Dict[str, Any]], Dict[str, int]]:
    """the recorded events plus pseudo-events no action of the trace spec explains"""
    tr = list(ds.trace)
    now = int(round(ds.clock * UNIT))
    st = {"deadlocks": 0, "steplimit": 0, "thread_exc": 0, "loop_callback_errors": 0}
    if ds.deadlocked:
        st["deadlocks"] = 1
        tr.append({"e": "deadlock", "th": "-", "t": now, "waiting": [f"{t.name}:{t.waiting_on}" for t in ds.threads if not t.done]})
    if ds.step_limit_hit:
        st["steplimit"] = 1
        tr.append({"e": "steplimit", "th": "-", "t": now})
    for t in ds.threads:
        if t.exc is not None:
            st["thread_exc"] += 1
            tr.append({"e": "exc", "th": t.name, "t": now, "what": repr(t.exc)[:200]})
    loop = getattr(ds, "vloop", None)
    if loop is not None:
        st["loop_callback_errors"] = len(loop.errors)
    return tr, st


def choose_from(prefix: Sequence[int]):
    pos = [0]

    def choose(en, cur, can_preempt):
        i = pos[0]
        pos[0] += 1
        if i < len(prefix) and prefix[i] in en:
            return prefix[i]
        return cur if cur in en else en[0]
    return choose


def explore(run_one, bound: int, max_schedules: int, nrandom: int, seed: int, low_share: float = 0.45):
    """Context-bounded exploration of the schedules of one scenario, capped.  The schedule space is the one of
    detsched.Explorer (children deviate from an executed schedule at one decision, at most `bound` preemptions); the ORDER
    differs so that a capped exploration is spread over the preemption counts: the non-preemptive schedule first, then -
    drawing at random (seeded) - schedules with <= 1 preemption until they are exhausted or `low_share` of the cap is used,
    then schedules with more preemptions (fewest first).  With a cap above the size of the space it is exhaustive.
    Afterwards `nrandom` seeded random walks.  Yields (ds, info)."""
    import random
    rnd = random.Random(seed)
    pools: Dict[int, List[List[int]]] = {0: [[]]}
    seen = set()
    executed = 0
    low_done = 0
    info = {"truncated": False, "executed": 0}
    while any(pools.values()):
        if executed >= max_schedules:
            info["truncated"] = True
            break
        low = [c for c in sorted(pools) if c <= 1 and pools[c]]
        high = [c for c in sorted(pools) if c > 1 and pools[c]]
        if low and (low_done < low_share * max_schedules or not high):
            c = low[0]
            low_done += 1
        else:
            c = high[0]
        lst = pools[c]
        k = rnd.randrange(len(lst))
        lst[k], lst[-1] = lst[-1], lst[k]
        prefix = lst.pop()
        ds = run_one(choose_from(prefix))
        executed += 1
        yield ds, info
        dec = ds.decisions
        pre = 0
        counts = []
        for (en, pick, cur, can) in dec:
            if cur != -1 and pick != cur:
                pre += 1
            counts.append(pre)
        for i in range(len(prefix), len(dec)):
            en, pick, cur, can = dec[i]
            before = counts[i - 1] if i > 0 else 0
            for alt in en:
                if alt == pick:
                    continue
                cost = before + (1 if (cur != -1 and alt != cur) else 0)
                if cost > bound:
                    continue
                child = [d[1] for d in dec[:i]] + [alt]
                key = tuple(child)
                if key in seen:
                    continue
                seen.add(key)
                pools.setdefault(cost, []).append(child)
    for _ in range(nrandom):
        def choose(en, cur, can_preempt):
            if cur in en and rnd.random() < 0.7:
                return cur
            return rnd.choice(en)
        ds = run_one(choose)
        executed += 1
        yield ds, info
    info["executed"] = executed


def explore_scenario(args) -> Dict[str, Any]:
    """All schedules (iterative context bounding up to the cap) of one scenario on the real code; returns the distinct
    traces with multiplicities and one witness schedule each."""
    sc, bound, max_sched, nrandom, seed, form, wide = args
    traces: Dict[str, List[Any]] = {}
    stats = {"executions": 0, "deadlocks": 0, "steplimit": 0, "thread_exc": 0, "loop_callback_errors": 0, "decisions_max": 0,
             "preempted": 0}
    truncated = False
    import logging
    logging.getLogger("Rx").addHandler(logging.NullHandler())      # the library's own warnings are not part of the verdict
    with patches():
        for ds, info in explore(make_run_one(sc, form, wide), bound, max_sched, nrandom, seed):
            stats["executions"] += 1
            tr, st = finish_trace(ds)
            for k, v in st.items():
                stats[k] += v
            stats["decisions_max"] = max(stats["decisions_max"], len(ds.decisions))
            if any(cur != -1 and pick != cur for (_, pick, cur, _) in ds.decisions):
                stats["preempted"] += 1
            key = json.dumps(tr, sort_keys=True)
            if key not in traces:
                traces[key] = [tr, 0, [d[1] for d in ds.decisions]]
            traces[key][1] += 1
            truncated = info["truncated"]
        truncated = info["truncated"]
    return {"scenario": sc, "form": form, "wide": wide, "traces": list(traces.values()), "stats": stats, "truncated": truncated}


# ---- TLC runs -------------------------------------------------------------------------------------------------------
def jvm_options(tier: str) -> None:
    """The TLC runs of this check are short (10^4-10^5 states): most of their CPU goes into C2 compilation and the 16
    parallel-GC threads of a JVM that lives for half a minute.  JDK_JAVA_OPTIONS is read by the `java` launcher of the
    child processes only (measured on the 1-item design run: 51 -> 21 CPU-seconds, 53 -> 26 s wall)."""
    if "JDK_JAVA_OPTIONS" not in os.environ:
        os.environ["JDK_JAVA_OPTIONS"] = ("-XX:TieredStopAtLevel=1 -XX:ParallelGCThreads=2 -XX:CICompilerCount=1" if tier == "quick"
                                          else "-XX:ParallelGCThreads=4")


def _cfg(n: int, family: str, variants=("own",), foreign=("F",), ownsets="NoOwn", busysets="NoBusy", **kw) -> str:
    consts = dict(Items=set(range(1, n + 1)), Foreign=set(foreign), Variants=set(variants), Family="<-" + family, OwnSets="<-" + ownsets,
                  BusySets="<-" + busysets)
    return tlc.cfg_text(consts, **kw).replace("= <-", "<- ")


def export_and_controls(n: int, family: str, foreign=("F",), ownsets="OwnExportC", busysets="BusyC", timeout: int = 900) -> Tuple[List[Dict[str, Any]], Any]:
    """One TLC run: (i) the scenario family the replayer performs, as TLC enumerates it in Init for variant "own" (one
    exported line per initial state, no steps: action constraint NoOwnSteps); (ii) the negative controls: every fault
    variant is explored until the invariant it was built to break fails (constraint ControlPrune sets a register), the
    postcondition ControlsRefuted requires all of them.  One worker (registers are per worker; export lines)."""
    cfg = _cfg(n, family, variants=VARIANTS_ALL, foreign=foreign, ownsets=ownsets, busysets=busysets, invariants=DESIGN_INVS + ["ExportOwn"],
               constraints=["ControlPrune"], action_constraints=["NoOwnSteps"], postcondition="ControlsRefuted", deadlock=False)
    res = tlc.run("AsyncIOSchedMC", cfg, workers=1, timeout=timeout, allow_violation=True)
    if not res.ok:
        raise tlc.TLCFailure(f"export + negative controls: TLC reports {res.violated}\n" + "\n".join(res.raw.splitlines()[-60:]))
    if "NOT REFUTED" in res.raw:
        raise tlc.TLCFailure("a negative control was NOT refuted (an invariant of the model went vacuous):\n" +
                             "\n".join(l for l in res.raw.splitlines() if "NOT REFUTED" in l))
    seen, scs = set(), []
    for ln in res.lines:               # TLC may evaluate the exporting invariant more than once per initial state
        k = json.dumps(ln, sort_keys=True)
        if k not in seen:
            seen.add(k)
            scs.append(ln)
    return scs, res


def export_scenarios(n: int, family: str, foreign=("F",), ownsets="NoOwn", timeout: int = 600) -> Tuple[List[Dict[str, Any]], Any]:
    """the scenario family of a configuration, as TLC enumerates it in Init (one line per initial state)"""
    res = tlc.run("AsyncIOSchedMC", _cfg(n, family, foreign=foreign, ownsets=ownsets, next_="NoNext", invariants=["ExportScn"]), workers=1,
                  timeout=timeout, allow_violation=False)
    return list(res.lines), res


def design_run(n: int, family: str, variants=("own",), foreign=("F",), workers: int = 2, coverage: bool = False, timeout: int = 1800,
               simulate: Optional[str] = None, depth: Optional[int] = None, seed: Optional[int] = None, ownsets: str = "NoOwn",
               busysets: str = "NoBusy"):
    """All interleavings of the mechanism for every scenario of the family.  With fault variants: one worker (TLC registers
    are per worker), constraint ControlPrune, postcondition ControlsRefuted."""
    controls = [v for v in variants if v != "own"]
    cfg = _cfg(n, family, variants=variants, foreign=foreign, ownsets=ownsets, busysets=busysets, invariants=DESIGN_INVS, deadlock=simulate is None,
               constraints=["ControlPrune"] if controls else [], postcondition="ControlsRefuted" if controls else None)
    res = tlc.run("AsyncIOSchedMC", cfg, workers=1 if controls else workers, timeout=timeout, coverage=coverage, allow_violation=True,
                  simulate=simulate, depth=depth, seed=seed)
    if controls and res.ok and ("NOT REFUTED" in res.raw or res.violated == "postcondition"):
        res.ok, res.violated = False, "ControlsRefuted"
    return res


# ---- Binding C+B: explore on the real code, validate in batch ----------------------------------------------------------
def label_of(tr: List[Dict[str, Any]], upto: int, sc: Dict[str, Any], only_late: bool) -> Dict[str, Any]:
    """descriptive fields of a rejected trace (the VERDICT is TLC's; these name it for the report and the known-finding match)"""
    ev = tr[upto] if upto < len(tr) else {"e": "end"}
    out: Dict[str, Any] = {"next_event": ev, "failure": ev["e"]}
    if ev["e"] == "st":
        i = ev["i"]
        item = sc["scn"][i - 1]
        out.update(item=i, sched=item["k"], mode="imm" if item["d"] == 0 else "rel", scheduled_by=item["sw"], disposed_by=item["dw"])
        before = tr[:upto]
        dr = [e for e in before if e["e"] == "dr" and e["i"] == i]
        dc = [e for e in before if e["e"] == "dc" and e["i"] == i]
        out["dispose_thread"] = dc[0]["th"] if dc else None
        out["disposer_inside_another_loop"] = bool(dc) and dc[0]["th"] in sc.get("own", [])
        out["dispose_returned_before_start"] = bool(dr)
        # the failure name comes from which invariant rejects: only_late = accepted once NoStartAfterDisposeReturned is left out
        out["failure"] = "start_after_dispose_returned" if only_late else "start_rejected"
    elif ev["e"] == "id":
        out["failure"] = "lost_action"
    elif ev["e"] in ("deadlock", "steplimit", "exc"):
        out["failure"] = ev["e"]
    return out


_LATE = re.compile(r'<<"LATEONLY", (\d+)>>')
CHUNK = 1500


def validate(batch: List[Any], timeout: int = 900):
    """-> (rejected [(index, events explained)], indices rejected ONLY by NoStartAfterDisposeReturned, TLC results)"""
    rejected, ress = tracecheck.validate("AsyncIOSchedTrace", TRACE_CONSTS, batch, invariants=TRACE_INVS, timeout=timeout, chunk=CHUNK)
    only_late = set()
    for k, r in enumerate(ress):
        for m in _LATE.finditer(r.raw):
            only_late.add(k * CHUNK + int(m.group(1)) - 1)
    return rejected, only_late, ress


_ONLYCALLER = re.compile(r'<<"ONLYCALLER", (\d+)>>')
_ONLYOWN = re.compile(r'<<"ONLYOWN", (\d+)>>')


def mech_validate(entries: List[Dict[str, Any]], timeout: int = 900):
    """Design-level matching (AsyncIOSchedMech.tla).  entries: [{"scn", "own", "ev"}].
    -> (unexplained [(index, events explained)], indices explained only by the pinned decision, indices explained only by the
        intended decision, TLC results)"""
    consts = dict(Items={1, 2}, Foreign={"F", "G"}, Unit=UNIT)
    rejected, ress = tracecheck.validate("AsyncIOSchedMech", consts, entries, invariants=[], timeout=timeout, chunk=CHUNK)
    only_caller, only_own = set(), set()
    for k, r in enumerate(ress):
        for m in _ONLYCALLER.finditer(r.raw):
            only_caller.add(k * CHUNK + int(m.group(1)) - 1)
        for m in _ONLYOWN.finditer(r.raw):
            only_own.add(k * CHUNK + int(m.group(1)) - 1)
    return rejected, only_caller, only_own, ress


def conc_check(ck, jobs: List[Tuple], pool, label: str, mech_sample: Optional[int] = None) -> Dict[str, Any]:
    """jobs for explore_scenario; returns counters. Property-level failures go through ck.fail, design-level mismatches
    through ck.drift.  mech_sample: at most that many traces are also matched against the mechanism (None = all)."""
    import random
    from concurrent.futures import ThreadPoolExecutor
    results = pool.map(explore_scenario, jobs, chunksize=1) if pool is not None else [explore_scenario(j) for j in jobs]
    batch: List[Any] = []
    meta: List[Tuple[int, int, List[int]]] = []
    tot: Dict[str, int] = {}
    for j, r in enumerate(results):
        for k, v in r["stats"].items():
            if k == "decisions_max":
                tot[k] = max(tot.get(k, 0), v)
            else:
                tot[k] = tot.get(k, 0) + v
        if r["truncated"]:
            tot["scenarios_truncated_at_max_schedules"] = tot.get("scenarios_truncated_at_max_schedules", 0) + 1
        for (tr, n, dec) in r["traces"]:
            batch.append(tr)
            meta.append((j, n, dec))
    tot["scenarios"] = len(jobs)
    tot["distinct_traces"] = len(batch)
    tot["distinct_traces_with_dispose"] = sum(1 for tr in batch if any(e["e"] == "dc" for e in tr))
    # design-level matching (drift only) runs beside the property-level validation
    plain = [i for i, tr in enumerate(batch) if all(e["e"] in ("sc", "sr", "dc", "dr", "st", "ls", "lx", "id") for e in tr)
             and len(results[meta[i][0]]["scenario"]["scn"]) == 2]
    if mech_sample is not None and len(plain) > mech_sample:
        # prefer the traces in which a foreign thread disposes while the loop runs
        rnd = random.Random(ck.seed)
        hot = [i for i in plain if any(e["e"] == "dc" and e["th"] != "L" for e in batch[i])]
        rnd.shuffle(hot)
        rest = [i for i in plain if i not in set(hot)]
        rnd.shuffle(rest)
        plain = (hot[: (mech_sample * 2) // 3] + rest)[:mech_sample]
    entries = [{"scn": results[meta[i][0]]["scenario"]["scn"], "own": results[meta[i][0]]["scenario"].get("own", []),
                "busy": results[meta[i][0]]["scenario"].get("busy", 0), "ev": batch[i]} for i in plain]
    with ThreadPoolExecutor(max_workers=1) as tp:
        f_mech = tp.submit(mech_validate, entries) if entries else None
        rejected, only_late, ress = validate(batch)
        for r in ress:
            ck.add_tlc(r, f"trace validation {label} ({len(batch)} distinct traces)")
        tot["rejected_traces"] = len(rejected)
        tot["rejected_executions"] = sum(meta[i][1] for (i, _) in rejected)
        for (i, upto) in rejected:
            j, n, dec = meta[i]
            sc, form, wide = results[j]["scenario"], results[j]["form"], results[j]["wide"]
            rec = {"engine": "asyncio-conc"}
            rec.update(label_of(batch[i], upto, sc, i in only_late))
            rec.update(scenario=sc, form=form, wide=wide, trace=batch[i], rejected_at=upto, schedules_with_this_trace=n, decisions=dec)
            ck.fail(rec)
        if f_mech is not None:
            unexplained, only_caller, only_own, mress = f_mech.result()
            for r in mress:
                ck.add_tlc(r, f"design-level matching {label} ({len(entries)} traces, silent mechanism steps inferred)")
            tot["mech_traces_matched"] = len(entries)
            tot["mech_unexplained"] = len(unexplained)
            tot["mech_explained_only_by_pinned_decision"] = len(only_caller)
            tot["mech_explained_only_by_intended_decision"] = len(only_own)
            for (k, upto) in unexplained:
                tr = batch[plain[k]]
                sc = results[meta[plain[k]][0]]["scenario"]
                ck.drift(f"mechanism model explains only {upto} of {len(tr)} events of a run of scenario {json.dumps(sc['scn'])} own={sc.get('own')}: "
                         f"{' '.join(e['e'] + e['th'] + str(e['t']) + (':' + str(e['i']) if 'i' in e else '') for e in tr)}")
    for j in (0, len(results) // 2, len(results) - 1):
        if results and results[j]["traces"]:
            ck.sample({"scenario": results[j]["scenario"], "trace": results[j]["traces"][-1][0]})
    return tot


def replay(rec: Dict[str, Any]) -> int:
    sc = rec["scenario"]
    print("scenario:", json.dumps(sc))
    with patches():
        ds = make_run_one(sc, rec.get("form", "rel"), rec.get("wide", False))(choose_from(rec["decisions"]))
    tr, st = finish_trace(ds)
    print("trace of the recorded schedule on this tree:")
    for e in tr:
        print("   ", json.dumps(e))
    if tr != rec["trace"]:
        print("note: the trace differs from the recorded one (the tree changed since)")
    rejected, only_late, _ = validate([tr])
    if rejected:
        upto = rejected[0][1]
        print(f"trace spec verdict: REJECTED at event {upto}: {json.dumps(tr[upto]) if upto < len(tr) else 'end'}")
        return 1
    print("trace spec verdict: accepted")
    return 0
