"""C02 - termination releases every source subscription.
Lifecycle.tla: virtual time cannot pass (Tick) while a terminated pipeline with no live window/group still holds a
source subscription.  Traces come from every catalogue operator alone and from compositions, with the termination
patterns of the statement: completion, error, early termination (take/first/amb/take_until...), inner errors while
other inners are pending, trigger/sampler/duration sources still pending."""
from harness import core
from props import lifecycle_common as lc

META = {
    "technique": "Lifecycle.tla monitor (Tick guarded by 'terminated and no live group => no open source subscription') validating traces of catalogue pipelines over logged test sources with TLC",
    "level": "Every source a pipeline touches (main, other, inner, trigger/sampler/duration) is a logged TestScheduler observable, so the trace contains the opening and closing of every source subscription next to the subscriber's notifications and the windows/groups handed to it; TLC accepts the trace only if, whenever virtual time advances or the run ends, a subscriber that has received its terminal notification and whose windows/groups have all ended holds no open source subscription. About 125 operators alone (hot and cold, completing, failing and never-ending sources) and seeded compositions of depth 2-3 are run; the operators modelled in the L3 modules additionally assert the exact instant of release (C05-C19 compare the unsubscription instant).",
    "note": "TLC 1.8; release is judged at the end of the instant in which the terminal notification was delivered",
    "ref": "DESIGN.md 6 C02, A.2",
}


def run(tier):
    ck = core.Check("C02", tier)
    lc.design_check(ck)
    per_op, nd = (10, 1200) if tier == "quick" else (60, 12000)
    st = {}
    st["single"] = lc.validate(ck, "C02", lc.specs_single(ck.seed + 21, per_op), "catalogue operators alone")
    st["depth2"] = lc.validate(ck, "C02", lc.specs_depth(ck.seed + 22, nd, 2), "depth 2")
    st["depth3"] = lc.validate(ck, "C02", lc.specs_depth(ck.seed + 23, nd, 3), "depth 3")
    # early termination downstream of every operator (take/first/take_while/element_at/take_until/...)
    st["early"] = lc.validate(ck, "C02", lc.specs_depth(ck.seed + 24, nd, 2, early=True), "depth 2, early-terminating consumer")
    st["groups_early"] = lc.validate(ck, "C02", lc.specs_groups_early(ck.seed + 27, 3 if tier == "quick" else 25),
                                     "window/group operators under an early-terminating consumer, windows subscribed or ignored")
    # the subscriber's own terminal callback raises: it has received its terminal notification, the sources must still be released
    st["sink_raises"] = lc.validate(ck, "C02", lc.specs_single(ck.seed + 25, max(3, per_op // 2), sink_raise=True) +
                                    lc.specs_depth(ck.seed + 26, nd // 2, 2, sink_raise=True), "terminal callback of the subscriber raises")
    ck.note("pipeline_runs", st)
    ck.rule = (f"each catalogue operator x {per_op} seeded scenarios (hot/cold source, C/E/never, other/inner/trigger sources), {nd} depth-2 and "
               f"{nd} depth-3 pipelines; non-trivial = validated traces (each contains at least one source subscription)")
    ck.nontrivial = sum(v["validated"] for v in st.values())
    ck.exhaustive = False
    ck.sample({"spec": lc.specs_single(ck.seed + 21, 1)[40]})
    tr = lc.run_pipeline(dict(seed=3, names=["flat_map", "take"], hot=True))
    if tr["trace"]:
        ck.sample({"pipeline": ["flat_map", "take"], "trace": tr["trace"]["ev"][:30]})
    ck.assumptions = ["pipelines are sampled with VERIF_SEED", "the recording subscriber subscribes to every window/group handed to it"]
    return ck.finish()


replay = lc.replay
