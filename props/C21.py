"""C21 - see META.  Spec: spec/Subjects.tla (Kind = "behavior"); Binding A, stepwise (props/subjects_common.py)."""
from props import subjects_common as sc


def run(tier):
    return sc.run_kind("C21", "behavior", tier)


replay = sc.generic_replay

META = {'technique': 'TLC-enumerated call histories of Subjects.tla (Kind=behavior) replayed stepwise on the real '
              'BehaviorSubject, initial/current values from a falsy pool',
 'level': 'Subjects.tla with the current value: subscribe on a live subject delivers the value current at '
          'that call before anything later, on_next sets the value and then broadcasts to its snapshot, late '
          'subscribers get the terminal only; TLC checks CurrentFirst (against the last effective on_next '
          'before the subscription, or the initial value), ThenLikeSubject, LateTerminal and the C20 '
          'invariants on every state and exports every history with its accepted observations; each is '
          "performed on the real BehaviorSubject with initial values None/0/''/False/[]... and compared "
          'after every top-level call. Exhaustive up to the stated call budget, simulated beyond it. In addition adjacent calls of exported histories (subscribe vs an emitting call; AsyncSubject on_next vs on_completed) are issued on two threads under DetSched (preemption bound 2/3) and the outcome must be the exported outcome of one of the two sequential orders; dispose() from inside a callback is modelled with an open cut-off set.',
 'note': 'TLC 1.8; DetSched shims for the subject locks (a source line without a call is atomic); the call/value codec of props/subjects_common.py (identity-based value comparison); '
         'single thread',
 'ref': 'DESIGN.md 6 C21, D.8'}
