"""C26 - container disposables dispose each held item exactly once (Disposables.tla: sequential histories replayed stepwise, all interleavings of the
abstract object checked by TLC, real executions under controlled schedules validated as traces)."""
from props import disp_common as dc

META = {
    "technique": "TLA+ abstract objects with linearization steps (Disposables.tla): TLC-enumerated sequential histories replayed stepwise + DetSched-controlled thread schedules of the real classes validated by TLC trace checking (DisposablesTrace.tla)",
    "level": "TLC checks AtMostOnce/NeverWhileHeld/ExactlyOnce/RefCountInv on every interleaving of Call/Lin/Effect/Ret of the abstract object for 2 threads; every single-thread call history up to the budget is exported with per-call results, dispose counts and is_disposed and performed on the real class; scripts for 2-3 threads are run on the real class for every schedule up to the preemption bound (plus seeded random schedules) and each recorded call/dispose/return trace must be explainable by some placement of linearization points that satisfies all invariants.",
    "note": "TLC 1.8; DetSched switch points = GIL-realisable points in reactivex/disposable/*.py; RLock replaced by a cooperative re-entrant lock",
    "ref": "DESIGN.md 6 C26, D.1-D.3",
}

RULE = 'every call history of <= 4-5 calls (add/remove/clear/dispose/len; assign/dispose/read) over 3 items on Composite, Serial, SingleAssignment and MultipleAssignment disposables, with plain items and with falsy items (empty CompositeDisposable subclasses); 2-3 threads x short scripts x prologues under every schedule up to the preemption bound; non-trivial = histories in which some item was disposed, plus distinct concurrent traces'
ASSUME = ['every item is given to a container at most once per history']


def run(tier):
    return dc.run_property("C26", dc.KINDS_C26, tier, RULE, ASSUME)


replay = dc.replay
