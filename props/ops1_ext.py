"""Cross-cutting dimensions over the Ops1.tla scenarios (same model, same codec as C05/C06):
   fault     (C09)  function tables that raise; hot / cold / Subject drivers; nothing may escape
   dispose   (C03)  dispose at every instant; silence, release, no user callback afterwards
   resub     (C04)  the same observable object subscribed again (sequentially / overlapping)
   forms     (C39)  fluent method vs piped operator
   junk/sink (C01)  sources that go on after their terminal; sink callbacks that raise
The expected observation always comes from the TLC export; this module only drives the real code
in more ways and projects what it sees onto the exported record."""
from __future__ import annotations

import sys
from typing import Any, Dict, List, Optional, Tuple

from props import ops1_common as oc

NEVER_T = oc.NEVER_T


class SinkErr(Exception):
    pass


def _wrap_callables(args: tuple, marks: List[Tuple[Any, str]], clock) -> tuple:
    """every user function handed to the operator records (clock, outcome) per invocation"""
    out = []
    for a in args:
        if callable(a) and not isinstance(a, type):
            def w(*xs, _f=a):
                try:
                    r = _f(*xs)
                except BaseException:
                    marks.append((clock(), "raise"))
                    raise
                marks.append((clock(), "ok"))
                return r
            out.append(w)
        else:
            out.append(a)
    return tuple(out)


def apply_op(xs, scn, cod, form: str, marks=None, clock=None):
    from reactivex import operators as ops
    name, args, kwargs = oc.build(scn["op"], scn["par"], cod)
    if marks is not None:
        args = _wrap_callables(args, marks, clock)
    if name == "getitem_int":
        return xs[args[0]]
    if name == "slice" and form == "getitem":
        return xs[args[0]:args[1]:args[2]]
    if form == "fluent":
        return getattr(xs, name)(*args, **kwargs)
    return xs.pipe(getattr(ops, name)(*args, **kwargs))


def fluent_available(op: str, par, cod) -> bool:
    from reactivex import Observable
    name, _, _ = oc.build(op, par, cod)
    return hasattr(Observable, name)


# ---- the TestScheduler drivers with extra dimensions -------------------------------------------------------
def run_vt(scn, *, hot: bool, tmap: str, profile: str, k: int, salt: int = 0, form: str = "pipe",
           junk: Tuple[str, ...] = (), sink_raise: Optional[Tuple[str, int]] = None, resub: Optional[str] = None):
    """As ops1_common.run_scenario, plus: junk = notifications the source emits AFTER its terminal;
    sink_raise = (kind, k): the subscriber's k-th callback of that kind raises; resub = None | "seq" | "overlap" | "overlap_mid":
    the same observable object is subscribed a second time."""
    from reactivex.scheduler import VirtualTimeScheduler
    from reactivex.testing import ReactiveTest, TestScheduler
    op, par, src, term, dsp = scn["op"], scn["par"], scn["src"], scn["term"], scn["dsp"]
    cod = oc.Codec(op, par, profile, k, salt)
    if cod.vals is None:
        return None
    n = len(src) + (0 if term == "U" else 1)
    T = oc.time_map(tmap, max(n, 1) + 1 + len(junk))
    never = dsp > len(src) + 1
    dtime = None
    if not never:
        if dsp < len(T) - 1 and T[dsp + 1] - T[dsp] < 2:
            return None
        dtime = T[dsp] + 5 if tmap == "spread" else T[dsp] + 1
    s = TestScheduler()
    msgs = []
    off = 0 if hot else 200
    for j, t in enumerate(src, start=1):
        msgs.append(ReactiveTest.on_next(T[j] - off, cod.vals[t]))
    if term == "C":
        msgs.append(ReactiveTest.on_completed(T[n] - off))
    elif term == "E":
        msgs.append(ReactiveTest.on_error(T[n] - off, cod.src_err))
    jt = T[n] if n < len(T) else T[-1]
    for q, jk in enumerate(junk, start=1):
        when = (T[n + q] if n + q < len(T) else jt + 10 * q) - off
        if jk == "N":
            msgs.append(ReactiveTest.on_next(when, cod.vals[0]))
        elif jk == "C":
            msgs.append(ReactiveTest.on_completed(when))
        else:
            msgs.append(ReactiveTest.on_error(when, SinkErr("junk")))
    xs = s.create_hot_observable(msgs) if hot else s.create_cold_observable(msgs)
    marks: List[Tuple[Any, str]] = []
    ys = apply_op(xs, scn, cod, form, marks, lambda: s.clock)
    recs: List[List[Tuple[float, str, Any]]] = []
    holders: List[Dict[str, Any]] = []
    counts = {"N": 0, "E": 0, "C": 0}

    def subscribe_at(t):
        rec: List[Tuple[float, str, Any]] = []
        holder: Dict[str, Any] = {}
        recs.append(rec)
        holders.append(holder)

        def cb(kind):
            def f(*v):
                rec.append((s.clock, kind, v[0] if v else None))
                if sink_raise and kind == sink_raise[0]:
                    counts[kind] += 1
                    if counts[kind] == sink_raise[1]:
                        raise SinkErr("sink")
            return f

        def go(_s=None, _st=None):
            holder["d"] = ys.subscribe(on_next=cb("N"), on_error=cb("E"), on_completed=cb("C"), scheduler=s)
        s.schedule_absolute(t, go)
    subscribe_at(200)
    second_at = None
    if resub == "overlap":
        second_at = 203
    elif resub == "overlap_mid":      # the second subscription starts between two elements of the first (state shared by reference
        second_at = 215               # shows only when the two runs are out of step)
    elif resub == "seq":
        second_at = 1200
    if second_at:
        subscribe_at(second_at)
    if not never:
        s.schedule_absolute(dtime, lambda *_: holders[0]["d"].dispose())
    escaped: List[BaseException] = []
    for _ in range(50):   # an exception escaping into the scheduler stops start(); note it and let the run go on
        try:
            VirtualTimeScheduler.start(s)
            break
        except Exception as e:
            escaped.append(e)
    return {"rec": recs[0], "recs": recs, "subs": [(x.subscribe, x.unsubscribe) for x in xs.subscriptions], "T": T, "cod": cod,
            "escaped": escaped[0] if escaped else None, "all_escaped": escaped, "dtime": dtime, "marks": marks,
            "second_at": second_at}


def run_subject(scn, *, profile: str, k: int, salt: int = 0, form: str = "pipe"):
    """Hot driver without any scheduler: the harness calls Subject.on_next itself, so an exception that escapes
    the pipeline is observed directly at the emitter.  Instants are 200 + index."""
    from reactivex.subject import Subject
    op, par, src, term, dsp = scn["op"], scn["par"], scn["src"], scn["term"], scn["dsp"]
    cod = oc.Codec(op, par, profile, k, salt)
    if cod.vals is None:
        return None
    n = len(src) + (0 if term == "U" else 1)
    T = [200 + j for j in range(n + 3)]
    never = dsp > len(src) + 1
    now = [200]
    subj = Subject()
    marks: List[Tuple[Any, str]] = []
    ys = apply_op(subj, scn, cod, form, marks, lambda: now[0])
    rec: List[Tuple[float, str, Any]] = []
    escaped: List[BaseException] = []
    unsub = [NEVER_T]
    d = ys.subscribe(on_next=lambda v: rec.append((now[0], "N", v)), on_error=lambda e: rec.append((now[0], "E", e)),
                     on_completed=lambda: rec.append((now[0], "C", None)))
    ever = len(subj.observers) > 0

    def watch(t):
        if ever and unsub[0] == NEVER_T and len(subj.observers) == 0:
            unsub[0] = t
    watch(200)
    dtime = None
    if not never and dsp == 0:
        dtime = 200.5
        now[0] = dtime
        d.dispose()
        watch(dtime)
    for j in range(1, n + 1):
        now[0] = T[j]
        try:
            if j <= len(src):
                subj.on_next(cod.vals[src[j - 1]])
            elif term == "C":
                subj.on_completed()
            else:
                subj.on_error(cod.src_err)
        except Exception as e:
            escaped.append(e)
        watch(T[j])
        if not never and dsp == j:
            dtime = T[j] + 0.5
            now[0] = dtime
            d.dispose()
            watch(dtime)
    return {"rec": rec, "recs": [rec], "subs": [(200, unsub[0])] if ever else [], "T": T, "cod": cod,
            "escaped": escaped[0] if escaped else None, "all_escaped": escaped, "dtime": dtime, "marks": marks, "second_at": None}


def run_raw(scn, *, profile: str, k: int, salt: int = 0, reenter: Tuple[str, ...] = ("N", "C")):
    """A NON-CONFORMING hot source written with reactivex.create: it keeps the observer it was given and calls it
    whenever told to, stopped or not.  The subscriber's terminal callbacks RE-ENTER the source synchronously with the
    notifications in `reenter` (a subscriber whose on_completed / on_error handler pokes a still-alive upstream).
    Instants are 200 + index; the expected observation is that of the conforming scenario."""
    import reactivex
    from reactivex.disposable import Disposable
    op, par, src, term, dsp = scn["op"], scn["par"], scn["src"], scn["term"], scn["dsp"]
    cod = oc.Codec(op, par, profile, k, salt)
    if cod.vals is None:
        return None
    n = len(src) + (0 if term == "U" else 1)
    T = [200 + j for j in range(n + 3)]
    now = [200]
    held: List[Any] = []
    unsub = [NEVER_T]

    def subscribe(observer, scheduler=None):
        held.append(observer)

        def dispose():
            if unsub[0] == NEVER_T:
                unsub[0] = now[0]
        return Disposable(dispose)
    xs = reactivex.create(subscribe)
    marks: List[Tuple[Any, str]] = []
    ys = apply_op(xs, scn, cod, "pipe", marks, lambda: now[0])
    rec: List[Tuple[float, str, Any]] = []
    escaped: List[BaseException] = []
    depth = [0]

    def poke():
        if depth[0] > 0 or not held:
            return
        depth[0] += 1
        try:
            for kind in reenter:
                for o in list(held):
                    if kind == "N":
                        o.on_next(cod.vals[0])
                    elif kind == "C":
                        o.on_completed()
                    else:
                        o.on_error(SinkErr("re-entrant"))
        finally:
            depth[0] -= 1

    def on_error(e):
        rec.append((now[0], "E", e))
        poke()

    def on_completed():
        rec.append((now[0], "C", None))
        poke()
    ys.subscribe(on_next=lambda v: rec.append((now[0], "N", v)), on_error=on_error, on_completed=on_completed)
    for j in range(1, n + 1):
        now[0] = T[j]
        try:
            for o in list(held):
                if j <= len(src):
                    o.on_next(cod.vals[src[j - 1]])
                elif term == "C":
                    o.on_completed()
                else:
                    o.on_error(cod.src_err)
        except Exception as e:
            escaped.append(e)
    return {"rec": rec, "recs": [rec], "subs": [(200, unsub[0])] if held else [], "T": T, "cod": cod,
            "escaped": escaped[0] if escaped else None, "all_escaped": escaped, "dtime": None, "marks": marks, "second_at": None}


def judge_reenter(scn, allowed, *, profile: str, k: int, reenter, salt: int = 0):
    """C01: a subscriber whose terminal callback synchronously makes a still-alive (non-conforming) upstream emit again
    must not be called again - the observation is exactly the conforming one."""
    got = run_raw(scn, profile=profile, k=k, salt=salt, reenter=tuple(reenter))
    if got is None:
        return "n/a"
    var = dict(profile=profile, salt=salt, k=k, form="pipe", mode="reenter", reenter=list(reenter))
    g = grammar_ok(got["rec"])
    if g:
        return _base_record(scn, allowed, got, "grammar:" + g, failure="grammar", **var)
    r = _match_any(scn, allowed, dict(got, escaped=None))
    if r is not None:
        return _base_record(scn, allowed, got, r, failure="mismatch", **var)
    return None


# ---- judges -----------------------------------------------------------------------------------------------------
def _base_record(scn, allowed, got, reason, **kw):
    rec = {"engine": "ops1", "op": scn["op"], "scn": scn, "expected": allowed, "observed": oc.describe(got), "reason": reason,
           "reason_kind": reason.split(":")[0]}
    rec.update(kw)
    return rec


def _match_any(scn, allowed, got):
    reasons = []
    for exp in allowed:
        r = oc.compare(scn, exp, got)
        if r is None:
            return None
        reasons.append(r)
    return reasons[0]


def judge_fault(scn, allowed, *, driver: str, tmap: str, profile: str, k: int, salt: int = 0):
    """C09: the observation must be an allowed one (the error reaches the sink as on_error, at the instant of the
    element being processed, and the source is released), nothing escapes, and no user function runs again."""
    if driver == "subject":
        got = run_subject(scn, profile=profile, k=k, salt=salt)
    else:
        got = run_vt(scn, hot=(driver == "hot"), tmap=tmap, profile=profile, k=k, salt=salt)
    if got is None:
        return "n/a"
    var = dict(driver=driver, tmap=tmap, profile=profile, salt=salt, k=k, form="pipe", mode="fault")
    if got["escaped"] is not None:
        return _base_record(scn, allowed, got, f"escaped:{type(got['escaped']).__name__}", failure="escaped_exception", **var)
    r = _match_any(scn, allowed, got)
    if r is not None:
        return _base_record(scn, allowed, got, r, failure="mismatch", **var)
    raised = [i for i, (_, o) in enumerate(got["marks"]) if o == "raise"]
    if raised and len(got["marks"]) > raised[0] + 1:
        return _base_record(scn, allowed, got, "callback:invoked again after it raised", failure="late_callback", **var)
    return None


def judge_dispose(scn, allowed, *, driver: str, tmap: str, profile: str, k: int, salt: int = 0):
    """C03: allowed observation (silence after the dispose instant, source closed at that instant) and no user function
    of the pipeline invoked after dispose() returned."""
    if driver == "subject":
        got = run_subject(scn, profile=profile, k=k, salt=salt)
    else:
        got = run_vt(scn, hot=(driver == "hot"), tmap=tmap, profile=profile, k=k, salt=salt)
    if got is None:
        return "n/a"
    var = dict(driver=driver, tmap=tmap, profile=profile, salt=salt, k=k, form="pipe", mode="dispose")
    r = _match_any(scn, allowed, got)
    if r is not None:
        return _base_record(scn, allowed, got, r, failure="mismatch", **var)
    if got["dtime"] is not None and any(t > got["dtime"] for (t, _) in got["marks"]):
        return _base_record(scn, allowed, got, "callback:user function invoked after dispose() returned", failure="late_callback", **var)
    return None


def judge_resub(scn, allowed, *, pattern: str, tmap: str, profile: str, k: int, salt: int = 0):
    """C04: cold source, the same observable object subscribed twice; the second subscriber's notifications, shifted to
    its own subscription instant, must again be an allowed observation of the one-subscription scenario."""
    got = run_vt(scn, hot=False, tmap=tmap, profile=profile, k=k, salt=salt, resub=pattern)
    if got is None:
        return "n/a"
    var = dict(driver="cold", tmap=tmap, profile=profile, salt=salt, k=k, form="pipe", mode="resub", pattern=pattern)
    shift = got["second_at"] - 200
    subs = got["subs"]
    firsts = [x for x in subs if x[0] == 200]
    seconds = [(a - shift, b - shift if b != NEVER_T else b) for (a, b) in subs if a == got["second_at"]]
    if len(firsts) + len(seconds) != len(subs):
        return _base_record(scn, allowed, got, f"subscriptions:{subs}", failure="mismatch", **var)
    for which, (rec, ss) in enumerate([(got["recs"][0], firsts), ([(t - shift, kk, v) for (t, kk, v) in got["recs"][1]], seconds)]):
        view = dict(got, rec=rec, subs=ss)
        r = _match_any(scn, allowed, view)
        if r is not None:
            return _base_record(scn, allowed, view, r, failure="mismatch", subscriber=which + 1, **var)
    return None


def _same_run(a, b) -> Optional[str]:
    if len(a["rec"]) != len(b["rec"]):
        return f"count:{len(a['rec'])}!={len(b['rec'])}"
    for (t1, k1, v1), (t2, k2, v2) in zip(a["rec"], b["rec"]):
        if t1 != t2 or k1 != k2:
            return f"event:{(t1, k1)}!={(t2, k2)}"
        if k1 == "N" and not oc.strict_eq(v1, v2) and not (type(v1) is type(v2) and repr(v1) == repr(v2)):
            return f"value:{v1!r}!={v2!r}"
        if k1 == "E" and type(v1) is not type(v2):
            return f"error:{type(v1).__name__}!={type(v2).__name__}"
    if a["subs"] != b["subs"]:
        return f"subscriptions:{a['subs']}!={b['subs']}"
    return None


def judge_forms(scn, allowed, *, hot: bool, tmap: str, profile: str, k: int, salt: int = 0):
    """C39: the fluent method with the same arguments behaves exactly like the piped operator: both runs must be an
    allowed observation of the scenario; where the piped form itself deviates from the model (a defect that belongs to
    another property) the two runs must still be identical to each other."""
    cod = oc.Codec(scn["op"], scn["par"], profile, k, salt)
    if cod.vals is None or scn["op"] == "getitem_int" or not fluent_available(scn["op"], scn["par"], cod):
        return "n/a"
    var = dict(hot=hot, tmap=tmap, profile=profile, salt=salt, k=k, mode="forms")
    runs = {}
    for form in ("pipe", "fluent"):
        try:
            runs[form] = run_vt(scn, hot=hot, tmap=tmap, profile=profile, k=k, salt=salt, form=form)
        except TypeError as e:   # the fluent method does not accept the operator's arguments
            if form == "pipe":
                raise
            return {"engine": "ops1", "op": scn["op"], "scn": scn, "expected": allowed, "observed": repr(e), "reason": "signature:" + str(e)[:80],
                    "reason_kind": "signature", "failure": "signature", "form": form, **var}
        if runs[form] is None:
            return "n/a"
    rp, rf = _match_any(scn, allowed, runs["pipe"]), _match_any(scn, allowed, runs["fluent"])
    if rp is None and rf is None:
        return None
    d = _same_run(runs["pipe"], runs["fluent"])
    if d is None:
        return None      # both forms deviate from the model in the same way: not a difference between the forms
    return _base_record(scn, allowed, runs["fluent"], d, failure="forms_differ", form="fluent",
                        piped_observation=oc.describe(runs["pipe"]), **var)


def grammar_ok(rec) -> Optional[str]:
    term = False
    for (_, kind, _) in rec:
        if term:
            return "notification after the terminal one"
        if kind in ("E", "C"):
            term = True
    return None


def judge_junk(scn, allowed, *, hot: bool, tmap: str, profile: str, k: int, junk, salt: int = 0):
    """C01: a source that goes on emitting after its terminal notification changes nothing for the subscriber."""
    got = run_vt(scn, hot=hot, tmap=tmap, profile=profile, k=k, salt=salt, junk=tuple(junk))
    if got is None:
        return "n/a"
    var = dict(hot=hot, tmap=tmap, profile=profile, salt=salt, k=k, form="pipe", mode="junk", junk=list(junk))
    g = grammar_ok(got["rec"])
    if g:
        return _base_record(scn, allowed, got, "grammar:" + g, failure="grammar", **var)
    got2 = dict(got, escaped=None)
    r = _match_any(scn, allowed, got2)
    if r is not None:
        return _base_record(scn, allowed, got, r, failure="mismatch", **var)
    return None


def judge_sink_raise(scn, allowed, *, hot: bool, tmap: str, profile: str, k: int, which, salt: int = 0):
    """C01: when the subscriber's own callback raises, what it has seen (and sees afterwards) is still N* (E|C)?."""
    got = run_vt(scn, hot=hot, tmap=tmap, profile=profile, k=k, salt=salt, sink_raise=tuple(which))
    if got is None:
        return "n/a"
    g = grammar_ok(got["rec"])
    if g:
        return _base_record(scn, allowed, got, "grammar:" + g, failure="grammar", hot=hot, tmap=tmap, profile=profile, salt=salt, k=k,
                            form="pipe", mode="sink_raise", which=list(which))
    return None


MODES = {"reenter": judge_reenter, "fault": judge_fault, "dispose": judge_dispose, "resub": judge_resub, "forms": judge_forms, "junk": judge_junk,
         "sink_raise": judge_sink_raise}


def _job(args):
    scn, allowed, variants = args
    n, out = 0, []
    for v in variants:
        v = dict(v)
        mode = v.pop("mode")
        f = MODES[mode](scn, allowed, **v)
        if f == "n/a":
            continue
        n += 1
        if f:
            out.append(f)
    return n, out


def replay_groups(ck, groups, variants_for, procs: int = 12):
    from harness import core
    jobs = [(scn, allowed, variants_for(scn)) for scn, allowed in groups]
    total = 0
    for n, fails in core.parallel_map(_job, jobs, procs=procs, chunk=100):
        total += n
        for f in fails:
            ck.fail(f)
    ck.impl += total
    return total


def generic_replay(rec):
    import json
    mode = rec.get("mode")
    if mode is None:
        return oc.generic_replay(rec)
    kw = {}
    for key in ("driver", "tmap", "profile", "k", "salt", "pattern", "hot", "junk", "which", "reenter"):
        if key in rec and key in MODES[mode].__code__.co_varnames[:MODES[mode].__code__.co_argcount + MODES[mode].__code__.co_kwonlyargcount]:
            kw[key] = rec[key]
    f = MODES[mode](rec["scn"], rec["expected"], **kw)
    print(json.dumps(f, default=str)[:2000] if f and f != "n/a" else "replay: observation allowed by the spec")
    return 1 if f and f != "n/a" else 0
