"""C42 - CatchScheduler routes action exceptions to its handler.
Spec: CatchSched.tla (tree programs enumerated lazily; raise / handler verdict / escape as
small steps; the property restated over the logs as invariants).  Binding A: every exported
program is performed on CatchScheduler(VirtualTimeScheduler | TestScheduler |
HistoricalScheduler); programs without a raise also on the bare inner scheduler."""
from __future__ import annotations

import json
import random
from concurrent.futures import ThreadPoolExecutor

from harness import core, tlc
from props import misc_c42 as cc

INVS = ["TypeOK", "EveryRaiseSeenByHandler", "SwallowedIffTrue", "PropagatesIffFalse", "PeriodicTicks",
        "PeriodicStopsAfterRaise", "NotEarly", "RunClocksSorted", "RunOnce", "Fifo", "DueOrder", "StatePassed",
        "TransparentWhenQuiet", "DriveComplete", "ReturnedHandleCancels"]

# bound profiles are defined in CatchSched.tla (AllProfiles); one exhaustive TLC run enumerates a whole set
QUICK = {"q_trees", "q_periodic", "q_mixed", "q_cancel", "q_zero", "q_ret"}
THOROUGH = {"q_trees", "q_periodic", "q_mixed", "q_cancel", "q_zero", "q_ret", "t_ret", "t_trees", "t_forest", "t_periodic", "t_mixed"}


def _tlc(job):
    label, profiles, sim, seed = job
    cfg = tlc.cfg_text({"Profiles": set(profiles)}, invariants=INVS + ["Export"])
    if sim:
        return label, tlc.run("CatchSched", cfg, workers=1, timeout=1500, simulate=f"num={sim}", depth=80, seed=seed,
                              xmx="2g", allow_violation=False)
    return label, tlc.run("CatchSched", cfg, workers=1, timeout=3000, xmx="3g", allow_violation=False)


def _ret_cancel(scn):
    """some action returned a child's handle and its own handle is disposed by a cancel command"""
    cmds = [c for b in scn["body"] for inv in b for c in inv]
    returners = {i + 1 for i, b in enumerate(scn["body"]) for inv in b for c in inv if c["c"] == "ret"}
    return any(c["c"] == "cancel" and c["a"] in returners for c in cmds)


def _variants(scn, tier):
    """(kind, wrap, falsy, nest) combinations a scenario is performed under."""
    out = []
    h = len(json.dumps(scn, sort_keys=True))
    for i, kind in enumerate(cc.KINDS):
        out.append((kind, True, None if (h + i) % 2 else False, False))
        if cc.quiet(scn):
            out.append((kind, False, False, False))
    # a second catch layer that never accepts must change nothing
    out.append((cc.KINDS[h % 3], True, False, True))
    return out


def _job(args):
    scn, allowed, tier = args
    fails = []
    n = 0
    for kind, wrap, falsy, nest in _variants(scn, tier):
        n += 1
        f = cc.judge(scn, allowed, kind, wrap=wrap, falsy=falsy, nest=nest)
        if f:
            fails.append(f)
    return n, fails


def _pmap(fn, items):
    # measured on the loaded box: a fork pool is SLOWER than a plain loop for these sub-millisecond replays
    # until there are some 10^5 of them (14 500 programs: 8 s serial, 17-67 s with 2-8 processes)
    if len(items) < 60000:
        return [fn(x) for x in items]
    return core.parallel_map(fn, items, procs=8, chunk=2000)


def run(tier: str) -> int:
    ck = core.Check("C42", tier)
    ck.rule = ("tree programs (roots scheduled through the CatchScheduler, children through the scheduler handed to the "
               "running action: immediate/relative/absolute/periodic; cancels; raises of two exception tokens at any node "
               "and periodic tick) x handler verdict tables x driver (start / advance_to), enumerated lazily by TLC on "
               "CatchSched.tla; each performed on CatchScheduler over the three virtual-time schedulers with both falsy "
               "verdict forms, under a second never-accepting catch layer, and (programs without raise) on the bare inner "
               "scheduler; non-trivial = at least one raise")
    jobs = []
    if tier == "quick":
        jobs.append(("exhaustive " + ",".join(sorted(QUICK)), QUICK, 0, 0))
    else:
        for pr in sorted(THOROUGH):   # one JVM each, at most 4 at a time
            jobs.append(("exhaustive " + pr, {pr}, 0, 0))
    jobs.append(("simulate", {"sim"}, 1000 if tier == "quick" else 60000, ck.seed + 11))
    lines = []
    with ThreadPoolExecutor(max_workers=2 if tier == "quick" else 4) as ex:
        for label, res in ex.map(_tlc, jobs):
            ck.add_tlc(res, label)
            if label == "simulate":
                # one simulated behaviour shows one resolution of the model's nondeterminism:
                # programs whose allowed set is not a singleton are judged in the exhaustive part only
                keep = [ln for ln in res.lines if not ln["obs"]["amb"]]
                ck.note("simulated_programs_skipped_as_ambiguous", len(res.lines) - len(keep))
                lines += keep
            else:
                lines += res.lines
    ck.exhaustive = True
    groups = core.group_allowed(lines)
    ck.note("scenarios", len(groups))
    ck.note("scenarios_with_choice", sum(1 for g in groups if len(g[1]) > 1))
    # vacuity: the antecedents of the invariants must have been reached in the exported space
    depths = [cc.raise_depths(g[0]) for g in groups]
    vac = {
        "raise_at_depth_ge2": sum(1 for d in depths if any(x >= 2 for x in d)),
        "raise_at_depth_1": sum(1 for d in depths if any(x == 1 for x in d)),
        "two_raises": sum(1 for d in depths if len(d) >= 2),
        "periodic_raise": sum(1 for g in groups if any(g[0]["kind"][h[0] - 1] == "per" for h in g[1][0]["handler"])),
        "escaped": sum(1 for g in groups if any(d["esc"] for d in g[1][0]["drives"])),
        "swallowed": sum(1 for g in groups if len(g[1][0]["handler"]) > sum(1 for d in g[1][0]["drives"] if d["esc"])),
        "quiet": sum(1 for g in groups if cc.quiet(g[0])),
        "zero_or_negative_relative_due_with_declined_raise": sum(1 for g in groups if any(
            c["c"] == "sched_rel" and c["a"] <= 0 for cs in [g[0]["top"]] + [inv for b in g[0]["body"] for inv in b] for c in cs)
            and any(d["esc"] for d in g[1][0]["drives"])),
        "returned_handle_disposed_via_outer": sum(1 for g in groups if _ret_cancel(g[0])),
        "periodic_cancelled": sum(1 for g in groups if "per" in g[0]["kind"] and any(
            c["c"] == "cancel" and g[0]["kind"][c["a"] - 1] == "per" for b in g[0]["body"] for inv in b for c in inv)),
    }
    vac["two_allowed_clocks"] = sum(1 for g in groups if len(g[1]) > 1)
    ck.note("vacuity", vac)
    if not all(vac.values()):
        raise RuntimeError(f"vacuous model run: {vac}")
    n_impl = 0
    for n, fails in _pmap(_job, [(g[0], g[1], tier) for g in groups]):
        n_impl += n
        for f in fails:
            ck.fail(f)
    ck.impl = n_impl
    ck.nontrivial = sum(1 for d in depths if d)
    rnd = random.Random(ck.seed)
    for g in rnd.sample(groups, min(4, len(groups))):
        ck.sample({"scn": g[0], "allowed": g[1]})
    ck.assumptions = [
        "the inner scheduler is one of the three virtual-time schedulers (the statement's quantifier); their own order and clock laws are C28's",
        "after an exception escaped start()/advance_to() the replayer calls stop() before driving again (the virtual-time scheduler is left enabled by an escaping exception; the statement says nothing about that)",
        "the handler is called exactly once per raise (one catch layer per scheduled action); under the second, never-accepting outer layer the recording handler is the inner one, still once",
        "whether discarding a cancelled entry moves the clock is left open (both clocks allowed under start(); invisible under advance_to)",
        "periodic nodes only under the advance_to driver; periodic actions do not schedule (they are handed no scheduler)",
        "after a periodic action raised the node never ticks again whatever the verdict (verdict FALSE: by C35's 'stops after the action raises')",
    ]
    return ck.finish()


def replay(rec) -> int:
    falsy = {"False": False, "None": None}.get(rec.get("falsy", "False"), False)
    f = cc.judge(rec["scn"], rec["expected"], rec["sched"], wrap=rec.get("wrapped", True), falsy=falsy,
                 nest=rec.get("nested", False))
    print(json.dumps(f, default=str)[:2000] if f else "replay: observation allowed by the spec")
    return 1 if f else 0


META = {
    'technique': 'TLC-enumerated tree programs of CatchSched.tla (raise/handler/escape small steps, property restated as log invariants) replayed on the real CatchScheduler over the three virtual-time schedulers',
    'level': 'TLC checks on every reachable state of the bounded program space that every raise (any depth, one-shot or periodic tick) reaches the handler with the raised token, that the driver call ends with the exception iff the verdict is false, that a periodic node never ticks after a raise, and the inner order/clock/state-passing laws; every program is exported with its allowed run log, handler log and per-driver-call outcome and performed on CatchScheduler(VirtualTimeScheduler/TestScheduler/HistoricalScheduler), programs without raise also on the bare scheduler; the observation must be allowed. Exhaustive for the stated bounds, simulated beyond them.',
    'note': "TLC 1.8; the command codec of props/misc_c42.py; virtual-time schedulers (C28); replayer calls stop() after an escaped exception",
    'ref': 'DESIGN.md 6 C42',
}
