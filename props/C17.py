"""C17 - time-window operators respect their window boundaries (OpsTime.tla, Binding A).
take_with_time, skip_with_time, take_until_with_time, skip_until_with_time (relative and absolute datetime),
take_last_with_time, skip_last_with_time, timeout (relative / absolute, with and without fallback), timeout_with_mapper."""
from harness import core
from props import time_common as tc

BASE = dict(MaxLen=3, MaxT=4, Lo=1, Small=set(), MaxLenS=2, MaxTS=3, Ds={0, 1, 2}, AbsLo=1, Terms={"C", "E", "U"}, AuxLen=1,
            SpecKs={"N", "C", "E", "U", "X"}, SpecTs={0, 2}, Hz=7, DispOps=set(), DispLen=1, EchoOps=set(), EchoKs=set())

WINDOWS = ["take_with_time", "take_until_with_time", "take_until_abs", "skip_with_time", "skip_until_with_time", "skip_until_abs",
           "take_last_with_time", "skip_last_with_time"]

QUICK = [(WINDOWS + ["timeout", "timeout_abs"], dict(MaxT=3, Hz=6, DispOps={"timeout"})),
         (["timeout_other", "timeout_abs_other", "timeout_with_mapper", "timeout_with_mapper_other"],
          dict(MaxLen=2, MaxT=2, Terms={"C", "E"}, SpecTs={0, 1}, MaxLenS=1, MaxTS=1, Hz=5,
               Small={"timeout_with_mapper", "timeout_with_mapper_other", "timeout_abs_other"}))]

THOROUGH = [(WINDOWS, dict(MaxLen=4, MaxT=5, Ds={0, 1, 2, 3}, AbsLo=2, Hz=9)),
            (["timeout", "timeout_abs", "timeout_other", "timeout_abs_other"],
             dict(MaxLen=3, MaxT=4, AuxLen=1, Small={"timeout_other", "timeout_abs_other"}, MaxLenS=2, MaxTS=3, Hz=8)),
            (["timeout_with_mapper", "timeout_with_mapper_other"],
             dict(MaxLen=2, MaxT=2, SpecTs={0, 1, 2}, AuxLen=1, Small={"timeout_with_mapper_other"}, MaxLenS=1, MaxTS=2, Hz=6)),
            (WINDOWS + ["timeout", "timeout_other", "timeout_with_mapper"],
             dict(MaxLen=2, MaxT=2, Hz=5, DispLen=2, Small={"timeout_with_mapper", "timeout_other"}, MaxLenS=1, MaxTS=2,
                  DispOps=set(WINDOWS) | {"timeout", "timeout_other", "timeout_with_mapper"})),
            # a cold source that notifies at its very subscription instant
            (WINDOWS + ["timeout", "timeout_abs", "timeout_other", "timeout_with_mapper"],
             dict(Lo=0, MaxLen=2, MaxT=2, SpecTs={0, 1}, AuxLen=1, Hz=5, Small={"timeout_with_mapper", "timeout_other"}, MaxLenS=1, MaxTS=1))]

SIM = (WINDOWS + ["timeout", "timeout_abs"], dict(MaxLen=5, MaxT=7, Ds={0, 1, 2, 3, 5}, AbsLo=2, Hz=13))


def run(tier):
    ck = core.Check("C17", tier)
    groups = tc.run_groups(ck, QUICK if tier == "quick" else THOROUGH, BASE, tier)
    ck.exhaustive = True
    if tier == "thorough":
        nsim = tc.simulate_and_replay(ck, SIM[0], dict(BASE, **SIM[1]), 20000, tier)
        ck.note("simulated_tie_free_scenarios", nsim)
    ck.rule = ("every source timeline (element times 1..MaxT non-decreasing: elements before, at and after every boundary, with "
               "and without same-instant companions; 0..MaxLen elements; ending in completion, error or nothing) x every "
               "duration / absolute target / fallback timeline / timeout-observable table, enumerated by TLC on OpsTime.tla with "
               "every order of same-instant events; each scenario run on the real operator with 5 source scripts that resolve "
               "same-instant ties differently, on TestScheduler and HistoricalScheduler; non-trivial = the expected output is not "
               "the input unchanged, or the scenario has a same-instant tie")
    ck.nontrivial = sum(1 for g in groups if tc.nontrivial(*g))
    ck.note("scenarios", len(groups))
    ck.note("scenarios_with_ties", sum(1 for g in groups if tc.has_tie(*g)))
    ck.note("operators", sorted({g[0]["op"] for g in groups}))
    ck.note("not_compared", ["skip_last_with_time: the exact instant of an element (asserted: not before it is d old, not after the end)",
                             "instant at which the source subscription is released (recorded as model_drift only)"])
    for g in groups[:: max(1, len(groups) // 5)][:5]:
        ck.sample({"scn": g[0], "allowed": g[1]})
    ck.assumptions = ["TestScheduler/HistoricalScheduler run actions in due order, FIFO among equals (checked separately: C28)",
                      "an element or terminal arriving at exactly a boundary / due time races the timer: both outcomes allowed; the "
                      "boundary rules of take_last_with_time (younger: age < d) and skip_last_with_time (age >= d) are exact",
                      "timeout(datetime): the timer is due at that absolute instant whatever arrives before it",
                      "1 model tick = 1, 7 or 60 virtual seconds"]
    return ck.finish()


replay = tc.generic_replay


META = {
    'technique': 'TLC-enumerated timed scenarios of OpsTime.tla (lane/tie runner, transducer checked against a time-level reference) replayed on the real operators on TestScheduler and HistoricalScheduler',
    'level': 'OpsTime.tla states take/skip[_until]_with_time, take_last/skip_last_with_time, timeout (relative, absolute, with fallback) and timeout_with_mapper twice (timer-lane transducer and a reference over the timeline\'s times with exact boundary rules; TLC checks agreement, BoundaryIndependent, grammar, causality and release invariants on every enumerated timeline and every order of same-instant events) and exports each scenario with its allowed observations; each is run on the real operator with several source scripts that drive same-instant ties differently, on a float and on a datetime virtual clock, with number / float / timedelta / absolute-datetime arguments and falsy element values, and must match on values, instants and terminal. Exhaustive for the stated bounds, sampled beyond them in the thorough tier.',
    'note': 'TLC 1.8; codec of props/time_common.py (scripted sources, spec observables); virtual-time schedulers (verified by C28)',
    'ref': 'DESIGN.md 6 C17, 3.2, App. A.1/C',
}
