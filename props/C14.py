"""C14 - early termination cancels synchronous infinite sources.
Spec: Subscribe.tla (frame-stack interpreter of Observable.subscribe / auto-detach observer /
trampolines / single-assignment subscription slots; the harness' work budget is part of the model).
Binding A: every (shape x scheduler configuration x subscription context) TLC explores is built on
the real library with counting infinite sources under the same work budget."""
from __future__ import annotations

import json
import random
import re

from harness import core, tlc
from props import c14_common as cc

INVS = ["TypeOK", "SinkGrammar", "ReturnedClean", "DisposedIsStopped", "RefOK", "BoundedResched", "Grammar", "NoStrayException",
        "NoPullAfterEnd", "NoStaleWork"]
G0 = dict(GLen=0, GPost=0, GRaise={0})     # the C01 part of the module is switched off
PROPS = ["SlotMono", "DisposedStops"]

CUSTOM0 = dict(Budget=1, Cfgs={"default"}, Ctxs={"top"}, Fams={"direct"}, TakeNs={1}, Oth={"one"}, Dsps={0})   # unused when PlanName names a plan


def _tlc_job(item):
    label, consts, timeout = item
    res = tlc.run("Subscribe", tlc.cfg_text(dict(consts, **G0), invariants=INVS + ["Export"], properties=PROPS),
                  workers=1, timeout=timeout, xmx="3g", allow_violation=False)
    m = re.search(r"initial states: (\d+) distinct", res.raw)
    res.raw = ""
    return label, res, int(m.group(1)) if m else -1


TRACES = [("default/take_until(loop,one)", dict(PlanName="custom", Budget=6, Cfgs={"default"}, Ctxs={"top"}, TakeNs={2}, Fams={"tu"}, Oth={"one"}, Dsps={0})),
          ("imm/take(loop)", dict(PlanName="custom", Budget=6, Cfgs={"imm"}, Ctxs={"top"}, TakeNs={2}, Fams={"direct"}, Oth={"one"}, Dsps={0}))]


def _trace_job(item):
    """C14 itself as an invariant of the design, one family at a time: the counterexample TLC prints is the
    missing cancellation path"""
    label, consts = item
    res = tlc.run("Subscribe", tlc.cfg_text(dict(consts, **G0), invariants=["Bounded"]), workers=1, timeout=300, xmx="1g",
                  allow_violation=True)
    m = re.findall(r"^State (\d+):", res.raw, re.M)
    return label, res.violated, int(m[-1]) if m else 0, res.distinct, res.generated


SIM = dict(PlanName="custom", Budget=10, Cfgs={"default", "imm", "vts", "src_imm"}, Ctxs={"top", "act"}, Fams={"rand"}, TakeNs={1, 2},
           Oth={"one", "sync"}, Dsps={0})


def _sim_job(item):
    """random pipelines of depth <= 3 grown by Build steps (Subscribe.tla), one per simulated behaviour; the interpreter is
    deterministic, so the terminal state of a behaviour is the scenario's whole allowed set"""
    label, num, seed = item
    res = tlc.run("Subscribe", tlc.cfg_text(dict(SIM, **G0), invariants=INVS + ["Export"]), workers=1, timeout=3000, xmx="3g",
                  simulate=f"num={num}", depth=3000, seed=seed, allow_violation=False)
    res.raw = ""
    return label, res, len(res.lines)


def _any_job(item):
    return {"export": _tlc_job, "trace": _trace_job, "sim": _sim_job}[item[0]](item[1:])


def run(tier: str) -> int:
    ck = core.Check("C14", tier)
    ck.rule = ("pipelines = early-terminating consumer over a synchronous never-ending producer (loop = from_iterable over an "
               "infinite iterator; resched = range/generate; repeat) directly, through element-wise operators, merge, concat, amb, "
               "combine_latest, with_latest_from, take_until, flat_map, switch_map, share, in both argument positions, consumer above "
               "or below the combinator, x scheduler configuration (default, subscribe(scheduler=CurrentThreadScheduler()/"
               "TrampolineScheduler()/ImmediateScheduler()), the same passed to the source factory) x subscription context (top "
               "level / inside a running trampoline action), enumerated and executed by TLC on Subscribe.tla; each is built on the "
               "real library in several API spellings and with falsy elements, under the model's work budget; non-trivial = a "
               "combinator or a non-default scheduler is involved")
    # one TLC run covers the whole tier: the blocks (shape families x configurations x contexts x budget) are Plan(tier) in the module
    plan = [("plan " + tier, dict(CUSTOM0, PlanName=tier))]
    timeout = 600 if tier == "quick" else 3000
    if tier == "quick":     # one JVM only: the machine is shared
        allres = [_tlc_job(plan[0] + (timeout,))]
    else:
        import multiprocessing as mp
        with mp.get_context("fork").Pool(3) as pool:
            allres = pool.map(_any_job, [("export", lbl, c, timeout) for lbl, c in plan] + [("sim", "simulate random depth-3 pipelines", 8000, ck.seed + 11)]
                              + [("trace", lbl, c) for lbl, c in TRACES], chunksize=1)
        plan = plan + [("sim", None)]
    results, traces = allres[:len(plan)], allres[len(plan):]
    lines = []
    for label, res, ninit in results:
        ck.add_tlc(res, "design+export " + label)
        # the model is deterministic per scenario and Terminal states are its only states without a successor:
        # one export line per initial state <=> every scenario reaches `returned` or `exhausted`
        if label.startswith("simulate"):
            ck.note("simulated_pipelines", len(core.group_allowed(res.lines)))
        elif ninit != len(res.lines):
            raise RuntimeError(f"{label}: {ninit} scenarios but {len(res.lines)} terminal states exported")
        lines += res.lines
    groups = core.group_allowed(lines)
    ck.exhaustive = True
    rnd = random.Random(ck.seed)
    jobs = []
    for scn, allowed in groups:
        # deterministic per scenario, except that cfg = cts carries the current and the repaired subscribe()
        if len(allowed) != (2 if scn["cfg"] == "cts" else 1):
            raise RuntimeError("%s: %d observations" % (cc.shape_name(scn["nd"]), len(allowed)))
        for vi, (form, profile) in enumerate(cc.variants(scn, full=(tier != "quick"), rnd=rnd)):
            jobs.append((scn, allowed, form, profile, vi == 0))
    # a real run takes well under a millisecond: a process pool only pays off for the thorough tier
    outs = [cc.job(j) for j in jobs] if len(jobs) < 20000 else core.parallel_map(cc.job, jobs, procs=8, chunk=2000)
    agree = unbounded_real = 0
    shapes_failing = {}
    fixed_seen = 0
    for (scn, allowed, form, profile, _c), (fail, drift, got) in zip(jobs, outs):
        if got is None:
            ck.count("skipped_after_confirmed_hangs")
            continue
        ck.impl += 1
        if fail:
            unbounded_real += 1
            shapes_failing.setdefault(f"{fail['shape']} [{fail['cfg']}/{fail['ctx']}]", fail["failure"])
            ck.fail(fail)
        if drift:
            ck.drift(drift)
        else:
            agree += 1
            if len(allowed) == 2 and not cc._same(got, next(m for m in allowed if not m["fix"]), form):
                fixed_seen += 1
    ck.note("scenarios", len(groups))
    ck.note("real_runs_agreeing_with_model_exactly", agree)
    ck.note("real_runs_not_returning", unbounded_real)
    cur = [next(m for m in g[1] if not m["fix"]) for g in groups]     # the design as it is today
    ck.note("model_verdicts", {"returns": sum(1 for m in cur if m["returned"]),
                               "starved": sum(1 for m in cur if m["cause"] == "starved" and m["applicable"]),
                               "no_cancel_path": sum(1 for m in cur if m["cause"] == "no_cancel_path" and m["applicable"]),
                               "outside_scope_cannot_terminate": sum(1 for m in cur if not m["applicable"])})
    ck.note("runs_matching_the_repaired_subscribe_only", fixed_seen)
    ck.note("shapes_not_returning", dict(sorted(shapes_failing.items())[:400]))
    ck.nontrivial = sum(1 for g in groups if g[0]["cfg"] != "default" or any(n["k"] in cc.COMBINATORS for n in g[0]["nd"]))
    # the missing cancellation path, as a TLC counterexample to C14-as-an-invariant (design level)
    tr = {}
    for label, v, tracelen, distinct, generated in traces:
        tr[label] = {"violated": v, "counterexample_length": tracelen, "states": distinct}
        ck.states += distinct
        ck.transitions += generated
    ck.note("design_counterexamples_to_Bounded", tr or "thorough tier only")
    for g in rnd.sample(groups, min(5, len(groups))):
        ck.sample({"shape": cc.shape_name(g[0]["nd"]), "cfg": g[0]["cfg"], "ctx": g[0]["ctx"], "model": g[1]})
    ck.assumptions = [
        "work = pulls from the never-ending sources (counting iterator; generate's condition; range's and repeat's internal "
        "iterators counted through a module-attribute hook); a pipeline that exhausts the budget is judged not to return",
        "exact pulled/emitted counts and the model's verdict are compared as model_drift only; the violation criterion is the "
        "property's: subscribe() returns normally within the budget, the sink sees N* C?, nothing is pulled afterwards",
        "element-wise layers inside flat_map/switch_map (map, zip_with_iterable) and the subject layers of share are collapsed in the model",
        "single thread; SIGALRM watchdog 5 s (confirmed with 20 s) for runs that neither return nor pull",
    ]
    return ck.finish()


def replay(rec) -> int:
    fail, drift, got = cc.judge(rec["scn"], rec.get("allowed") or [rec["model"]], rec["form"], rec["profile"])
    print(json.dumps({"observed": got, "drift": drift}, default=str)[:2000])
    print("replay: property violated again" if fail else "replay: subscribe() returned within the budget")
    return 1 if fail else 0


META = {
    'technique': 'TLC-executed small-step model of Observable.subscribe / trampolines / subscription slots (Subscribe.tla) over enumerated and simulated pipeline shapes x scheduler configurations x subscription contexts, each replayed on the real library under the same work budget',
    'level': 'Subscribe.tla interprets subscribe(), the auto-detach observer, single-assignment slots, the current-thread trampoline (singleton, explicit instance, immediate, virtual-time) and the subscribe/dispose wiring of the producers and combinators the property lists (plus zip, skip_until); TLC executes every enumerated shape x configuration x context (thorough: also random depth-3 pipelines by -simulate), checks slot/grammar/release invariants, that every scenario terminates, an independently stated reference verdict (RefOK), a scope predicate (can the pipeline terminate at all) and C14 itself for the rescheduling producers, and exports verdict and counts. Every scenario is built on the real library (several API spellings per node, plain and falsy elements, early-terminating operator or a user disposing inside on_next) with counting never-ending sources under the same budget: a run of an in-scope pipeline that does not return normally within the budget (confirmed with 8x) or delivers after its terminal is a violation of C14 (known findings: from_iterable starving the trampoline at the recorded positions; explicit scheduler instances); any disagreement with the model in verdict or exact counts is reported as model drift (none on the unchanged tree).',
    'note': 'TLC 1.8; codec props/c14_common.py (kind -> API spelling); counting hooks: iterator / generate condition / module attributes reactivex.observable.range.range and reactivex.operators._repeat.infinite; work budget equals the model constant; SIGALRM watchdog for runs that neither return nor pull',
    'ref': 'DESIGN.md 6 C14, App. A.5; notes/c14.md',
}
