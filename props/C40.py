"""C40 - resources and finally-actions are released exactly once; taps are transparent.
Spec: OpsResource.tla (scenario = operator x inner timeline x fault position x 1..2 subscriptions
x dispose point per subscription, incl. both tie orders at the terminal's instant).
Binding A: every exported scenario is run on the real using / finally_action / do_finally /
do_action / do(observer) / do_after_next / do_on_subscribe / do_on_dispose / do_on_terminate /
do_after_terminate with hot, cold and synchronous inner sources under several index->time maps
and three realisations of the dispose call."""
from __future__ import annotations

import json
import random
from concurrent.futures import ThreadPoolExecutor

from harness import core, tlc
from props import res_common as rc

GROUPS = [["using", "do_on_subscribe", "do_on_dispose", "do_action_0"],
          ["finally_action", "do_finally", "do_on_terminate", "do_after_terminate"],
          ["do_action", "do_after_next", "do_action_ec"],
          ["do_observer", "do_action_n"]]
QUICK_GROUPS = [["using", "do_on_subscribe", "do_on_dispose", "do_observer", "do_action_n"],
                ["finally_action", "do_finally", "do_on_terminate", "do_after_terminate", "do_action", "do_after_next"]]


JVM = {"JAVA_TOOL_OPTIONS": "-XX:TieredStopAtLevel=1 -XX:ParallelGCThreads=2"}   # short runs on a shared box: C1 only, few GC threads


def export(ck, tasks, timeout=1800):
    """tasks: (label, constants, operator group, simulate, seed) - one TLC invocation each, four at a time.
    Returns the export lines per label."""
    def one(t):
        label, consts, g, simulate, seed = t
        c = dict(consts)
        c["Ops"] = set(g)
        return tlc.run("OpsResource", tlc.cfg_text(c, invariants=rc.C40_INVS + ["Export"]), workers=1, timeout=timeout,
                       xmx="2g", allow_violation=False, simulate=simulate, seed=seed, depth=40 if simulate else None, env_extra=JVM)
    lines = {}
    with ThreadPoolExecutor(4) as ex:
        for t, res in zip(tasks, ex.map(one, tasks)):
            ck.add_tlc(res, f"{t[0]} {','.join(t[2])}")
            lines.setdefault(t[0], []).extend(res.lines)
    return lines


# ---- hostile sources: the model's invariant FinallyExactlyOnce applied to runs the well-behaved sources of the model cannot
# produce: (a) the source delivers its terminal notification inside subscribe() and THEN its subscribe function raises;
# (b) the source's subscription raises from dispose() (at completion, at an error, at the subscriber's dispose()).
# Whatever else happens (the exception may surface to the caller), the finally action has run exactly once when the
# subscription is over.  using() is NOT part of it (see DESIGN 11.8: a raising upstream dispose() keeps using() from
# disposing the resource - disposal faults are outside C40's quantifier, so it is noted, not judged).
HOSTILE_OPS = ["finally_action", "finally_action_fluent", "do_finally", "do_finally_direct"]


class _Late(Exception):
    pass


def hostile_run(opname, mode, end, nvals):
    from reactivex import Observable
    from reactivex import operators as ops
    from reactivex.disposable import Disposable
    from reactivex.operators import _do
    from reactivex.subject import Subject
    fin, out = [], []
    subj = Subject()

    def sub(o, scheduler=None):
        if mode == "after_term":
            for v in range(nvals):
                o.on_next(v)
            (o.on_completed() if end == "C" else o.on_error(rc.SrcErr("src")))
            raise _Late("subscribe function raised after the terminal")
        inner = subj.subscribe(o)

        def d():
            inner.dispose()
            raise _Late("upstream dispose raised")
        return Disposable(d)
    xs = Observable(sub)
    act = lambda: fin.append(len(out))
    ys = {"finally_action": lambda: xs.pipe(ops.finally_action(act)), "finally_action_fluent": lambda: xs.finally_action(act),
          "do_finally": lambda: xs.pipe(_do.do_finally(act)), "do_finally_direct": lambda: _do.do_finally(act)(xs)}[opname]()
    escaped = []
    try:
        h = ys.subscribe(lambda v: out.append(["N", v]), lambda e: out.append(["E", type(e).__name__]), lambda: out.append(["C"]))
        if mode == "disp_raises":
            for v in range(nvals):
                subj.on_next(v)
            if end == "C":
                subj.on_completed()
            elif end == "E":
                subj.on_error(rc.SrcErr("src"))
            else:
                h.dispose()
    except _Late as ex:
        escaped.append(str(ex))
    return {"fin": fin, "out": out, "escaped": escaped}


def hostile_cases():
    return [(o, m, e, n) for o in HOSTILE_OPS for m, ends in (("after_term", "CE"), ("disp_raises", "CED")) for e in ends for n in (0, 1, 2)]


def hostile_judge(case):
    o, m, e, n = case
    got = hostile_run(o, m, e, n)
    if len(got["fin"]) != 1:
        return {"engine": "hostile", "op": o, "mode": m, "end": e, "n": n, "reason_kind": "finally_count",
                "reason": f"finally action ran {len(got['fin'])} times (FinallyExactlyOnce)", "observed": got}
    return None


def run(tier: str) -> int:
    ck = core.Check("C40", tier)
    k = 2
    if tier == "quick":
        consts = dict(NVals=k, MaxLen=2, Terms={"C", "E", "U"}, MaxSubs=2, Disposes=True, Faults=True, Dsp2="few", Canon=True, SinkRaises=True)
        lines = export(ck, [("exhaustive", consts, g, None, None) for g in QUICK_GROUPS])["exhaustive"]
    else:
        # two subscriptions with every pair of dispose points on the canonical timelines; every timeline over two
        # tokens with one subscription
        consts = dict(NVals=k, MaxLen=3, Terms={"C", "E", "U"}, MaxSubs=2, Disposes=True, Faults=True, Dsp2="all", Canon=True, SinkRaises=True)
        one_sub = dict(consts, MaxSubs=1, Canon=False)
        # longer timelines, three value tokens: sampled behaviours.  A simulated behaviour shows ONE resolution of the
        # model's only nondeterminism (a failed factory's error racing a dispose at the subscription instant):
        # those scenarios are judged in the exhaustive part only
        deep = dict(consts, NVals=3, MaxLen=4, Canon=False)
        got = export(ck, [("exhaustive canonical x 2 subscriptions", consts, g, None, None) for g in GROUPS]
                     + [("exhaustive all timelines x 1 subscription", one_sub, g, None, None) for g in GROUPS]
                     + [("simulate", deep, g, "num=5000", ck.seed + 3) for g in GROUPS])
        sim = got.pop("simulate")
        lines = [ln for part in got.values() for ln in part]
        amb = lambda scn: scn["flt"]["w"] in ("resfac", "obsfac") and 0 in scn["dsp"]
        ck.note("simulated_scenarios_skipped_as_ambiguous", sum(1 for ln in sim if amb(ln["scn"])))
        lines += [ln for ln in sim if not amb(ln["scn"])]
        k = 3
    ck.exhaustive = True
    groups = core.group_allowed(lines)
    ck.rule = ("operator (10, do_action also with only some of its callbacks given) x inner timeline (0..MaxLen elements over 2 tokens; completes, errors or never ends) x fault position "
               "(resource factory raises / returns None, observable factory raises, k-th per-element callback raises, terminal "
               "callbacks raise, on_subscribe raises) x 1..2 subscriptions of the same observable x a dispose point per subscription "
               "(after every event, both tie orders, never), enumerated by TLC on OpsResource.tla; each run on the real operators "
               "with hot/cold/synchronous sources and a scheduler-dependent cold source on TestScheduler and on HistoricalScheduler (datetime clock), "
               "piped and fluent call forms, 4 index->time maps, dispose realised as a queued action at the tie instant, "
               "strictly between, or from inside the subscriber's callback; plain and falsy values; "
               "non-trivial = the scenario has a dispose point, a fault or two subscriptions")
    jobs = [(gi, scn, allowed, tier, k) for gi, (scn, allowed) in enumerate(groups)]
    total = 0
    rc.preload()
    for n, fails in core.parallel_map(rc.job40, jobs, procs=8, chunk=100):
        total += n
        for f in fails:
            rc.report(ck, groups, f, rc.judge40)
    hc = hostile_cases()
    for c in hc:
        f = hostile_judge(c)
        if f:
            ck.fail(f)
    total += len(hc)
    ck.note("hostile_source_runs", {"runs": len(hc), "operators": HOSTILE_OPS,
                                    "what": "terminal delivered inside subscribe() and then the subscribe function raises; upstream dispose() raises "
                                            "at completion / error / dispose: FinallyExactlyOnce of OpsResource.tla applied to the recorded log"})
    ck.impl = total
    ck.nontrivial = sum(1 for scn, _ in groups if scn["ns"] == 2 or scn["flt"]["w"] != "none" or any(d != rc.NEVER for d in scn["dsp"]))
    ck.note("scenarios", len(groups))
    ck.note("scenarios_with_tie_choice", sum(1 for g in groups if len(g[1]) > 1))
    ck.note("operators", sorted({g[0]["op"] for g in groups}))
    ck.note("model_invariants", rc.C40_INVS)
    rnd = random.Random(ck.seed)
    for g in rnd.sample(groups, min(5, len(groups))):
        ck.sample({"scn": g[0], "allowed": g[1]})
    ck.assumptions = [
        "TestScheduler runs actions in (due, schedule order) (checked separately: C28)",
        "asserted projection: the whole per-subscription event log (resource factory / observable factory calls, sink notifications, "
        "tap callbacks, finally action, resource disposal) in order, each with its virtual time; the inner source's subscription "
        "interval; that the inner source is subscribed with the subscriber's scheduler; resource dispose() call count",
        "not compared: for using(), the order between the resource's disposal and the delivery of the terminal at that instant; "
        "which tap callbacks still run after a tap callback raised (source that keeps emitting); whether an exception raised by "
        "do_after_terminate's action (after the terminal was delivered) surfaces anywhere",
        "a failed factory's error is emitted by a scheduled action: a dispose at the subscription instant may overtake it (both allowed)",
    ]
    return ck.finish()


def replay(rec) -> int:
    if rec.get("engine") == "hostile":
        f = hostile_judge((rec["op"], rec["mode"], rec["end"], rec["n"]))
        print(f["reason"] if f else "replay: finally action ran exactly once")
        return 1 if f else 0
    return rc.replay40(rec)


META = {
    'technique': 'TLC-enumerated scenarios of OpsResource.tla (transducer + reference, exactly-once invariants) replayed on the real using/finally/do_* operators on TestScheduler',
    'level': 'OpsResource.tla states using, finally_action, do_finally, do_action, do(observer) and the five do_* variants twice (event-by-event transducer and a reference computed from the scenario) and TLC checks on every enumerated scenario that they agree and that the resource is disposed exactly once at the earlier of termination and disposal (also when the observable factory raises), the finally action runs exactly once after the terminal was delivered or at disposal, and taps forward the source unchanged unless a callback raises. Every scenario (inner timeline x fault position x 1-2 subscriptions x dispose point incl. both tie orders at the terminal) is then run on the real operators with hot, cold and synchronous sources, several time maps and dispose realisations, and the ordered, timed event log per subscription must be one the model allows. Exhaustive for the stated bounds. In addition the invariant FinallyExactlyOnce is applied to runs over hostile sources (terminal delivered inside subscribe() followed by a raise; an upstream dispose() that raises).',
    'note': 'TLC 1.8; codec and recorder in props/res_common.py; TestScheduler (verified by C28)',
    'ref': 'DESIGN.md 6 C40, App. C',
}
