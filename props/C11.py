"""C11 - merging keeps each inner's order and completes when all complete (OpsMerge.tla, Binding A)."""
from harness import core
from props import expand_common as xc
from props import merge_common as mc

ALL3 = {"C", "E", "U"}

# one TLC run per line: (label, constants that differ from merge_common.BASE)
# quick tier: the fixed parameter slices q11_* of OpsMerge.tla (SliceOf), two TLC processes
QUICK = [
    ("slices q11_merge", dict(Slices={"q11_merge"})),
    ("slices q11_sync q11_fb q11_error q11_mapped q11_hot q11_srcs q11_dispose q11_take",
     dict(Slices={"q11_sync", "q11_fb", "q11_error", "q11_mapped", "q11_hot", "q11_srcs", "q11_dispose", "q11_take"})),
]

THOROUGH = [
    ("merge_all, every token sequence", dict(Ops={"merge_all"}, Tabs={"plain", "error"}, Flavours={"cold", "sync"}, RG=False)),
    ("merge_all short/never", dict(Ops={"merge_all"}, Tabs={"short", "never"}, Flavours={"cold", "sync"})),
    ("merge_all hot", dict(Ops={"merge_all"}, Tabs={"pair", "error"}, Flavours={"hot"})),
    ("merge(max_concurrent) cold", dict(Ops={"merge_mc"}, MCs={1, 2, 3}, Tabs={"plain", "short", "error", "never"}, Flavours={"cold"})),
    ("merge(max_concurrent) sync", dict(Ops={"merge_mc"}, MCs={1, 2, 3}, Tabs={"plain", "short", "error", "never"}, Flavours={"sync"})),
    ("merge(max_concurrent) queue order", dict(Ops={"merge_mc"}, MCs={1, 2}, Tabs={"plain", "short"}, Flavours={"cold"}, RG=False)),
    ("merge(max_concurrent) hot", dict(Ops={"merge_mc"}, MCs={1, 2}, Tabs={"pair", "short"}, Flavours={"hot"})),
    ("long table, 4 inners", dict(Ops={"merge_all", "merge_mc"}, MCs={2}, Tabs={"long"}, Flavours={"cold", "sync"}, MaxOuter=3,
                                 OTimes={1, 2, 4}, OTermTimes={2, 4, 9})),
    ("mapped + every mapper table", dict(Ops={"flat_map", "flat_map_indexed", "concat_map"}, Tabs={"error"},
                                         Flavours={"cold", "sync"}, Faults=True, FAll=True, MaxOuter=2)),
    ("mapped + faults", dict(Ops={"flat_map", "flat_map_indexed", "concat_map"}, Tabs={"plain", "never"}, Flavours={"cold", "sync"}, Faults=True)),
    ("merge(sources...)", dict(Ops={"merge_srcs"}, Tabs={"plain", "short", "error", "never", "long"}, Flavours={"cold", "sync", "hot"},
                              RG=False, MaxOuter=3)),
    ("dispose instants", dict(Ops={"merge_all", "merge_mc", "concat_map"}, MCs={2}, Tabs={"plain"}, Flavours={"cold", "sync"},
                              DspTicks={0, 1, 2, 3, 4, 5}, OTermTimes={2, 5})),
    ("outer events at the subscription instant", dict(Ops={"merge_all", "merge_mc", "flat_map"}, MCs={1, 2}, Tabs={"short", "error"},
                                                      Flavours={"cold", "sync"}, OTimes={0, 1, 2}, OTermTimes={0, 1, 3})),
    ("cut by take(k) in the middle of a notification",
     dict(Ops={"merge_all", "merge_mc", "concat_map"}, MCs={1, 2}, Tabs={"short"}, Flavours={"sync", "cold"},
          RG=False, OTimes={0, 1, 2}, OTermTimes={2, 5}, OTerms={"C", "U"}, Takes={1, 2})),
    ("mapper returning a list / constant mapper", dict(Ops={"flat_map", "flat_map_indexed", "concat_map"}, Tabs={"zero"}, Flavours={"cold"},
                                                       Faults=True)),
    ("generated tables", dict(Ops={"merge_all", "merge_mc"}, MCs={1}, Tabs={"gen"}, Flavours={"cold", "sync"}, MaxOuter=2,
                              OTimes={1, 2}, OTermTimes={1, 2, 4}, GenN=2, GenLen=2, GenTimes={0, 1})),
]
SIM = [
    ("simulate: generated tables, 3 inners", dict(Ops={"merge_all", "merge_mc", "flat_map", "concat_map", "flat_map_indexed"}, MCs={1, 2, 3},
                                                  Tabs={"gen"}, Flavours={"cold", "sync", "hot"}, MaxOuter=4, OTimes={1, 2, 3, 4},
                                                  OTermTimes={1, 2, 3, 4, 6, 8}, GenN=3, GenLen=3, GenTimes={0, 1, 2, 3}, RG=False,
                                                  Faults=True, DspTicks={1, 3, 5}, Takes={2, 3})),
]


def run(tier):
    ck = core.Check("C11", tier)
    runs = QUICK if tier == "quick" else THOROUGH
    lines = mc.export_runs(ck, runs, par=4, named=(tier != "quick"), timeout=(600 if tier == "quick" else 3000))
    groups = core.group_allowed(lines)
    ck.exhaustive = True
    ck.note("scenarios_exhaustive", len(groups))
    ck.note("scenarios_with_tie_choice", sum(1 for g in groups if len(g[1]) > 1))
    if tier != "quick":
        # beyond the exhaustive bounds: TLC -simulate. A simulated behaviour shows one resolution of the ties only, so
        # of those scenarios only the ones without any same-instant coincidence (deterministic) are compared.
        sim = mc.export_runs(ck, [(SIM[0][0], SIM[0][1], (60000, 40, ck.seed + 11))], par=1, named=True, timeout=2400)
        det = mc.deterministic_only(sim)
        ck.note("simulated_scenarios", len(sim))
        ck.note("simulated_scenarios_tie_free_compared", len(det))
        groups += core.group_allowed(det)
    profiles = ("plain", "falsy", "str")
    mc.replay_groups(ck, groups, profiles, light=(tier != "quick"))
    mc.binding_selftest(ck, groups)
    ck.nontrivial = sum(1 for g in groups if mc.nontrivial(*g))
    # growth beyond the listed operators: expand (Expand.tla); a mismatch there is reported as model drift, never as a violation of C11
    xc.run_growth(ck, tier)
    ck.rule = ("outer timelines (<= 3-4 inner arrivals at chosen ticks, ending in completion, error or nothing) x tables of inner "
               "timelines (shape classes: overlapping, finished before the next arrives, erroring, never terminating; thorough: "
               "every table within bounds) x inner flavour (cold, emitting synchronously at subscription, hot) x max_concurrent x "
               "mapper tables with a raising entry x dispose instants, enumerated by TLC on OpsMerge.tla with all same-instant "
               "orders between lanes; each replayed with a hot and a cold (or synchronous) outer source and plain/falsy values; "
               "non-trivial = at least two inner subscriptions that overlap or follow one another")
    ck.note("operators", sorted({g[0]["op"] for g in groups}))
    ck.note("model_invariants", mc.MODEL_INVS + mc.MODEL_PROPS)
    ck.note("not_compared", ["order in which inner subscriptions of the same instant are opened (only their intervals per inner source)"])
    step = max(1, len(groups) // 5)
    for g in groups[::step][:5]:
        ck.sample({"scn": g[0], "allowed": g[1][:3]})
    ck.assumptions = [
        "TestScheduler/VirtualTimeScheduler run actions in due order (checked separately: C28)",
        "events of different lanes that are due at the same instant may be processed in any order (DESIGN 3.2): the real run must "
        "equal one of the model's outcomes",
        "the subscriber disposes strictly between two instants (half a tick after the chosen one)",
        "the closed-form reference (RefOut/RefSubs) covers cold and synchronously-emitting inners; for hot inners the model is the "
        "transducer with the state invariants only",
        "simulated (non-exhaustive) scenarios are compared only when no two lanes coincide",
    ]
    return ck.finish()


replay = mc.generic_replay

META = {
    'technique': 'TLC-enumerated outer/inner timelines of OpsMerge.tla (lanes with free same-instant order; transducer checked against a closed-form statement of the property in the model) replayed on the real merge operators on TestScheduler',
    'level': 'OpsMerge.tla states merge_all / merge(max_concurrent) / merge(sources...) / flat_map / flat_map_indexed / concat_map twice: as a handler-level transducer over an active list, a queue and outerDone, and as a closed predicate on (scenario, output, subscription log) - per-inner order at original instants, nothing missing before the end, first error terminates, completion exactly when the outer and every inner completed, subscriptions opened in arrival order when a slot is free and closed at the inner terminal or at the end. TLC checks the first against the second plus grammar / released / concurrency / no-idle-slot invariants in every state of every enumerated scenario and exports every scenario with all outcomes the tie policy allows; each scenario is run on the real operator with cold, hot and synchronously-emitting test sources and must equal one allowed outcome on output stream with times, terminal, per-inner subscription intervals and outer subscription interval. Exhaustive for the stated bounds, simulated beyond. Growth (reported as model drift only, never as a violation of C11): Expand.tla - the operator expand as work queue + active count on lanes, checked against a closed statement over the expansion tree and replayed the same way.',
    'note': 'TLC; codec of props/merge_common.py (incl. a cold test source that emits its time-0 messages inside subscribe); TestScheduler (verified by C28); single thread',
    'ref': 'DESIGN.md 6 C11, App. A.7, App. C',
}
