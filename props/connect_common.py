"""Binding A for Connectable.tla: perform an exported history of subscribe / unsubscribe / connect /
disconnect on the real multicasting operators (TestScheduler, hot or cold logged sources, recording
observers) and compare the source-subscription intervals and every subscriber's timed stream with
the model's observation.  Only the codec lives here: instants <-> virtual times, value tokens <->
Python values, operator variant <-> the ways the library offers to build it ("forms"), and the two
same-instant orders (source events before / after the commands of an instant)."""
from __future__ import annotations

import sys
from typing import Any, Dict, List, Optional, Tuple

NEVER = 99
NONE_P = 99
INITV = 50
NEVER_T = sys.maxsize
YIELDS = 7   # same-instant hops a command waits for when the replay subject delivers through TestScheduler


def pool_procs(tier: str) -> int:
    """Replays cost ~0.3 ms each.  On an oversubscribed box a fork pool was measured 3x slower than one
    process (30k runs: 7.7 s serial, 22 s with 8 processes at load 50 on 16 cores), so the pool is only used
    for the thorough tier and only when the machine is not already saturated."""
    import os
    if tier == "quick":
        return 1
    try:
        return 1 if os.getloadavg()[0] > 1.5 * (os.cpu_count() or 1) else 8
    except OSError:
        return 8


class SrcErr(Exception):
    """a source's on_error value"""


def seq(x) -> list:
    """TLC functions over 1..n arrive as lists, or as objects keyed "1".."n"."""
    if isinstance(x, dict):
        return [x[str(i)] for i in range(1, len(x) + 1)]
    return list(x)


# ---- value codec ------------------------------------------------------------------------------
class Codec:
    def __init__(self, napps: int, profile: str, salt: int = 0):
        self.profile = profile
        self.err = [SrcErr(f"src{a}") for a in range(napps + 1)]
        if profile == "plain":
            self.init: Any = "INIT" if salt % 2 else -1
            self.vals = [[(f"a{a}v{v}" if salt % 2 else 100 * a + v) for v in range(8)] for a in range(napps + 1)]
        else:  # falsy: every element and the initial value are falsy objects, told apart by identity/type
            self.init = None
            pool = lambda: [0, "", (), [], {}, 0.0, False, b""]
            self.vals = []
            for a in range(napps + 1):
                p = pool()
                self.vals.append([p[(v + a + salt) % len(p)] for v in range(8)])

    def val(self, a: int, v: int) -> Any:
        return self.init if v == INITV else self.vals[a][v]

    def tok(self, a: int, x: Any) -> Any:
        if x is self.init:
            return INITV
        for v, y in enumerate(self.vals[a]):
            if y is x:
                return v
        for v, y in enumerate(self.vals[a]):
            if type(y) is type(x) and y == x:
                return v
        for b, row in enumerate(self.vals):      # a value of another application: name it
            for v, y in enumerate(row):
                if y is x or (type(y) is type(x) and y == x):
                    return f"foreign:a{b}v{v}"
        return f"unknown:{x!r}"


# ---- operator variant -> real construction ("forms") -----------------------------------------------
def forms_for(kind: Dict[str, Any], tie: str, napps: int, once: bool = False) -> List[str]:
    """Names of the constructions of this variant that apply.  '+ts' = the replay subject delivers on
    the TestScheduler (same-instant hops; needs the 'src' order, see notes), otherwise it uses its
    default CurrentThreadScheduler and delivers synchronously."""
    sk, wr, mp = kind["sk"], kind["wr"], kind["mp"]
    out: List[str] = []
    if sk == "replay":
        scheds = []
        if kind["w"] == NONE_P:
            scheds.append("")
        if tie == "src" and not once:      # a self-unsubscribing subscriber reacts synchronously in the model
            scheds.append("+ts")
    else:
        scheds = [""]
    for s in scheds:
        if mp != "none":
            out.append("op" + s)                 # publish(mapper) / publish_value(v, mapper) / replay(mapper, ..)
            out.append("factory" + s)            # multicast(subject_factory=..., mapper=...)
            continue
        out.append("op" + s)                     # publish() / publish_value(v) / replay(..)
        if napps == 1:
            out.append("multicast" + s)          # multicast(subject=<the subject>)
            if wr != "ref_count":
                out.append("class" + s)          # ConnectableObservable(source, subject)
        if wr == "ref_count" and sk == "plain":
            out.append("share")                  # share() = publish + ref_count in one operator
    return out


def _ops():
    from reactivex import operators as ops
    return ops


def _mapper(mp: str):
    from reactivex import operators as ops
    if mp == "id":
        return lambda x: x
    if mp == "dup":
        return lambda x: x.pipe(ops.merge(x))
    if mp == "take1":
        return lambda x: x.pipe(ops.take(1))
    raise ValueError(mp)


def make_ops(kind: Dict[str, Any], form: str, ts, cod: Codec):
    """-> (connect_op, wrap_op): connect_op(source) gives the connectable (or, for mapper forms and
    share, the final observable); wrap_op is ops.ref_count() or None.  auto_connect is a method and is
    applied per application by the caller."""
    from reactivex import ConnectableObservable
    from reactivex import operators as ops
    from reactivex.subject import BehaviorSubject, ReplaySubject, Subject
    sk, wr, mp = kind["sk"], kind["wr"], kind["mp"]
    base = form.split("+")[0]
    sch = ts if form.endswith("+ts") else None
    b = None if kind["b"] == NONE_P else kind["b"]
    w = None if kind["w"] == NONE_P else float(kind["w"]) * cod.stride
    init = cod.init

    def subject():
        if sk == "plain":
            return Subject()
        if sk == "behavior":
            return BehaviorSubject(init)
        return ReplaySubject(b, w, sch)

    if mp != "none":
        m = _mapper(mp)
        if base == "factory":
            return ops.multicast(subject_factory=lambda _s=None: subject(), mapper=m), None
        if sk == "plain":
            return ops.publish(m), None
        if sk == "behavior":
            return ops.publish_value(init, m), None
        return ops.replay(b, w, mapper=m, scheduler=sch), None
    if base == "share":
        return ops.share(), None
    wrap = ops.ref_count() if wr == "ref_count" else None
    if base == "op":
        if sk == "plain":
            return ops.publish(), wrap
        if sk == "behavior":
            return ops.publish_value(init), wrap
        return ops.replay(b, w, scheduler=sch), wrap
    if base == "multicast":
        return ops.multicast(subject=subject()), wrap
    if base == "class":
        return (lambda xs: ConnectableObservable(xs, subject())), wrap
    raise ValueError(form)


# ---- performing one scenario ---------------------------------------------------------------------------
def perform(scn: Dict[str, Any], *, form: str, profile: str = "plain", salt: int = 0, stride: int = 10,
            shared: bool = True, sub_sched: bool = False, clock: str = "test") -> Dict[str, Any]:
    """Runs the history on the real library.  shared=True: ONE operator object for all applications
    (the C44 situation; irrelevant for one application); False: fresh operator objects per source.
    clock: "test" = TestScheduler (float ticks), "hist" = HistoricalScheduler (datetime clock, the logged
    cold/hot sources of reactivex.testing built directly on it)."""
    from datetime import datetime
    from reactivex.scheduler import HistoricalScheduler, VirtualTimeScheduler
    from reactivex.scheduler.scheduler import UTC_ZERO
    from reactivex.testing import ReactiveTest, TestScheduler
    from reactivex.testing.coldobservable import ColdObservable
    from reactivex.testing.hotobservable import HotObservable
    kind, tie = scn["kind"], scn["tie"]
    srcs, hots, hist = seq(scn["src"]), seq(scn["hot"]), seq(scn["hist"])
    napps = len(srcs)
    cod = Codec(napps, profile, salt)
    cod.stride = stride
    ts = TestScheduler() if clock == "test" else HistoricalScheduler()
    V = lambda i: 200 + stride * i

    def secs(x):   # a clock reading / recorded subscription time as float seconds
        return (x - UTC_ZERO).total_seconds() if isinstance(x, datetime) else x

    def messages(a: int, hot: bool):
        ms = []
        for e in seq(srcs[a - 1]):
            t = V(e["t"]) if hot else stride * e["t"]
            if e["k"] == "N":
                ms.append(ReactiveTest.on_next(t, cod.val(a, e["v"])))
            elif e["k"] == "C":
                ms.append(ReactiveTest.on_completed(t))
            else:
                ms.append(ReactiveTest.on_error(t, cod.err[a]))
        return ms

    xs: Dict[int, Any] = {}

    class SyncCold(ColdObservable):
        """A logged cold observable whose offset-0 messages are delivered synchronously INSIDE subscribe (before it
        returns its disposable), like reactivex.create / of / from_iterable on the immediate path; the later messages
        are scheduled relative to the subscription like ColdObservable's."""

        def _subscribe_core(self, observer=None, scheduler=None):
            from reactivex.disposable import CompositeDisposable, Disposable
            from reactivex.testing.subscription import Subscription
            self.subscriptions.append(Subscription(self.scheduler.clock))
            index = len(self.subscriptions) - 1
            disp = CompositeDisposable()
            for message in self.messages:
                if message.time == 0:
                    message.value.accept(observer)
                else:
                    disp.add(self.scheduler.schedule_relative(
                        message.time, lambda _s, _st=None, n=message.value: n.accept(observer)))

            def dispose() -> None:
                start = self.subscriptions[index].subscribe
                end = self.scheduler.to_seconds(self.scheduler.now)
                self.subscriptions[index] = Subscription(start, int(end))
                disp.dispose()
            return Disposable(dispose)

    def make_sources():
        for a in range(1, napps + 1):
            h = bool(hots[a - 1])
            ms = messages(a, h)
            cold = SyncCold if any(m.time == 0 for m in ms) else ColdObservable
            xs[a] = HotObservable(ts, ms) if h else cold(ts, ms)

    cx: Dict[int, Any] = {}      # what connect() is called on
    ys: Dict[int, Any] = {}      # what subscribers subscribe to
    problems: List[str] = []

    def create(_s=None, _st=None):
        ops_shared = make_ops(kind, form, ts, cod) if shared else None
        for a in range(1, napps + 1):
            cop, wop = ops_shared if shared else make_ops(kind, form, ts, cod)
            c = xs[a].pipe(cop)
            cx[a] = c
            y = c
            if wop is not None:
                y = c.pipe(wop)
            if kind["wr"] == "auto":
                y = c.auto_connect(kind["n"])
            ys[a] = y

    out: Dict[int, List[Tuple[Any, str, Any]]] = {}
    handles: Dict[int, Any] = {}
    conns: Dict[Tuple[int, int], Any] = {}
    outer: List[Tuple[int, int]] = []       # connect commands in progress
    inner_handles: List[Any] = []           # what re-entrant connect() calls returned during the current connect command
    nested: Dict[int, List[Any]] = {}

    def do(cmd):
        c, a, k, e = cmd["c"], cmd["a"], cmd["k"], cmd["e"]
        if c == "sub":
            rec = out.setdefault(k, [])
            kw = {"scheduler": ts} if sub_sched else {}
            mode = cmd.get("m", "all")
            target = ys[a].pipe(_ops().take(1)) if mode == "once" else ys[a]

            def recorder(r):
                return dict(on_next=lambda v: r.append((secs(ts.clock), "N", v)),
                            on_error=lambda x: r.append((secs(ts.clock), "E", x)),
                            on_completed=lambda: r.append((secs(ts.clock), "C", None)))
            cb = recorder(rec)
            if mode == "spawn":
                # on its first element the subscriber subscribes its child (id k+1) to the same observable,
                # from inside the delivery - possibly while it is itself still being subscribed
                child, plain_next = k + 1, cb["on_next"]

                def spawning_next(v):
                    plain_next(v)
                    if child not in handles:
                        handles[child] = None        # re-entrancy guard: exactly one child
                        handles[child] = ys[a].subscribe(**recorder(out.setdefault(child, [])), **kw)
                cb["on_next"] = spawning_next
            if mode == "reconnect":
                # on its first element the subscriber calls connect() on the connectable, from inside the delivery -
                # possibly while the outer connect() is still subscribing a source that emits synchronously
                plain_next2, fired = cb["on_next"], []

                def reconnecting_next(v):
                    plain_next2(v)
                    if not fired:
                        fired.append(True)
                        h = cx[a].connect()
                        nested.setdefault(a, []).append((len(outer), h))
                        if outer and outer[-1][0] == a:
                            inner_handles.append(h)
                cb["on_next"] = reconnecting_next
            handles[k] = target.subscribe(**cb, **kw)
        elif c == "unsub":
            if handles.get(k) is not None:
                handles[k].dispose()
        elif c == "connect":
            outer.append((a, e))
            del inner_handles[:]
            try:
                h = cx[a].connect()
            finally:
                outer.pop()
            # NOT asserted: the handle a re-entrant connect() returns while the outer call is still subscribing the
            # source (the unchanged library returns the not-yet-assigned `self.subscription`: None or the previous
            # connection's handle) - the statement of C24 is about source subscriptions; reported in notes/connect.md
            if (a, e) in conns and conns[(a, e)] is not h:
                problems.append("connect() while connected returned a different connection")
            conns[(a, e)] = h
        elif c == "disconnect":
            conns[(a, e)].dispose()
        else:
            raise ValueError(c)

    hops = form.endswith("+ts")
    if tie == "cmd":
        # commands are queued first: at an equal instant they precede every source event
        ts.schedule_absolute(V(0), create)
        for cmd in hist:
            ts.schedule_absolute(V(cmd["t"]), lambda _s, _st, cmd=cmd: do(cmd))
        make_sources()
    else:
        # sources first; command j+1 is queued when command j has run, so at an equal instant it follows
        # the events of that instant (and, with '+ts', waits for the subject's delivery hops)
        make_sources()

        def chain(j, left):
            def act(_s=None, _st=None):
                if left > 0:
                    ts.schedule(chain(j, left - 1))
                    return
                do(hist[j])
                if j + 1 < len(hist):
                    ts.schedule_absolute(V(hist[j + 1]["t"]), chain(j + 1, YIELDS if hops else 0))
            return act

        def create_then_chain(_s=None, _st=None):
            create()
            if hist:
                ts.schedule_absolute(V(hist[0]["t"]), chain(0, YIELDS if hops else 0))
        ts.schedule_absolute(V(0), create_then_chain)
    escaped = None
    try:
        VirtualTimeScheduler.start(ts)
    except Exception as ex:   # nothing may escape into the scheduler
        escaped = ex

    def inst(t):
        if t == NEVER_T:
            return NEVER
        x = (t - 200) / stride
        return int(x) if x == int(x) else x

    subs = [[[inst(secs(s.subscribe)), inst(secs(s.unsubscribe))] for s in xs[a].subscriptions] for a in range(1, napps + 1)]
    app_of = {cmd["k"]: cmd["a"] for cmd in hist if cmd["c"] == "sub"}
    app_of.update({cmd["k"] + 1: cmd["a"] for cmd in hist if cmd["c"] == "sub" and cmd.get("m") == "spawn"})
    outs = {}
    for k, rec in out.items():
        a = app_of[k]
        row = []
        for (t, kd, v) in rec:
            if kd == "N":
                row.append([inst(t), "N", cod.tok(a, v)])
            elif kd == "E":
                row.append([inst(t), "E", 0 if v is cod.err[a] else f"other:{type(v).__name__}"])
            else:
                row.append([inst(t), "C", 0])
        outs[k] = row
    return {"subs": subs, "out": outs, "escaped": repr(escaped) if escaped is not None else None, "problems": problems}


# ---- comparison on the asserted projection ---------------------------------------------------------------
def expected(scn, obs):
    """The model's observation in the replayer's shape; zero-length source subscriptions are outside
    the asserted projection (dropped on both sides)."""
    subs = [[[x["s"], x["e"]] for x in seq(row) if x["s"] != x["e"]] for row in seq(obs["subs"])]
    outs = {}
    for k, row in enumerate(seq(obs["out"]), start=1):
        if any(c["c"] == "sub" and (c["k"] == k or (c.get("m") == "spawn" and c["k"] + 1 == k)) for c in seq(scn["hist"])):
            outs[k] = [[x["t"], x["k"], x["v"] if x["k"] == "N" else 0] for x in seq(row)]
    return subs, outs


def compare(scn, obs, got) -> Optional[str]:
    if got["escaped"]:
        return "escaped:" + got["escaped"]
    if got["problems"]:
        return "handle:" + got["problems"][0]
    esubs, eouts = expected(scn, obs)
    gsubs = [[x for x in row if x[0] != x[1]] for row in got["subs"]]
    if gsubs != esubs:
        return f"subs:{gsubs} expected {esubs}"
    for k, row in eouts.items():
        g = got["out"].get(k, [])
        if g != row:
            return f"out:subscriber {k} got {g} expected {row}"
    return None


def has_once(scn) -> bool:
    """a subscriber that reacts from inside a delivery (self-unsubscribe / re-entrant subscribe): synchronous forms only"""
    return any(c.get("m", "all") != "all" for c in seq(scn["hist"]))


def witnesses(scn) -> Dict[str, Any]:
    """Scenario-derived predicates used to keep known-finding matches narrow."""
    kind, hist = scn["kind"], seq(scn["hist"])
    w: Dict[str, Any] = {}
    if kind["wr"] == "auto":
        # an unsubscribe is issued before the n-th subscription was made
        seen, early = {}, False
        for c in hist:
            if c["c"] == "sub":
                seen[c["a"]] = seen.get(c["a"], 0) + 1
            elif c["c"] == "unsub" and seen.get(c["a"], 0) < kind["n"]:
                early = True
        w["auto_unsub_before_n"] = early
    w["apps_subscribed"] = len({c["a"] for c in hist if c["c"] == "sub"})
    return w


def judge(scn, allowed, *, form, profile="plain", salt=0, stride=10, shared=True, sub_sched=False, clock="test", pid="C24"):
    got = perform(scn, form=form, profile=profile, salt=salt, stride=stride, shared=shared, sub_sched=sub_sched, clock=clock)
    reasons = []
    for obs in allowed:
        r = compare(scn, obs, got)
        if r is None:
            return None
        reasons.append(r)
    kind = scn["kind"]
    rec = {"engine": "connect", "sk": kind["sk"], "wr": kind["wr"], "mp": kind["mp"], "n": kind["n"], "b": kind["b"],
           "w": kind["w"], "form": form, "tie": scn["tie"], "napps": len(seq(scn["src"])),
           "reason": reasons[0][:600], "reason_kind": reasons[0].split(":")[0], "profile": profile, "salt": salt,
           "stride": stride, "shared": shared, "sub_sched": sub_sched, "clock": clock, "scn": scn, "expected": allowed, "observed": got}
    rec.update(witnesses(scn))
    return rec


def product_of_singles(scn, **v) -> Dict[str, Any]:
    """The real library's behaviour for every application run ALONE (its own source, its own commands),
    assembled in the shape of a combined observation.  Used by C44 to tell a leak between applications
    (combined run != product of single runs) from a deviation that a single application shows as well."""
    srcs, hots, hist = seq(scn["src"]), seq(scn["hot"]), seq(scn["hist"])
    subs, outs, esc, prob = [], {}, None, []
    for a in range(1, len(srcs) + 1):
        one = {"kind": scn["kind"], "tie": scn["tie"], "src": [srcs[a - 1]], "hot": [hots[a - 1]],
               "hist": [dict(c, a=1) for c in hist if c["a"] == a]}
        g = perform(one, **v)
        subs.append(g["subs"][0])
        outs.update(g["out"])
        esc = esc or g["escaped"]
        prob += g["problems"]
    return {"subs": subs, "out": outs, "escaped": esc, "problems": prob}


def leaks(scn, got, **v) -> bool:
    """True when the combined real run differs from the product of the real single-application runs."""
    p = product_of_singles(scn, **v)
    strip = lambda g: ([[x for x in row if x[0] != x[1]] for row in g["subs"]], g["out"], g["escaped"], g["problems"])
    return strip(got) != strip(p)


def replay_record(rec) -> Optional[Dict[str, Any]]:
    return judge(rec["scn"], rec["expected"], form=rec["form"], profile=rec["profile"], salt=rec["salt"],
                 stride=rec["stride"], shared=rec["shared"], sub_sched=rec.get("sub_sched", False),
                 clock=rec.get("clock", "test"))


# =================================================================================================
# Reuse.tla: ONE element-wise / aggregate operator object applied to several sources (C44)
# =================================================================================================
def reuse_perform(scn, *, shared=True, profile="plain", k=2, salt=0, stride=10, order="fwd", hot=False):
    """Build the operator ONCE (shared) or once per source (fresh), apply it to the sources, subscribe
    application a at instant start[a]; its j-th event is at instant start[a]+j.  None = profile n/a."""
    from reactivex import operators as ops
    from reactivex.scheduler import VirtualTimeScheduler
    from reactivex.testing import ReactiveTest, TestScheduler
    from props import ops1_common as oc
    op, par = scn["op"], scn["par"]
    srcs, terms, start = seq(scn["srcs"]), seq(scn["terms"]), seq(scn["start"])
    n = len(srcs)
    cod = oc.Codec(op, par, profile, k, salt)
    if cod.vals is None:
        return None
    ts = TestScheduler()
    V = lambda i: 200 + stride * i

    def operator():
        name, args, kwargs = oc.build(op, par, cod)
        return getattr(ops, name)(*args, **kwargs)

    apps = list(range(n)) if order == "fwd" else list(reversed(range(n)))
    xs: Dict[int, Any] = {}
    for a in apps:
        ms = []
        base = V(start[a]) if hot else 0
        for j, t in enumerate(seq(srcs[a]), start=1):
            ms.append(ReactiveTest.on_next(base + stride * j, cod.vals[t]))
        m = len(seq(srcs[a])) + 1
        if terms[a] == "C":
            ms.append(ReactiveTest.on_completed(base + stride * m))
        elif terms[a] == "E":
            ms.append(ReactiveTest.on_error(base + stride * m, cod.src_err))
        xs[a] = ts.create_hot_observable(ms) if hot else ts.create_cold_observable(ms)
    the_op = operator() if shared else None
    ys = {a: xs[a].pipe(the_op if shared else operator()) for a in apps}
    recs: Dict[int, list] = {a: [] for a in apps}
    for a in apps:
        def subscribe(_s=None, _st=None, a=a):
            r = recs[a]
            ys[a].subscribe(on_next=lambda v: r.append((ts.clock, "N", v)), on_error=lambda e: r.append((ts.clock, "E", e)),
                            on_completed=lambda: r.append((ts.clock, "C", None)), scheduler=ts)
        ts.schedule_absolute(V(start[a]), subscribe)
    escaped = None
    try:
        VirtualTimeScheduler.start(ts)
    except Exception as ex:
        escaped = ex
    return {"rec": recs, "subs": {a: [(s.subscribe, s.unsubscribe) for s in xs[a].subscriptions] for a in apps},
            "cod": cod, "escaped": escaped, "V": V}


def reuse_compare(scn, obs, got) -> Optional[str]:
    from props import ops1_common as oc
    if got["escaped"] is not None:
        return f"escaped:{type(got['escaped']).__name__}"
    op, cod, V = scn["op"], got["cod"], got["V"]
    start, srcs = seq(scn["start"]), seq(scn["srcs"])
    for a, (out, u) in enumerate(zip(seq(obs["out"]), seq(obs["unsub"]))):
        rec = got["rec"][a]
        out = seq(out)
        if len(rec) != len(out):
            return f"count:app {a + 1} got {len(rec)} notifications expected {len(out)}"
        for (t, kd, v), e in zip(rec, out):
            if kd != e["k"]:
                return f"kind:app {a + 1} {kd}!={e['k']}"
            if t != V(start[a] + e["at"]):
                return f"time:app {a + 1} {t}!={V(start[a] + e['at'])}"
            if kd == "N" and not oc.val_matches(op, cod, e["v"], v):
                return f"value:app {a + 1} {v!r}"
            if kd == "E" and not oc.err_matches(cod, e["e"], v):
                return f"error:app {a + 1} {type(v).__name__}"
        subs = got["subs"][a]
        if u == -1:
            if subs:
                return f"subs:app {a + 1} source subscribed although the operator needs nothing from it"
            continue
        if len(subs) != 1 or subs[0][0] != V(start[a]):
            return f"subs:app {a + 1} source subscriptions {subs}"
        want = NEVER_T if u > len(seq(srcs[a])) + 1 else V(start[a] + u)
        if subs[0][1] != want:
            return f"subs:app {a + 1} unsubscribed at {subs[0][1]} expected {want}"
    return None


def reuse_judge(scn, allowed, *, profile="plain", k=2, salt=0, stride=10, order="fwd", hot=False):
    """None / "n/a" / failure record.  On failure the same scenario is run with a fresh operator per
    source: `fresh_ok` tells whether sharing the operator object is what breaks it."""
    got = reuse_perform(scn, shared=True, profile=profile, k=k, salt=salt, stride=stride, order=order, hot=hot)
    if got is None:
        return "n/a"
    reasons = []
    for obs in allowed:
        r = reuse_compare(scn, obs, got)
        if r is None:
            return None
        reasons.append(r)
    fresh = reuse_perform(scn, shared=False, profile=profile, k=k, salt=salt, stride=stride, order=order, hot=hot)
    fresh_ok = any(reuse_compare(scn, obs, fresh) is None for obs in allowed)
    show = lambda g: {"rec": {a: [(t, kd, repr(v)) for t, kd, v in r] for a, r in g["rec"].items()}, "subs": g["subs"],
                      "escaped": repr(g["escaped"])}
    # every application alone on the real library: a leak is a difference between the combined run and these
    n = len(seq(scn["srcs"]))
    alone = {"rec": {}, "subs": {}, "escaped": "None"}
    for a in range(n):
        one = dict(scn, srcs=[seq(scn["srcs"])[a]], terms=[seq(scn["terms"])[a]], start=[seq(scn["start"])[a]])
        g = show(reuse_perform(one, shared=True, profile=profile, k=k, salt=salt, stride=stride, order=order, hot=hot))
        alone["rec"][a], alone["subs"][a] = g["rec"][0], g["subs"][0]
        if g["escaped"] != "None":
            alone["escaped"] = g["escaped"]
    return {"engine": "reuse", "op": scn["op"], "scn": scn, "expected": allowed, "reason": reasons[0][:400],
            "reason_kind": reasons[0].split(":")[0], "fresh_ok": fresh_ok, "leaks": show(got) != alone,
            "profile": profile, "k": k, "salt": salt, "stride": stride, "order": order, "hot": hot, "observed": show(got)}
