"""Binding A for CatchSched.tla (C42): perform an exported tree program on
CatchScheduler(<virtual-time scheduler>, handler) and project the run to the exported record.

Codec only: node ids are handed out in scheduling order on both sides; exception token e of
node i, invocation k is a Boom(i, k, e) object (the handler must receive that very object);
handler verdict TRUE -> True, FALSE -> False / None (both falsy forms are driven); model time t
is float(t) on VirtualTimeScheduler/TestScheduler and UTC_ZERO + t s on HistoricalScheduler."""
from __future__ import annotations

import signal
from datetime import timedelta
from typing import Any, Dict, List, Optional

from props import vt_common

KINDS = ("vts", "test", "hist")     # the CatchScheduler histories wrap these three (vt_common also has the naive-datetime kind)
NOCLOCK = 99999   # CatchSched!NoClock: the clock after the final start() is not asserted


class Boom(Exception):
    def __init__(self, node: int, k: int, tok: int):
        super().__init__(f"boom node={node} k={k} tok={tok}")
        self.node, self.k, self.tok = node, k, tok


def quiet(scn: Dict[str, Any]) -> bool:
    return not any(c["c"] == "raise" for b in scn["body"] for inv in b for c in inv)


def raise_depths(scn: Dict[str, Any]) -> List[int]:
    return [scn["depth"][i] for i, b in enumerate(scn["body"]) for inv in b for c in inv if c["c"] == "raise"]


def perform(scn: Dict[str, Any], kind: str, wrap: bool = True, falsy: Any = False, watchdog: float = 5.0,
            nest: bool = False) -> Dict[str, Any]:
    from reactivex.scheduler import CatchScheduler, VirtualTimeScheduler
    from reactivex.scheduler.scheduler import UTC_ZERO
    s = vt_common.make_sched(kind)
    dt = kind == "hist"

    def A(t):
        return UTC_ZERO + timedelta(seconds=t) if dt else float(t)

    def R(d):
        return timedelta(seconds=d) if dt else float(d)

    def clk():
        c = s.clock
        x = round((c - UTC_ZERO).total_seconds(), 6) if dt else float(c)
        return int(x) if x == int(x) else x

    ran: List[Any] = []
    handler_log: List[Any] = []
    raised: List[Boom] = []
    drives: List[Dict[str, Any]] = []
    problems: List[str] = []
    disp: Dict[int, Any] = {}
    counter = [0]
    invocations: Dict[int, int] = {}
    body = scn["body"]
    verdict = scn["verdict"]

    def handler(ex):
        if isinstance(ex, Boom):
            handler_log.append(ex)
            return True if verdict[ex.tok - 1] else falsy
        handler_log.append(ex)
        problems.append(f"handler saw foreign exception {type(ex).__name__}: {ex}")
        return False

    if wrap:
        cs = CatchScheduler(s, handler)
        if nest:   # a second catch layer whose handler never accepts: must be invisible apart from seeing escalated exceptions
            cs = CatchScheduler(cs, lambda ex: False)
    else:
        cs = s

    def do(cmd, sch, me, k):
        c, a, b = cmd["c"], cmd["a"], cmd["b"]
        if c.startswith("sched_"):
            counter[0] += 1
            ident = counter[0]
            if ident != b:
                problems.append(f"id mismatch {ident}!={b}")
            if sch is None:
                problems.append("periodic action asked to schedule")
                return
            if c == "sched_per":
                disp[ident] = sch.schedule_periodic(R(a), make_periodic(ident), state=10 * ident)
            elif c == "sched_imm":
                disp[ident] = sch.schedule(make_action(ident), state=100 + ident)
            elif c == "sched_rel":
                disp[ident] = sch.schedule_relative(R(a), make_action(ident), state=100 + ident)
            else:
                disp[ident] = sch.schedule_absolute(A(a), make_action(ident), state=100 + ident)
        elif c == "cancel":
            disp[a].dispose()
        elif c == "raise":
            ex = Boom(me, k, a)
            raised.append(ex)
            raise ex
        else:
            raise ValueError(c)

    def script(ident, k):
        invs = body[ident - 1]
        return invs[k - 1] if k <= len(invs) else []

    def make_action(ident):
        def action(sch, state=None):
            k = invocations[ident] = invocations.get(ident, 0) + 1
            ran.append([ident, k, clk(), state])
            if sch.now != s.now:
                problems.append(f"handed scheduler's now {sch.now} differs from the inner scheduler's {s.now}")
            if wrap and not isinstance(sch, CatchScheduler):
                pass  # not asserted: what matters is what the handed scheduler does with a raise
            for cmd in script(ident, k):
                if cmd["c"] == "ret":      # `return scheduler.schedule_xxx(...)`: hand the child's handle back
                    return disp[cmd["a"]]
                do(cmd, sch, ident, k)
            return None
        return action

    def make_periodic(ident):
        def paction(state=None):
            k = invocations[ident] = invocations.get(ident, 0) + 1
            ran.append([ident, k, clk(), state])
            for cmd in script(ident, k):
                do(cmd, None, ident, k)
            return (state if isinstance(state, int) else 0) + 1
        return paction

    old = signal.signal(signal.SIGALRM, vt_common._alarm)
    signal.setitimer(signal.ITIMER_REAL, watchdog)
    try:
        for cmd in scn["top"]:
            do(cmd, cs, 0, 0)
        target = scn["horizon"]
        # phase 1: the scenario's driver; phase 2 (adv scenarios whose periodic nodes are all dead in
        # the model): a final start(), which must return - "periodic work stops"
        phases = [scn["drv"]] + (["start"] if scn["drv"] == "adv" and scn.get("drain") else [])
        for phase in phases:
            for _ in range(len(raise_depths(scn)) + 3):
                try:
                    if phase == "start":
                        VirtualTimeScheduler.start(s)
                    else:
                        s.advance_to(A(target))
                except Boom as ex:
                    idx = [i + 1 for i, r in enumerate(raised) if r is ex]
                    drives.append({"clock": clk(), "n": len(ran), "esc": idx[0] if idx else -1})
                    s.stop()   # an exception leaves the virtual-time scheduler enabled; that is the inner scheduler's matter
                    target += 1
                    continue
                final = phase == "start" and scn["drv"] == "adv"
                drives.append({"clock": NOCLOCK if final else clk(), "n": len(ran), "esc": 0})
                break
            else:
                problems.append("driver call kept raising")
        # the handler log as it is: one call per raise (an action is wrapped by exactly one catch layer
        # of this scheduler, whichever scheduling method it went through)
        hl: List[Any] = [[ex.node, ex.k, ex.tok] if isinstance(ex, Boom) else ["foreign", 0, 0] for ex in handler_log]
        return {"ran": ran, "handler": hl, "drives": drives, "problems": problems,
                "handler_calls_raw": len(handler_log)}
    except vt_common.Hang:
        return {"hang": True, "ran": ran, "handler": [], "drives": drives, "problems": problems,
                "hang_in_final_start": len(drives) >= 1 and scn["drv"] == "adv"}
    except Exception as e:  # anything else escaping is an observation too
        return {"raised": f"{type(e).__name__}: {e}", "ran": ran, "handler": [], "drives": drives, "problems": problems}
    finally:
        signal.setitimer(signal.ITIMER_REAL, 0)
        signal.signal(signal.SIGALRM, old)


def _same(e: Dict[str, Any], got: Dict[str, Any]) -> bool:
    return got["ran"] == e["ran"] and got["handler"] == e["handler"] and got["drives"] == e["drives"]


def _classify(scn, e, got) -> Dict[str, Any]:
    """Which part of the statement the observation contradicts (for the failure record)."""
    if got.get("hang"):
        return {"failure": "hang", "hang_in_final_start": got.get("hang_in_final_start", False)}
    if got.get("raised"):
        return {"failure": "foreign_exception"}
    if got["problems"]:
        return {"failure": "problem"}
    if got["handler"] != e["handler"]:
        missing = [h for h in e["handler"] if h not in got["handler"]]
        repeated = [h for h in e["handler"] if got["handler"].count(h) > 1]
        deep = [h for h in missing if scn["depth"][h[0] - 1] >= 1]
        per = [h for h in missing if scn["kind"][h[0] - 1] == "per"]
        return {"failure": "handler_calls", "missing_handler_calls": len(missing), "repeated_handler_calls": len(repeated),
                "missing_at_depth_ge1": len(deep), "missing_periodic": len(per)}
    esc_e = [d["esc"] for d in e["drives"]]
    esc_g = [d["esc"] for d in got["drives"]]
    if esc_e != esc_g:
        return {"failure": "swallow_vs_propagate", "expected_escapes": esc_e, "observed_escapes": esc_g}
    if [r[:2] for r in got["ran"]] != [r[:2] for r in e["ran"]]:
        per_extra = [r for r in got["ran"] if r not in e["ran"] and scn["kind"][r[0] - 1] == "per"]
        return {"failure": "run_order", "extra_periodic_ticks": len(per_extra)}
    if [r[3] for r in got["ran"]] != [r[3] for r in e["ran"]]:
        return {"failure": "state"}
    return {"failure": "clock"}


_HANGS = [0, 0]  # per process: confirmed hangs, scenarios skipped after the hang budget was used up


def judge(scn: Dict[str, Any], allowed: List[Dict[str, Any]], kind: str, wrap: bool = True, falsy: Any = False,
          nest: bool = False) -> Optional[Dict[str, Any]]:
    if _HANGS[0] >= 3:   # do not spend hours on a tree that hangs
        _HANGS[1] += 1
        return None
    got = perform(scn, kind, wrap=wrap, falsy=falsy, nest=nest, watchdog=3.0)
    if got.get("hang"):  # confirm: a loaded machine must not turn into a verdict
        got = perform(scn, kind, wrap=wrap, falsy=falsy, nest=nest, watchdog=12.0)
        if got.get("hang"):
            _HANGS[0] += 1
    if not (got.get("hang") or got.get("raised") or got["problems"]) and any(_same(e, got) for e in allowed):
        return None
    rec = {"engine": "catch", "sched": kind, "wrapped": wrap, "falsy": repr(falsy), "nested": nest, "scn": scn,
           "expected": allowed, "observed": got, "quiet": quiet(scn), "drv": scn["drv"]}
    rec.update(_classify(scn, allowed[0], got))
    return rec
