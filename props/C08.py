"""C08 - falsy values are ordinary elements.
The value-agnostic transducers of Ops1.tla already say every token is an element; the property is
the codec dimension: every scenario is replayed with tokens decoded to None, 0, '', (), [], {},
0.0, False (all rotations), next to the value-blindness check of the model itself."""
from harness import core, tlc
from props import ops1_common as oc


def variants(scn):
    base = len(str(scn))
    # salts 0..7 rotate the falsy pool so that every falsy value is used for every token
    return [dict(hot=(base + s) % 2 == 0, tmap="spread" if s % 3 else "bunched", profile="falsy", salt=s, form="pipe")
            for s in range(8)]


def run(tier):
    ck = core.Check("C08", tier)
    k, n = (2, 3) if tier == "quick" else (3, 4)
    consts = dict(NVals=k, MaxLen=n, Terms={"C", "E"}, Disposes=False, Faults=False, IdentSrc=False)
    groups = oc.export_groups(ck, oc.ELEMENTWISE + oc.AGGREGATES, consts, "export")
    ck.exhaustive = True
    ck.rule = (f"all Ops1.tla scenarios ({k} tokens, length 0..{n}) of the element-wise and aggregate operators, replayed with "
               "tokens decoded to falsy Python values: pool [None, 0, '', (), [], {}, 0.0, False] for non-comparing operators, "
               "the pairwise non-equal prefix for comparing ones, the hashable prefix for to_set/to_dict, all 8 rotations; "
               "values compared by (type, value), never ==; non-trivial = at least one falsy element is expected downstream")
    oc.replay_groups(ck, groups, variants, k)
    ck.nontrivial = sum(1 for g in groups if any(e["k"] == "N" for e in g[1][0]["out"]))
    ck.note("scenarios", len(groups))
    ck.note("subjects_and_time_operators", "falsy initial/current values for BehaviorSubject/AsyncSubject/ReplaySubject and delay "
            "are exercised by C21-C23 and C15 with the same pool")
    for g in groups[:: max(1, len(groups) // 4)][:4]:
        ck.sample({"scn": g[0], "allowed": g[1], "decoded_with": "falsy pool, salts 0..7"})
    ck.assumptions = ["numeric aggregates (sum, average, min, max, reduce/scan codes) use numbers, whose only falsy member is 0"]
    return ck.finish()


replay = oc.generic_replay


META = {
    'technique': 'Ops1.tla scenarios (value-agnostic transducers) replayed with tokens decoded to falsy Python values, compared by (type, value)',
    'level': "Every element-wise and aggregate scenario enumerated by TLC is replayed with the value tokens decoded to None, 0, '', (), [], {}, 0.0, False in all rotations; the expected outputs come from the value-blind model, so a falsy element that is dropped, replaced or mistaken for absence is a mismatch. Subjects and time operators use the same pool in C15, C20-C23.",
    'note': 'TLC 1.8; falsy pool restricted to pairwise non-equal / hashable members where the operator compares or hashes',
    'ref': 'DESIGN.md 6 C08',
}
