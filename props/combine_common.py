"""Binding A for OpsCombine.tla (runner RunN): build an exported scenario - n source timelines with
integer instants - on the real library (TestScheduler or HistoricalScheduler, hot and/or cold logged
sources, the real static or operator form), run it, and compare the observation with the allowed set
on the asserted projection.

Only the codec lives here (tokens <-> Python objects, instants <-> virtual times, which lane is which
argument); which tuples / terminals are expected comes from TLC.

Asserted projection (DESIGN 3.6, section 6 C13):
  * every emitted value with its instant, the terminal kind, its instant and (errors) the identity of
    the exception object - the model itself is nondeterministic where the statement gives no completion
    rule (combine_latest / with_latest_from / skip_until / zip_with_iterable: a window of instants);
  * C02 dimension: every source is subscribed once at the subscription instant and, once the result
    terminated (or was disposed), every source subscription is closed no later than that instant;
  * amb: every loser is unsubscribed exactly at the instant of the winner's first notification.
Not compared: the order in which sources are subscribed, unsubscription instants of sources in runs
whose result never terminates (other than amb's losers)."""
from __future__ import annotations

import itertools
import json
import os
import sys
import threading
from typing import Any, Dict, List, Optional, Tuple

NEVER_T = sys.maxsize
_LOCK = threading.Lock()      # core.Check is filled from several TLC driver threads

CORE_OPS = ["zip", "combine_latest", "with_latest_from", "fork_join", "amb"]
GROWTH_OPS = ["take_until", "skip_until", "zip_with_iterable", "sequence_equal"]
TUPLE_OPS = {"zip", "combine_latest", "with_latest_from", "fork_join"}
MODEL_INVS = ["Grammar", "Causal", "Released", "Silent", "NoEarlyClose", "RefOK", "AmbOK", "Width"]


class SrcErr(Exception):
    """a source's on_error value (one object per lane)"""


class FnErr(Exception):
    """raised by the scenario's comparer"""


# ---- codec ---------------------------------------------------------------------------------------
FALSY = [None, 0, "", (), [], {}, 0.0, False]
FALSY_NEQ = [None, 0, "", (), [], {}]


def _fresh(x):
    return type(x)() if isinstance(x, (list, dict)) else x


class EqAll:
    """an element that claims to be equal to everything (like unittest.mock.ANY)"""

    def __init__(self, name):
        self.name = name

    def __eq__(self, other):
        return True

    def __hash__(self):
        return 1

    def __repr__(self):
        return f"EqAll({self.name})"


class EqRaises:
    """an element that cannot be compared with == (numpy arrays behave like this inside `in` / bool())"""

    def __init__(self, name):
        self.name = name

    def __eq__(self, other):
        raise TypeError("this element does not support ==")

    __hash__ = object.__hash__

    def __repr__(self):
        return f"EqRaises({self.name})"


def same(got: Any, want: Any) -> bool:
    """identity for everything that can carry one; (type, value) for interned immutables"""
    if got is want:
        return True
    if type(got) is not type(want) or not isinstance(want, (int, float, str, tuple, bool, type(None))):
        return False
    return got == want


class Tok:
    """an element of a sequence_equal lane: equal (==, hash) by value token, but remembering the lane it was
    emitted by, so that the comparer can tell in which order it was handed its two arguments"""
    __slots__ = ("t", "lane")

    def __init__(self, t, lane):
        self.t, self.lane = t, lane

    def __eq__(self, other):
        return isinstance(other, Tok) and other.t == self.t

    def __hash__(self):
        return hash(("Tok", self.t))

    def __repr__(self):
        return f"Tok({self.t},lane{self.lane})"


class Codec:
    """lane i (1-based), element token j -> Python object.  For the value-agnostic operators the token
    is the position j = 1.. of the element in its lane; for sequence_equal it is a value token shared
    by both lanes."""

    def __init__(self, scn: Dict[str, Any], profile: str, salt: int):
        self.op, self.n = scn["op"], scn["n"]
        self.profile = profile
        maxlen = max([len(l) for l in scn["lanes"]] + [scn["par"]["m"], 1]) + 1
        self.errs = [None] + [SrcErr(f"lane{i}") for i in range(1, self.n + 1)]
        self.swapped = False     # the comparer was handed (second's element, source's element)
        if self.op == "sequence_equal":
            if profile == "plain":
                self.shared = None
                self.vals = [None] + [{t: Tok(t, i) for t in range(8)} for i in range(1, self.n + 1)]
            else:
                shared = [_fresh(FALSY_NEQ[(salt + t) % len(FALSY_NEQ)]) for t in range(len(FALSY_NEQ))]
                self.shared = shared
                self.vals = [None] + [{t: shared[t] for t in range(len(shared))} for _ in range(self.n)]
        elif profile == "plain":
            self.vals = [None] + [{j: (f"s{i}e{j}" if (salt + i) % 2 else 100 * i + j) for j in range(1, maxlen + 1)}
                                  for i in range(1, self.n + 1)]
        elif profile in ("eqall", "eqraises"):      # elements with a hostile __eq__: no operator here may compare elements
            cls = EqAll if profile == "eqall" else EqRaises
            self.vals = [None] + [{j: cls(f"s{i}e{j}") for j in range(1, maxlen + 1)} for i in range(1, self.n + 1)]
        else:
            self.vals = [None] + [{j: _fresh(FALSY[(3 * i + j + salt) % len(FALSY)]) for j in range(1, maxlen + 1)}
                                  for i in range(1, self.n + 1)]
        self.iter_vals = [None] + ([f"it{j}" for j in range(1, maxlen + 2)] if profile in ("plain", "eqall", "eqraises")
                                   else [_fresh(FALSY[(j - 1 + salt) % len(FALSY)]) for j in range(1, maxlen + 2)])   # salt 0: the first is None

    def tok(self, x: Any) -> Optional[int]:
        if isinstance(x, Tok):
            return x.t
        for t, v in enumerate(self.shared):
            if same(x, v):
                return t
        return None


def cmp_fn(code: int, cod: Codec):
    def c(a, b):
        ta, tb = cod.tok(a), cod.tok(b)
        if isinstance(a, Tok) and isinstance(b, Tok) and (a.lane, b.lane) == (2, 1):
            cod.swapped = True
        if code == 0:
            return ta == tb
        if code == 1:
            return ta % 2 == tb % 2
        if code == 2:
            return False
        if code == 3:
            return True
        if code == 5:
            return ta <= tb
        raise FnErr("cmp")
    return c


def time_map(name: str, k: int) -> int:
    """instant k (0 = the subscription instant) -> virtual time in ticks; strictly increasing"""
    if name == "spread":
        return 200 + 10 * k
    if name == "tight":
        return 200 + k
    if name == "wide":
        return 200 + 100 * k + k * k
    raise ValueError(name)


def build(scn: Dict[str, Any], form: str, srcs: List[Any], cod: Codec):
    """the real operator applied to the lanes' observables (srcs[0] is lane 1); None = form n/a"""
    import reactivex
    from reactivex import operators as ops
    op, n = scn["op"], scn["n"]
    if op in ("zip", "combine_latest", "with_latest_from", "fork_join"):
        if form == "static":
            return getattr(reactivex, op)(*srcs)
        if form == "pipe":
            return srcs[0].pipe(getattr(ops, op)(*srcs[1:]))
        if form == "fluent":
            return getattr(srcs[0], op)(*srcs[1:])
    if op == "amb":
        if form == "static":
            return reactivex.amb(*srcs)
        if n < 2:
            return None
        if form == "pipe":
            return srcs[0].pipe(*[ops.amb(s) for s in srcs[1:]])
        if form == "fluent":
            r = srcs[0]
            for s in srcs[1:]:
                r = r.amb(s)
            return r
    if form == "static":
        return None
    app = (lambda name, *a: srcs[0].pipe(getattr(ops, name)(*a))) if form == "pipe" else \
          (lambda name, *a: getattr(srcs[0], name)(*a))
    if op in ("take_until", "skip_until"):
        return app(op, srcs[1])
    if op == "zip_with_iterable":
        return app(op, [cod.iter_vals[j] for j in range(1, scn["par"]["m"] + 1)])
    if op == "sequence_equal":
        code = scn["par"]["cmp"]
        if code == 0 and form == "pipe":
            return app(op, srcs[1])          # the library's default comparer (==)
        return app(op, srcs[1], cmp_fn(code, cod))
    return None


# ---- running a scenario on the real code --------------------------------------------------------------
def _sync_observable(s, sync_notifs, later_msgs):
    """A logged test source that hands over `sync_notifs` from INSIDE subscribe() (what a BehaviorSubject /
    replaying source / `create` with a direct on_next does) and then behaves like ColdObservable for
    `later_msgs`; .subscriptions as on the library's test observables."""
    from reactivex import Observable
    from reactivex.disposable import CompositeDisposable, Disposable
    from reactivex.testing.subscription import Subscription

    class SyncObservable(Observable):
        def __init__(self):
            super().__init__()
            self.subscriptions = []

        def _subscribe_core(self, observer, scheduler=None):
            self.subscriptions.append(Subscription(s.clock))
            index = len(self.subscriptions) - 1
            disp = CompositeDisposable()

            def mk(notification):
                def action(_s, _st=None):
                    notification.accept(observer)
                    return Disposable()
                return action
            for m in later_msgs:
                disp.add(s.schedule_relative(m.time, mk(m.value)))

            def dispose():
                self.subscriptions[index] = Subscription(self.subscriptions[index].subscribe, s.clock)
                disp.dispose()
            for nt in sync_notifs:
                nt.accept(observer)
            return Disposable(dispose)
    return SyncObservable()


def _clock_kind(sched: str):
    """(scheduler factory, absolute(t), relative(t), back(clock) -> ticks)"""
    if sched == "test":
        from reactivex.testing import TestScheduler
        return TestScheduler, (lambda t: t), (lambda t: t), (lambda c: c)
    from datetime import datetime, timedelta, timezone
    from reactivex.scheduler import HistoricalScheduler
    base = datetime(2001, 2, 3, 4, 5, 6, tzinfo=timezone.utc)

    def back(c):
        if isinstance(c, datetime):
            return (c - base).total_seconds()
        return c
    return (lambda: HistoricalScheduler(base)), (lambda t: base + timedelta(seconds=t)), (lambda t: timedelta(seconds=t)), back


def run_scenario(scn: Dict[str, Any], var: Dict[str, Any]) -> Optional[Dict[str, Any]]:
    """var: kinds ('h'/'c' per lane), order (creation order of the lanes' observables: a permutation of
    0..n-1), tmap, profile, salt, form, sched ('test'/'hist'), dfirst (dispose before/after the sources'
    events of its instant).  Returns the raw observation, or None when the variant does not apply."""
    from reactivex.notification import OnCompleted, OnError, OnNext
    from reactivex.scheduler import VirtualTimeScheduler
    from reactivex.testing.coldobservable import ColdObservable
    from reactivex.testing.hotobservable import HotObservable
    from reactivex.testing.recorded import Recorded
    n, lanes, dsp, dk, sy = scn["n"], scn["lanes"], scn["dsp"], scn.get("dk", 0), scn.get("sy", False)
    cod = Codec(scn, var["profile"], var.get("salt", 0))
    mk, absolute, relative, back = _clock_kind(var.get("sched", "test"))
    s = mk()
    T = lambda k: time_map(var["tmap"], k)
    disposes = dsp >= 0
    holder: Dict[str, Any] = {}
    if disposes and var.get("dfirst", True):
        s.schedule_absolute(absolute(T(dsp)), lambda *_: holder["d"].dispose())
    srcs: List[Any] = [None] * n
    # share: lanes with identical timelines are ONE observable object passed several times (zip(xs, xs))
    rep_of = list(range(n))
    if var.get("share"):
        for j in range(n):
            for i in range(j):
                if lanes[i] == lanes[j] and var["kinds"][i] == var["kinds"][j]:
                    rep_of[j] = rep_of[i]
                    cod.vals[j + 1], cod.errs[j + 1] = cod.vals[rep_of[i] + 1], cod.errs[rep_of[i] + 1]
                    break
    for i in var["order"]:
        if rep_of[i] != i:
            continue
        # a notification at the subscription instant itself can only come from a cold source - or, in a
        # scenario with synchronous delivery (sy), from a source that emits inside subscribe()
        at0 = any(e["t"] == 0 for e in lanes[i])
        hot = var["kinds"][i] == "h" and not at0
        msgs, sync_notifs = [], []
        for e in lanes[i]:
            t = absolute(T(e["t"])) if hot else relative(T(e["t"]) - 200)
            nt = OnNext(cod.vals[i + 1][e["v"]]) if e["k"] == "N" else OnCompleted() if e["k"] == "C" else OnError(cod.errs[i + 1])
            if sy and e["t"] == 0:
                sync_notifs.append(nt)
            else:
                msgs.append(Recorded(t, nt))
        if sy and at0:
            srcs[i] = _sync_observable(s, sync_notifs, msgs)
        else:
            srcs[i] = HotObservable(s, msgs) if hot else ColdObservable(s, msgs)
    for i in range(n):
        srcs[i] = srcs[rep_of[i]]
    ys = build(scn, var["form"], srcs, cod)
    if ys is None:
        return None
    rec: List[Tuple[Any, str, Any]] = []

    def on_next(v):
        rec.append((back(s.clock), "N", v))
        if dk and sum(1 for r in rec if r[1] == "N") == dk:
            holder["d"].dispose()          # the subscriber disposes from inside its own on_next

    def subscribe(_s=None, _st=None):
        holder["d"] = ys.subscribe(on_next=on_next,
                                   on_error=lambda e: rec.append((back(s.clock), "E", e)),
                                   on_completed=lambda: rec.append((back(s.clock), "C", None)), scheduler=s)
        if disposes and not var.get("dfirst", True):
            s.schedule_absolute(absolute(T(dsp)), lambda *_: holder["d"].dispose())
    s.schedule_absolute(absolute(200), subscribe)
    escaped = None
    try:
        VirtualTimeScheduler.start(s)
    except Exception as e:  # an exception that escaped into the scheduler / emitter
        escaped = e
    # one subscription log per distinct observable, with the lanes (1-based) it stands for
    subs = []
    for i in range(n):
        if rep_of[i] == i:
            subs.append(([j + 1 for j in range(n) if rep_of[j] == i],
                         [(back(u.subscribe), NEVER_T if u.unsubscribe == NEVER_T else back(u.unsubscribe))
                          for u in srcs[i].subscriptions]))
    if var.get("sched", "test") != "test":
        # ColdObservable logs int(to_seconds(now)) = epoch seconds at dispose; bring back to ticks
        from datetime import datetime, timezone
        epoch0 = datetime(2001, 2, 3, 4, 5, 6, tzinfo=timezone.utc).timestamp()
        subs = [(g, [(a, b if b == NEVER_T or b < 10 ** 6 else b - epoch0) for a, b in l]) for g, l in subs]
    return {"rec": rec, "subs": subs, "cod": cod, "escaped": escaped, "T": T,
            "dtime": T(dsp) if disposes else None}


# ---- asserted projection ---------------------------------------------------------------------------
def _value_ok(scn, cod: Codec, exp_v: Any, got: Any, w: int) -> bool:
    op, n = scn["op"], scn["n"]
    if op in TUPLE_OPS:
        return type(got) is tuple and len(got) == n and all(same(got[i], cod.vals[i + 1][exp_v[i]]) for i in range(n))
    if op == "amb":
        return same(got, cod.vals[w][exp_v])
    if op in ("take_until", "skip_until"):
        return same(got, cod.vals[1][exp_v])
    if op == "zip_with_iterable":
        return type(got) is tuple and len(got) == 2 and same(got[0], cod.vals[1][exp_v[0]]) and same(got[1], cod.iter_vals[exp_v[1]])
    if op == "sequence_equal":
        return type(got) is bool and got == (exp_v == 1)
    return False


def compare(scn: Dict[str, Any], exp: Dict[str, Any], got: Dict[str, Any]) -> Optional[str]:
    """None if the observation equals this allowed observation on the asserted projection, else a
    short reason 'kind:detail'."""
    cod, rec, T, n = got["cod"], got["rec"], got["T"], scn["n"]
    if got["escaped"] is not None:
        return f"escaped:{type(got['escaped']).__name__}"
    out = exp["out"]
    if len(rec) != len(out):
        return f"count:{len(rec)}!={len(out)}"
    for (t, k, v), e in zip(rec, out):
        if k != e["k"]:
            return f"kind:{k}!={e['k']}"
        if t != T(e["at"]):
            return f"time:{k}@{t}!={T(e['at'])}"
        if k == "N" and not _value_ok(scn, cod, e["v"], v, exp["w"]):
            return f"value:{v!r}"
        if k == "E":
            if e["v"] == 0:
                if not isinstance(v, FnErr):
                    return f"error:{type(v).__name__}"
            elif v is not cod.errs[e["v"]]:
                return f"error:{v!r}"
    # subscriptions
    term_t = None
    if rec and rec[-1][1] in ("C", "E"):
        term_t = rec[-1][0]
    elif exp["disposed"]:
        term_t = got["dtime"] if scn["dsp"] >= 0 else (rec[-1][0] if rec else None)
    # an empty iterable may complete the result at the subscription instant without subscribing the source
    at_sub = scn["op"] == "zip_with_iterable" and scn["par"]["m"] == 0 and len(out) == 1
    for lanes_of, l in got["subs"]:
        name = "lane" + "+".join(map(str, lanes_of))
        if (at_sub or (scn.get("sy") and term_t == 200)) and not l:
            continue      # the result ended while the sources were still being subscribed: this one need not be
        if len(l) != len(lanes_of):
            return f"subcount:{name}:{len(l)}"
        for sub_t, unsub_t in l:
            if sub_t != 200:
                return f"subtime:{name}:{sub_t}"
            if term_t is not None and not unsub_t <= term_t:
                return f"leak:{name} unsubscribed {'never' if unsub_t == NEVER_T else unsub_t} result ended {term_t}"
        if scn["op"] == "amb":
            want = sorted(T(exp["unsub"][i - 1]) if exp["unsub"][i - 1] >= 0 else NEVER_T for i in lanes_of)
            have = sorted(u for _, u in l)
            if have != want:
                return f"amb_unsub:{name} unsubscribed {have} expected {want}".replace(str(NEVER_T), "never")
    return None


def describe(got: Dict[str, Any]) -> Dict[str, Any]:
    return {"rec": [(t, k, repr(v)) for t, k, v in got["rec"]], "subs": got["subs"],
            "escaped": repr(got["escaped"]) if got["escaped"] is not None else None}


def judge(scn, allowed, var) -> Any:
    got = run_scenario(scn, var)
    if got is None:
        return "n/a"
    reasons = []
    for exp in allowed:
        r = compare(scn, exp, got)
        if r is None:
            return None
        reasons.append(r)
    # the most specific reason: prefer one from an allowed observation of the same length
    reasons.sort(key=lambda r: (r.startswith("count"), r.startswith("kind")))
    rec = got["rec"]
    extra = {}
    if scn["op"] == "sequence_equal":
        # witness for the comparer-argument-order defect: did the real operator hand the comparer
        # (second's element, source's element) in this run?  (lane-tagged elements: plain profile)
        g2 = got if var["profile"] == "plain" and (scn["par"]["cmp"] or var["form"] != "pipe") else \
            run_scenario(scn, dict(var, profile="plain", form="fluent" if scn["par"]["cmp"] == 0 else var["form"]))
        extra = {"cmp_code": scn["par"]["cmp"], "comparer_args_swapped": bool(g2 and g2["cod"].swapped)}
    return {**extra, "engine": "combine", "op": scn["op"], "n": scn["n"], "scn": scn, "var": var, "expected": allowed,
            "observed": describe(got), "reason": reasons[0], "reason_kind": reasons[0].split(":")[0],
            "form": var["form"], "kinds": "".join(var["kinds"]), "sched": var.get("sched", "test"), "profile": var["profile"],
            "observed_kinds": "".join(k for _, k, _ in rec),
            # witness predicates for known findings
            "observed_elements": sum(1 for _, k, _ in rec if k == "N"), "dispose_in_on_next": scn.get("dk", 0) > 0,
            # the run is an allowed one except that no element at all reached the subscriber
            "allowed_but_for_missing_elements": not any(k == "N" for _, k, _ in rec) and any(
                compare(scn, dict(a, out=[e for e in a["out"] if e["k"] != "N"]), got) is None for a in allowed),
            "escaped_type": type(got["escaped"]).__name__ if got["escaped"] is not None else None,
            "observed_terminal": rec[-1][1] if rec and rec[-1][1] != "N" else "none",
            "expected_terminals": sorted({(a["out"][-1]["k"] if a["out"] and a["out"][-1]["k"] != "N" else "none") for a in allowed})}


# ---- drivers -----------------------------------------------------------------------------------------
def export_runs(ck, runs, timeout=1500, par=4, invs=None, workers=1):
    """runs: list of (label, constants).  One TLC process each (model invariants + Export), a few in
    parallel; returns all export lines.  (With workers > 1 TLC still prints each PrintT line atomically:
    checked here - the multiset of export lines is identical to the single-worker one.)"""
    from concurrent.futures import ThreadPoolExecutor
    from harness import tlc
    invs = MODEL_INVS if invs is None else invs

    def one(r):
        label, c = r
        return tlc.run("OpsCombine", tlc.cfg_text(c, invariants=invs + ["Export"]), workers=workers, timeout=timeout,
                       xmx="2g", allow_violation=False)
    lines = []
    with ThreadPoolExecutor(par) as ex:
        for (label, c), res in zip(runs, ex.map(one, runs)):
            with _LOCK:
                ck.add_tlc(res, label)
            lines += res.lines
    return lines


def consts(ops, nsrc, maxlen, maxt, *, terms=("C", "E", "U"), nvals=2, disposes=False, faults=False, mode="init",
           mint=1, dispose_in=0, preset="", sync=False):
    return dict(Preset=preset, Ops=set(ops), NSrc=set(nsrc), MaxLen=maxlen, MinT=mint, MaxT=maxt, Terms=set(terms),
                NVals=nvals, Disposes=disposes, DisposeIn=dispose_in, Sync=sync, Faults=faults, Mode=mode, ScnPath="")


def preset(name):
    """constants for a named set of scenario families defined in OpsCombine.tla (`Families`): one TLC run
    (one JVM start) covers several differently bounded families"""
    return consts(CORE_OPS, {2}, 1, 1, preset=name)


PRESETS = {   # mirrors `Families` in OpsCombine.tla (documentation for the evidence file only)
    "seqeq_quick": ["sequence_equal(observable) x <=2 elements over 2 value tokens x instants 1..2 x {C} x 5 comparer codes",
                    "sequence_equal(observable) x <=1 element x instants 1..2 x {C,E,U} x 5 comparer codes"],
    "quick": ["5 core operators x 1..2 sources x <=2 elements x instants 1..3 x {C,E,U}",
              "5 core operators x 3 sources x <=1 element x instants 1..2 x {C,U}",
              "zip, combine_latest, with_latest_from, fork_join x 3 sources x <=2 elements x ONE instant x {C,U}",
              "take_until, skip_until, zip_with_iterable x 2 sources x <=1 element x instants 1..2 x {C,E,U}",
              "5 core + 3 growth operators x 2 sources x <=1 element x instants 1..2 x {C,U} x dispose at instant 1..2 / "
              "inside the 1st on_next / never",
              "synchronous delivery inside subscribe() (instant 0) x instants 0..1 x <=1 element x {C,U}: 5 core operators x 2 "
              "sources, with_latest_from x 3 sources"],
}


def simulate_then_enumerate(ck, label, c, num, depth, seed, timeout=1500):
    """Two stages for constants whose scenario space no longer finishes.  (1) TLC -simulate on
    Mode = "gen" draws random scenarios (the Start action prints each drawn scenario once) and walks one
    tie order of each, checking the model invariants; (2) the drawn scenarios are written to a JSON file
    and run exhaustively over ALL tie orders with Mode = "file", which gives each scenario's complete
    allowed set (a simulated behaviour alone shows one resolution of the ties only)."""
    import tempfile
    from harness import tlc
    cg = dict(c, Mode="gen")
    sim = tlc.run("OpsCombine", tlc.cfg_text(cg, invariants=MODEL_INVS), workers=1, timeout=timeout,
                  simulate=f"num={num}", depth=depth, seed=seed, xmx="2g", allow_violation=False)
    with _LOCK:
        ck.add_tlc(sim, f"{label} simulate")
    seen, scns = set(), []
    for ln in sim.lines:
        if "scn" in ln:
            continue
        k = json.dumps(ln, sort_keys=True)
        if k not in seen:
            seen.add(k)
            scns.append(ln)
    fd, path = tempfile.mkstemp(prefix="combine_scn_", suffix=".json")
    try:
        with os.fdopen(fd, "w") as f:
            json.dump(scns, f)
        cf = dict(c, Mode="file", ScnPath=path)
        res = tlc.run("OpsCombine", tlc.cfg_text(cf, invariants=MODEL_INVS + ["Export"]), workers=1, timeout=timeout,
                      xmx="3g", allow_violation=False)
    finally:
        os.unlink(path)
    with _LOCK:
        ck.add_tlc(res, f"{label} all tie orders of {len(scns)} drawn scenarios")
    return res.lines


def _perm_orders(n: int) -> List[List[int]]:
    ident = list(range(n))
    outs = [ident, ident[::-1]]
    if n >= 3:
        outs.append(ident[1:] + ident[:1])
    return [o for j, o in enumerate(outs) if o not in outs[:j]]


def variants_for(scn, level: int = 1, sched: str = "test", profile: str = "plain") -> List[Dict[str, Any]]:
    """The real-code variants one scenario is replayed under.  Both tie orders are driven: hot sources
    fire in creation order at one instant (identity and reversed creation order), cold ones in the
    operator's subscription order, hot before cold.  level 0: 2 variants, 1: 4, 2: more."""
    n = scn["n"]
    h = sum(map(ord, json.dumps(scn, sort_keys=True)))
    # creation / subscription order only matters when two lanes (or a lane and the dispose) share an instant
    inst = [sorted({e["t"] for e in l}) for l in scn["lanes"]] + [[scn["dsp"]]]
    flat = [t for l in inst for t in l]
    if len(flat) == len(set(flat)) and level == 1:
        level = 0
    forms = ["static", "pipe"] if scn["op"] in CORE_OPS else ["pipe"]
    orders = _perm_orders(n)
    tmaps = ["spread", "tight", "wide"]
    out = []

    def add(kinds, order, form, tmap, dfirst):
        v = dict(kinds=list(kinds), order=order, form=form, tmap=tmap, profile=profile, salt=h % 2, sched=sched,
                 dfirst=dfirst)
        if v not in out:
            out.append(v)
    add("h" * n, orders[0], forms[h % len(forms)], tmaps[h % 3], True)
    add("c" * n, orders[0], forms[(h + 1) % len(forms)], tmaps[(h + 1) % 3], False)
    if level >= 1:
        add("h" * n, orders[-1], forms[(h + 1) % len(forms)], tmaps[(h + 2) % 3], False)
        mixed = "".join("hc"[(i + h) % 2] for i in range(n))
        add(mixed, orders[h % len(orders)], forms[h % len(forms)], tmaps[h % 3], bool(h % 2))
        if any(scn["lanes"][i] == scn["lanes"][j] and scn["lanes"][i] for j in range(n) for i in range(j)):
            # identical non-empty timelines: also as one observable passed twice (zip(xs, xs))
            out.append(dict(kinds=list("hc"[h % 2] * n), order=orders[0], form=forms[h % len(forms)], tmap=tmaps[h % 3],
                            profile=profile, salt=h % 2, sched=sched, dfirst=bool(h % 2), share=True))
    if level >= 2:
        for o in orders:
            for f in forms + (["fluent"] if level >= 3 else []):
                add("h" * n, o, f, tmaps[(h + len(out)) % 3], bool(len(out) % 2))
        add("c" * n, orders[0], forms[h % len(forms)], tmaps[h % 3], True)
        mixed2 = "".join("ch"[(i + h) % 2] for i in range(n))
        add(mixed2, orders[-1], forms[(h + 1) % len(forms)], tmaps[(h + 1) % 3], bool((h + 1) % 2))
    return out


def _job(args):
    scn, allowed, vs = args
    ran, fails = 0, []
    for v in vs:
        f = judge(scn, allowed, v)
        if f == "n/a":
            continue
        ran += 1
        if f:
            fails.append(f)
    return ran, fails


_SHARED: Dict[str, Any] = {}     # the variant function, inherited by forked workers


def _shard_job(path):
    with open(path) as f:
        groups = json.load(f)
    vfn = _SHARED["vfn"]
    ran, fails = 0, []
    for scn, allowed in groups:
        r, fl = _job((scn, allowed, vfn(scn)))
        ran += r
        fails += fl
    return ran, fails


def replay_groups(ck, groups, vfn, procs=4, serial_below=60000) -> int:
    """Replays every scenario under the variants vfn(scn).  Small sets are replayed in-process (about
    0.3 ms per real run; on this box a fork pool was SLOWER than that up to ~50k runs: pickling the jobs, or
    copy-on-write of the inherited scenario list, dominates).  Large sets are written to one JSON shard per
    worker; each forked worker loads its own shard."""
    import multiprocessing as mp
    import tempfile
    _SHARED["vfn"] = vfn
    try:
        if procs <= 1 or len(groups) < serial_below:
            results = [_job((scn, allowed, vfn(scn))) for scn, allowed in groups]
        else:
            tmp = tempfile.mkdtemp(prefix="combine_shards_")
            try:
                nsh = procs * 4
                paths = []
                for k in range(nsh):
                    path = os.path.join(tmp, f"shard{k}.json")
                    with open(path, "w") as f:
                        json.dump(groups[k::nsh], f)
                    paths.append(path)
                with mp.get_context("fork").Pool(procs) as pool:
                    results = pool.map(_shard_job, paths, chunksize=1)
            finally:
                import shutil
                shutil.rmtree(tmp, ignore_errors=True)
    finally:
        _SHARED.clear()
    total = 0
    with _LOCK:
        for ran, fails in results:
            total += ran
            for f in fails:
                ck.fail(f)
        ck.impl += total
    return total


def nontrivial(scn, allowed) -> bool:
    """the scenario has a tie between lanes or a completion window (more than one allowed
    observation), or its result carries at least one element"""
    return len(allowed) > 1 or any(e["k"] == "N" for a in allowed for e in a["out"])


def generic_replay(rec) -> int:
    f = judge(rec["scn"], rec["expected"], rec["var"])
    print(json.dumps(f, default=str)[:3000] if f else "replay: observation allowed by the spec")
    return 1 if f else 0


# ---- entry point for the C06 extension ------------------------------------------------------------------
def sequence_equal_observable(ck, tier: str, procs: int = 1) -> Dict[str, int]:
    """sequence_equal with an OBSERVABLE second argument, judged by OpsCombine.tla (two lanes of value
    tokens, every comparer code, every tie order).  Adds its TLC runs, replays and failures to `ck`
    (a core.Check of any property, e.g. C06) and returns counts.  Failure records carry
    engine='combine', op='sequence_equal'."""
    from harness import core
    if tier == "quick":
        c = dict(preset("seqeq_quick"), Faults=True)     # two families, about 5k scenarios / 30k states
    else:
        c = consts(["sequence_equal"], {2}, 2, 2, nvals=2, faults=True)      # about 21k scenarios
    lines = export_runs(ck, [("sequence_equal(observable) " + json.dumps({k: sorted(v) if isinstance(v, set) else v for k, v in c.items()}), c)])
    groups = core.group_allowed(lines)
    def vfn(s):
        h = sum(map(ord, json.dumps(s, sort_keys=True)))
        return variants_for(s, 1) + variants_for(s, 0, profile="falsy")[h % 2:][:1]
    ran = replay_groups(ck, groups, vfn, procs=procs)
    return {"scenarios": len(groups), "replayed": ran,
            "nontrivial": sum(1 for g in groups if len(g[1]) > 1 or any(e["k"] == "N" and e["v"] == 0 for a in g[1] for e in a["out"]))}
