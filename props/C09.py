"""C09 - exceptions raised by user callbacks are delivered as on_error (Ops1.tla with Faults = TRUE:
function tables contain RAISE; the transducers' Raises branch emits E, stops and releases)."""
from harness import core
from props import ops1_common as oc
from props import lifecycle_common as lc
from props import ops1_ext as ox

META = {
    "technique": "TLC-enumerated fault positions (function tables with RAISE entries) of Ops1.tla transducers replayed over hot, cold and Subject drivers; escape, late-callback and release checks",
    "level": "For every operator of Ops1.tla that takes a user function (mapper, predicate, key selector, comparer, accumulator) TLC enumerates every table in which any subset of arguments raises, together with every short timeline, and exports the expected stream: on_error at the instant of the element whose processing raised, nothing after it, source released at that instant (Grammar/Released checked in the model). Each scenario runs on the real operator with a hot test observable, a cold one and a Subject driven directly by the harness (whose emitters do not catch): an exception that propagates into the emitter or the scheduler, a missing or late on_error, a later invocation of the function, or a source left subscribed is a violation. For every other operator with a user function (mappers to inner observables, duration / closing selectors, conditions, factories: about 60 more), alone and in compositions of depth 2-3, the k-th invocation of a user function raises and the recorded execution is validated by TLC against the Lifecycle.tla monitor: the exception must not propagate into the emitter or scheduler, the grammar and release guards keep applying, and once time has passed after the fault no user function of the pipeline runs again (unless the pipeline contains a resubscribe-on-error operator).",
    "note": "TLC 1.8; codec of props/ops1_common.py; comparers raise on every call (code 4), accumulators on the last token",
    "ref": "DESIGN.md 6 C09",
}

FAULT_OPS = [["map", "starmap", "map_indexed", "filter", "filter_indexed"],
             ["take_while", "take_while_indexed", "skip_while", "skip_while_indexed", "find", "find_index"],
             ["distinct", "distinct_until_changed", "contains_cmp", "sequence_equal_iter"],
             ["reduce", "reduce_seed", "scan", "scan_seed", "count_p", "sum_key", "average_key"],
             ["min_by", "max_by", "to_dict", "all", "some_p"],
             ["first_p", "last_p", "single_p", "first_or_default_p", "last_or_default_p", "single_or_default_p"]]


def variants(scn):
    s = len(str(scn)) % 2
    return [dict(mode="fault", driver="hot", tmap="spread", profile="plain", k=K[0], salt=s),
            dict(mode="fault", driver="cold", tmap="bunched", profile="plain", k=K[0], salt=1 - s),
            dict(mode="fault", driver="subject", tmap="spread", profile="plain", k=K[0], salt=s)]


K = [2]


def run(tier):
    ck = core.Check("C09", tier)
    k, n = (2, 3) if tier == "quick" else (3, 3)
    K[0] = k
    consts = dict(NVals=k, MaxLen=n, Terms={"C", "U"}, Disposes=False, Faults=True, IdentSrc=False)
    groups = oc.export_groups(ck, FAULT_OPS, consts, "export(faults)")
    faulty = [g for g in groups if oc._has_fault(g[0], k)]
    ck.exhaustive = True
    ck.rule = (f"every function table over {k} tokens in which any subset of arguments raises (comparer/accumulator fault codes) x every "
               f"timeline of length 0..{n} x 38 operators with user functions; hot, cold and Subject drivers; non-trivial = the "
               "expected stream ends in the injected error (the fault is actually reached)")
    ox.replay_groups(ck, faulty, variants)
    # operator-agnostic part: the k-th invocation of any user function of a catalogue pipeline raises
    per_op, nd = (8, 900) if tier == "quick" else (60, 10000)
    st = {"single": lc.validate(ck, "C09", lc.specs_single(ck.seed + 41, per_op, fault=True), "catalogue operators alone, fault"),
          "depth2": lc.validate(ck, "C09", lc.specs_depth(ck.seed + 42, nd, 2, fault=True), "depth 2, fault"),
          "depth3": lc.validate(ck, "C09", lc.specs_depth(ck.seed + 43, nd, 3, fault=True), "depth 3, fault"),
          # the injected exception also is a StopIteration: must not be mistaken for the end of an iterator the operator advances
          "stop": lc.validate(ck, "C09", lc.specs_single(ck.seed + 44, per_op, fault="stop") + lc.specs_depth(ck.seed + 45, nd // 2, 2, fault="stop"),
                              "alone and depth 2, the raised exception is a StopIteration subclass")}
    ck.note("pipeline_runs", st)
    ck.nontrivial = sum(1 for g in faulty if any(e["k"] == "E" and e["e"] == "fn" for e in g[1][0]["out"])) + sum(v["validated"] for v in st.values())
    ck.note("scenarios_with_a_raising_entry", len(faulty))
    ck.note("operators", sorted({g[0]["op"] for g in faulty}))
    for g in [g for g in faulty if any(e["k"] == "E" for e in g[1][0]["out"])][:: max(1, len(faulty) // 5)][:5]:
        ck.sample({"scn": g[0], "allowed": g[1]})
    ck.assumptions = ["TestScheduler runs actions in due order (C28)", "the Subject driver calls on_next directly: an escaping exception is seen at the call"]
    return ck.finish()


def replay(rec):
    if rec.get("engine") == "lifecycle":
        return lc.replay(rec)
    return ox.generic_replay(rec)
