"""C30: trampoline / current-thread scheduling against spec/Trampoline.tla.

Binding A (one thread): TLC enumerates programs (trees of nested schedule / schedule_relative /
schedule_absolute / cancel / sleep calls) lazily, executes them on the abstract trampoline with a
discrete-event clock and exports the run log (item, clock at start, nesting depth) and, per
top-level command, the clock and the number of actions run when it returned.  The program is
performed on TrampolineScheduler(), CurrentThreadScheduler() and CurrentThreadScheduler.singleton()
with `default_now` and the trampoline's Condition tied to a controlled clock (nothing sleeps);
programs without any choice in the model (amb = false) must be reproduced exactly, the others are
recorded as traces and judged by TrampolineTrace.tla like the concurrent ones.

Binding C+B (two/three threads): TLC generates concurrent programs (one command list per thread,
bodies per item; schedulers: 1 = a shared TrampolineScheduler instance, 2 = a shared
CurrentThreadScheduler() instance, 3 = the thread singleton); each is run on the real schedulers for
every DetSched schedule up to the preemption bound (+ seeded random schedules) and the recorded
call / ret / start / end traces are validated in batch against TrampolineTrace.tla.

Python holds only the codec: command tokens <-> scheduler calls, seconds <-> ticks."""
from __future__ import annotations

import contextlib
import json
import logging
import random
import threading
from datetime import datetime, timedelta, timezone
from typing import Any, Dict, List, Optional, Tuple

from harness import core, detsched, shims, tlc, tracecheck

EPOCH = datetime(2020, 1, 1, tzinfo=timezone.utc)
MODEL_INVS = ["TypeOK", "NoNesting", "Serial", "SameThread", "OwnTrampoline", "NotEarly", "CancelledNeverRuns",
              "RunOnce", "Order", "AllRun"]
TRACE_INVS = ["NoNesting", "Serial", "SameThread", "OwnTrampoline", "NotEarly", "CancelledNeverRuns", "RunOnce", "Order",
              "AllRunAtEnd"]
FOCUS = ("reactivex/scheduler/trampoline.py", "reactivex/scheduler/currentthreadscheduler.py")
FOCUS_WIDE = FOCUS + ("reactivex/scheduler/trampolinescheduler.py", "reactivex/scheduler/scheduleditem.py")
SOLO_KINDS = ("trampoline", "currentthread", "singleton")
TRACE_CONSTS = dict(Threads={1, 2, 3}, SharedS={1}, LocalS={2, 3}, MaxItems=12, MaxCmds=0, MaxBody=99, RelD={0}, AbsT={0},
                    SleepD={1}, NegRel=False, ClockMode="trace", MaxClock=0, Record=False, Req=False)

logging.getLogger("Rx").setLevel(logging.ERROR)   # "Do not schedule blocking work!" for every timed item


class Hang(BaseException):
    pass


# ---- controlled clock for ONE thread (Binding A): nothing sleeps, waiting moves the clock ---------------------
class _Solo:
    t = 0.0
    polls = 0
    waits = 0
    limit = 20000


SOLO = _Solo()


def solo_now():
    SOLO.polls += 1
    if SOLO.polls > SOLO.limit:     # a drain loop that spins without the clock moving
        raise Hang("clock polled %d times" % SOLO.polls)
    return EPOCH + timedelta(seconds=SOLO.t)


class SoloCondition:
    """threading.Condition for a single thread on the controlled clock: wait(t) is the passage of t seconds"""

    def __init__(self, lock=None):
        self._lock = lock if lock is not None else threading.RLock()
        self.acquire = self._lock.acquire
        self.release = self._lock.release

    def __enter__(self):
        return self._lock.__enter__()

    def __exit__(self, *a):
        return self._lock.__exit__(*a)

    def wait(self, timeout=None):
        if timeout is None:
            raise Hang("untimed wait with a single thread")
        SOLO.waits += 1
        SOLO.t += max(0.0, float(timeout))
        return False

    def notify(self, n=1):
        pass

    def notify_all(self):
        pass


SOLO_PATCH = {"reactivex.scheduler.trampoline": {"Condition": SoloCondition},
              "reactivex.scheduler.scheduler": {"default_now": solo_now}}
DET_PATCH = {"reactivex.scheduler.trampoline": {"Condition": shims.Condition, "Lock": shims.Lock},
             "reactivex.scheduler.scheduler": {"default_now": shims.now}}


def _tick(x: float):
    r = round(x, 6)
    return int(r) if r == int(r) else r


# ---- the codec: scheduler ids and command tokens ---------------------------------------------------------------
class Rig:
    """The real schedulers of one execution and the interpreter of program commands.
    sched_of(s) -> scheduler object for model scheduler id s (evaluated on the calling thread)."""

    def __init__(self, sched_of, now_ticks, sleep, log=None, strict_ids: bool = False):
        self.sched_of, self.now_ticks, self.sleep, self.log = sched_of, now_ticks, sleep, log
        self.disp: Dict[int, Any] = {}      # item name -> disposable (once its schedule call returned)
        self.gid: Dict[int, int] = {}       # item name -> id in the trace (global call order)
        self.count = 0
        self.ran: List[Dict[str, Any]] = []
        self.reqs: List[int] = []
        self.depth = threading.local()
        self.problems: List[str] = []
        self.strict_ids = strict_ids
        self.body: Dict[int, List[Dict[str, Any]]] = {}

    def do(self, cmd: Dict[str, Any]) -> None:
        c, s, a, b = cmd["c"], cmd["s"], cmd["a"], cmd["b"]
        if c in ("imm", "rel", "reln", "abs"):
            sch = self.sched_of(s)
            self.count += 1
            g = self.count
            self.gid[b] = g
            if self.strict_ids and g != b:
                self.problems.append(f"creation order: item {b} created as number {g}")
            act = self.make_action(b, g)
            if self.log:
                self.log(e="call", op=c, s=s, a=a, id=g)
            if c == "imm":
                d = sch.schedule(act)
            elif c == "rel":
                d = sch.schedule_relative(timedelta(seconds=a) if (b % 2) else float(a), act)
            elif c == "reln":
                d = sch.schedule_relative(-float(a), act)
            else:
                d = sch.schedule_absolute(EPOCH + timedelta(seconds=a), act)
            if self.log:
                self.log(e="ret", res=2)
            self.disp[b] = d    # only now is the disposable in the client's hands
        elif c == "cancel":
            d = self.disp.get(a)
            if d is None:       # concurrent programs: the schedule call has not returned (yet) in this schedule
                return
            if self.log:
                self.log(e="call", op="cancel", s=0, a=self.gid[a], id=0)
            d.dispose()
            if self.log:
                self.log(e="ret", res=2)
        elif c == "req":
            sch = self.sched_of(s)
            if self.log:
                self.log(e="call", op="req", s=s, a=0, id=0)
            r = 1 if sch.schedule_required() else 0
            self.reqs.append(r)
            if self.log:
                self.log(e="ret", res=r)
        elif c == "sleep":
            self.sleep(float(a))
        else:
            raise ValueError(c)

    def make_action(self, name: int, g: int):
        def action(scheduler, state=None):
            dep = getattr(self.depth, "v", 0)
            self.ran.append({"id": name, "clk": self.now_ticks(), "depth": dep})
            if self.log:
                self.log(e="start", id=g)
            self.depth.v = dep + 1
            try:
                for cmd in self.body.get(name, ()):
                    self.do(cmd)
            finally:
                self.depth.v = dep
            if self.log:
                self.log(e="end", id=g)
            return None
        return action


def _solo_scheds(kind: str):
    from reactivex.scheduler import CurrentThreadScheduler, TrampolineScheduler
    if kind == "trampoline":
        inst = {}
        return lambda s: inst.setdefault(s, TrampolineScheduler())
    if kind == "currentthread":
        inst = {}
        return lambda s: inst.setdefault(s, CurrentThreadScheduler())
    if kind == "singleton":
        return lambda s: CurrentThreadScheduler.singleton()
    if kind == "mixed":      # 1 = TrampolineScheduler, 2 = CurrentThreadScheduler(), 3 = singleton
        inst = {}

        def of(s):
            if s == 1:
                return inst.setdefault(1, TrampolineScheduler())
            if s == 2:
                return inst.setdefault(2, CurrentThreadScheduler())
            return CurrentThreadScheduler.singleton()
        return of
    raise ValueError(kind)


@contextlib.contextmanager
def _fresh_singleton_trampoline():
    """The thread-singleton's trampoline of the importing thread was built at import time, i.e. with the real
    threading.Condition: give this thread a trampoline built under the patch (and put the old one back)."""
    from reactivex.scheduler.currentthreadscheduler import CurrentThreadSchedulerSingleton
    from reactivex.scheduler.trampoline import Trampoline
    import threading
    from reactivex.scheduler.currentthreadscheduler import CurrentThreadScheduler
    loc = CurrentThreadSchedulerSingleton._local
    old = loc.tramp
    loc.tramp = Trampoline()
    # the per-thread singleton INSTANCES of this thread are dropped too (and put back afterwards): an implementation
    # that remembers its thread's trampoline on the instance must not be handed an instance made before the swap
    me, saved = threading.current_thread(), []
    for class_map in list(getattr(CurrentThreadScheduler, "_global", {}).values()):
        try:
            if me in class_map:
                saved.append((class_map, class_map.pop(me)))
        except TypeError:
            pass
    try:
        yield
    finally:
        loc.tramp = old
        for class_map, inst in saved:
            class_map[me] = inst


def perform_solo(scn: Dict[str, Any], kind: str, trace: bool = False) -> Dict[str, Any]:
    """One thread, controlled clock.  Returns the observation {ran, tops} (+ trace)."""
    SOLO.t, SOLO.polls, SOLO.waits = 0.0, 0, 0
    events: List[Dict[str, Any]] = []

    def log(**ev):
        ev["th"] = 1
        ev["clk"] = _tick(SOLO.t)
        events.append(ev)

    def sleep(d):
        SOLO.t += d
    tops: List[Any] = []
    out: Dict[str, Any] = {}
    with shims.patched(extra=SOLO_PATCH, only=list(SOLO_PATCH)), _fresh_singleton_trampoline():
        rig = Rig(_solo_scheds(kind), lambda: _tick(SOLO.t), sleep, log if trace else None, strict_ids=not trace)
        rig.body = {i + 1: b for i, b in enumerate(scn["body"])}
        try:
            for cmd in scn["top"][0]:
                rig.do(cmd)
                tops.append([_tick(SOLO.t), len(rig.ran)])
        except Hang as e:
            out["hang"] = str(e)
            events.append({"e": "hang", "th": 1, "clk": _tick(SOLO.t)})
        except Exception as e:  # noqa: BLE001 - an exception escaping a scheduler call is an observation
            out["raised"] = type(e).__name__ + ": " + str(e)[:200]
            events.append({"e": "raised", "th": 1, "clk": _tick(SOLO.t)})
    out.update(ran=rig.ran, tops=[tops], reqs=rig.reqs, problems=rig.problems, waits=SOLO.waits)
    if trace:
        out["trace"] = events
    return out


def judge_solo(args) -> List[Dict[str, Any]]:
    """Binding A for one exported behaviour without choice: exact reproduction on every scheduler kind."""
    scn, obs, kinds = args
    fails = []
    for kind in kinds:
        got = perform_solo(scn, kind)
        if got.get("hang") or got.get("raised") or got["problems"] or got["ran"] != obs["ran"] or got["tops"] != obs["tops"] \
                or got["reqs"] != obs["reqs"]:
            exp_ids = [r["id"] for r in obs["ran"]]
            got_ids = [r["id"] for r in got["ran"]]
            exp_dep = [r["depth"] for r in obs["ran"]]
            got_dep = [r["depth"] for r in got["ran"]]
            if got.get("hang"):
                failure = "hang"
            elif got.get("raised"):
                failure = "raised"
            elif sorted(exp_ids) != sorted(got_ids):
                failure = "extra_run" if set(got_ids) - set(exp_ids) else "missing_run"
            elif exp_ids != got_ids:
                failure = "order"
            elif exp_dep != got_dep:
                failure = "nesting"
            elif got["ran"] != obs["ran"]:
                failure = "clock_at_start"
            elif got["tops"] != obs["tops"]:
                failure = "return_point"
            elif got["reqs"] != obs["reqs"]:
                failure = "schedule_required"
            else:
                failure = "creation_order"
            fails.append({"engine": "tramp-solo", "sched": kind, "scn": scn, "expected": obs, "observed": got,
                          "failure": failure, "cmds": sorted({c["c"] for c in scn["top"][0]} | {c["c"] for b in scn["body"] for c in b})})
    return fails


def trace_solo(args) -> List[Any]:
    scn, kinds = args
    return [(kind, perform_solo(scn, kind, trace=True)["trace"]) for kind in kinds]


# ---- Binding C+B: concurrent programs under DetSched ---------------------------------------------------------------
def _conc_scheds(variant: str):
    """1 = one TrampolineScheduler instance shared by all threads, 2 = one CurrentThreadScheduler() instance shared by
    all threads (per-thread trampolines), 3 = the thread singleton (variant "passed": the instance obtained on the
    set-up thread is handed to the worker threads - documented to behave as if created by the thread using it)."""
    from reactivex.scheduler import CurrentThreadScheduler, TrampolineScheduler
    shared = TrampolineScheduler()
    cts = CurrentThreadScheduler()
    passed = CurrentThreadScheduler.singleton()

    def of(s):
        if s == 1:
            return shared
        if s == 2:
            return cts
        return passed if variant == "passed" else CurrentThreadScheduler.singleton()
    return of


def explore_program(args) -> Dict[str, Any]:
    """All schedules (up to the bound) of one concurrent program; distinct traces with multiplicities."""
    prog, variant, bound, max_sched, nrandom, seed = args
    traces: Dict[str, List[Any]] = {}
    stats = {"executions": 0, "deadlocks": 0, "steplimit": 0, "thread_exc": 0, "clock_waits": 0}

    def run_one(choose):
        def build(ds):
            def log(**ev):
                t = ds.me()
                ev["th"] = int(t.name[1:]) if t is not None else 0
                ev["clk"] = _tick(ds.clock)
                ds.trace.append(ev)
            rig = Rig(_conc_scheds(variant), lambda: _tick(ds.clock), shims.sleep, log)
            rig.body = {i + 1: b for i, b in enumerate(prog["body"])}
            for k, cmds in enumerate(prog["top"], start=1):
                if not cmds:
                    continue

                def body(cmds=cmds):
                    for cmd in cmds:
                        rig.do(cmd)
                ds.spawn(f"T{k}", body)
        return shims.run_execution(build, choose, focus=FOCUS, max_steps=6000)

    # the set-up thread's singleton trampoline dates from import time (real Lock/Condition): should a changed tree share
    # it between threads it must at least be a cooperative one, or the logical threads block for real
    def single_preemptions():
        """The schedules with exactly one preemption, spread evenly over the run when there are more than the cap
        (the shared Explorer's DFS visits deviations at the earliest decisions first and is cut off by the cap)."""
        def chooser(k, alt, first):
            pos = [0]

            def choose(en, cur, can_preempt):
                i = pos[0]
                pos[0] += 1
                if i == k and cur in en and can_preempt:
                    others = [e for e in en if e != cur]
                    return others[alt % len(others)]
                if cur in en:
                    return cur
                return en[first % len(en)]      # which thread goes first / next when the current one is done or blocked
            return choose
        nthreads = sum(1 for t in prog["top"] if t)
        per = max(4, max_sched // nthreads)
        for first in range(nthreads):
            base = run_one(chooser(-1, 0, first))
            yield base
            pts = [i for i, (en, pick, cur, can) in enumerate(base.decisions) if cur != -1 and can]
            if len(pts) > per:
                step = len(pts) / float(per)
                pts = sorted({pts[min(len(pts) - 1, int(j * step))] for j in range(per)} | set(pts[-3:]))
                stats["single_preemption_points_sampled"] = 1
            for n_, k in enumerate(pts):
                yield run_one(chooser(k, n_, first))

    with shims.patched(extra=DET_PATCH), _fresh_singleton_trampoline():
        truncated = False
        gens = [single_preemptions()]
        if bound > 1:
            ex = detsched.Explorer(bound=bound, max_schedules=max_sched, random_schedules=nrandom, seed=seed)
            gens.append(ex.explore(run_one))
        else:
            ex = None
        for gen in gens:
            for ds in gen:
                stats["executions"] += 1
                tr = list(ds.trace)
                if ds.deadlocked:
                    stats["deadlocks"] += 1
                    tr.append({"e": "deadlock", "th": 0, "clk": _tick(ds.clock)})
                if ds.step_limit_hit:
                    stats["steplimit"] += 1
                    tr.append({"e": "steplimit", "th": 0, "clk": _tick(ds.clock)})
                for t in ds.threads:
                    if t.exc is not None:
                        stats["thread_exc"] += 1
                        tr.append({"e": "exc", "th": 0, "clk": _tick(ds.clock), "what": repr(t.exc)[:200]})
                if ds.clock > 0:
                    stats["clock_waits"] += 1
                key = json.dumps(tr, sort_keys=True)
                if key not in traces:
                    traces[key] = [tr, 0, [d[1] for d in ds.decisions]]
                traces[key][1] += 1
        truncated = bool(ex is not None and ex.truncated) or bool(stats.get("single_preemption_points_sampled"))
    return {"prog": prog, "variant": variant, "traces": list(traces.values()), "stats": stats, "truncated": truncated}


def classify(trace: List[Dict[str, Any]], upto: int) -> Dict[str, Any]:
    """Describe where a trace was rejected (witness fields for known-finding matches; no verdicts here)."""
    nxt = trace[upto] if upto < len(trace) else {"e": "end_of_trace"}
    sched_of_item = {e["id"]: e["s"] for e in trace if e["e"] == "call" and e["op"] != "cancel"}
    caller = {e["id"]: e["th"] for e in trace if e["e"] == "call" and e["op"] != "cancel"}
    started = {e["id"] for e in trace if e["e"] == "start"}
    cancelled = {e["a"] for e in trace if e["e"] == "call" and e["op"] == "cancel"}
    never = sorted(i for i in sched_of_item if i not in started and i not in cancelled)
    kind = nxt["e"]
    if kind == "ret":
        failure = "returned_with_work_pending"
    elif kind == "start":
        i = nxt.get("id")
        failure = "start_on_foreign_thread" if sched_of_item.get(i) in (2, 3) and caller.get(i) != nxt["th"] else "start_not_allowed"
    elif kind == "end_of_trace":
        failure = "lost_action" if never else "not_quiet_at_end"
    else:
        failure = kind
    return {"failure": failure, "next_event": nxt, "never_started": never,
            "never_started_scheds": sorted({sched_of_item[i] for i in never}),
            "threads": len({e["th"] for e in trace if e["th"]})}


def validate_traces(ck, items: List[Tuple[List[Any], Dict[str, Any]]], label: str, chunk: int = 400) -> int:
    """items = [(trace, context record)]; rejected traces are reported through ck.fail.  Returns #distinct traces."""
    if not items:
        return 0
    batch = [t for t, _ in items]
    consts = dict(TRACE_CONSTS)
    consts["MaxItems"] = max(4, max((e.get("id", 0) for t in batch for e in t), default=0))
    chunks = [list(range(i, min(i + chunk, len(batch)))) for i in range(0, len(batch), chunk)]

    def one(idx):
        return tracecheck.validate("TrampolineTrace", consts, [batch[i] for i in idx], invariants=TRACE_INVS, timeout=900, chunk=chunk)
    from concurrent.futures import ThreadPoolExecutor
    with ThreadPoolExecutor(4) as ex:
        outs = list(ex.map(one, chunks))
    for idx, (rejected, ress) in zip(chunks, outs):
        for r in ress:
            ck.add_tlc(r, f"trace validation {label} ({len(idx)} traces)")
        for (j, upto) in rejected:
            tr, ctx = items[idx[j]]
            rec = {"engine": "tramp-trace", "source": ctx.get("source_kind", label)}
            rec.update(classify(tr, upto))
            rec.update(ctx)
            rec.update({"trace": tr, "rejected_at": upto})
            ck.fail(rec)
    return len(batch)


# ---- directed concurrent programs (inputs only; the oracle is TrampolineTrace.tla) ---------------------------------------
def _c(c, s=0, a=0, b=0):
    return {"c": c, "s": s, "a": a, "b": b}


def directed_programs(nthreads: int = 2) -> List[Dict[str, Any]]:
    """Shapes the statement names: two threads on the same shared TrampolineScheduler (who drains, nothing lost),
    a timed item on one thread while the other schedules (wake-up), cross-thread cancellation of a pending timed
    item, both threads on the current-thread schedulers (independence), nested scheduling."""
    P = []

    def prog(tops, body):
        n = max([c["b"] for t in tops for c in t] + [c["b"] for b in body.values() for c in b])
        P.append({"top": tops + [[] for _ in range(nthreads - len(tops))], "body": [body.get(i, []) for i in range(1, n + 1)], "n": n})
    for s in (1, 2, 3):
        # both threads schedule immediately; the first action schedules a nested one
        prog([[_c("imm", s, 0, 1)], [_c("imm", s, 0, 2)]], {1: [_c("imm", s, 0, 3)]})
        # a timed item on T1, T2 schedules immediately (and one nested relative item)
        prog([[_c("rel", s, 2, 1)], [_c("imm", s, 0, 2)]], {2: [_c("rel", s, 1, 3)]})
        # T1: nested timed item, cancelled by T2 (if its disposable is out by then); T2 also schedules
        prog([[_c("imm", s, 0, 1)], [_c("cancel", 0, 2, 0), _c("imm", s, 0, 3), _c("cancel", 0, 2, 0)]],
             {1: [_c("rel", s, 2, 2)]})
        # two items each, FIFO per trampoline
        prog([[_c("imm", s, 0, 1), _c("imm", s, 0, 2)], [_c("imm", s, 0, 3), _c("rel", s, 1, 4)]],
             {1: [_c("imm", s, 0, 5)], 3: [_c("imm", s, 0, 6)]})
    # mixed: T1 on the shared trampoline, T2 on the singleton, each reaching into the other scheduler from an action
    prog([[_c("imm", 1, 0, 1)], [_c("imm", 3, 0, 2)]], {1: [_c("imm", 3, 0, 3)], 2: [_c("imm", 1, 0, 4)]})
    prog([[_c("imm", 2, 0, 1)], [_c("imm", 2, 0, 2)]], {1: [_c("imm", 1, 0, 3), _c("rel", 2, 1, 4)], 2: [_c("imm", 1, 0, 5)]})
    if nthreads == 3:
        prog([[_c("imm", 1, 0, 1)], [_c("imm", 1, 0, 2)], [_c("imm", 1, 0, 3)]], {1: [_c("imm", 1, 0, 4)]})
        prog([[_c("imm", 3, 0, 1)], [_c("imm", 2, 0, 2)], [_c("rel", 1, 1, 3), _c("imm", 3, 0, 4)]], {2: [_c("imm", 1, 0, 5)]})
    return P


def corrupt(traces: List[List[Dict[str, Any]]], seed: int) -> List[Tuple[List[Dict[str, Any]], str]]:
    """Binding self-test: small corruptions of accepted traces that the trace spec must reject:
    an action that never ran (start/end pair dropped), an action started before its schedule call,
    an action started inside another action of the same scheduler call chain (end moved after the next start)."""
    import copy
    rnd = random.Random(seed)
    out = []
    for t in traces:
        # only actions whose item is never the target of a cancel call: with such a call somewhere in the trace a
        # corrupted copy (the run dropped, or moved) can coincide with a legal behaviour in which the cancel won
        cancelled = {e.get("id") for e in t if e["e"] == "call" and e.get("op") == "cancel"}
        starts = [i for i, e in enumerate(t) if e["e"] == "start" and e.get("id") not in cancelled]
        if not starts:
            continue
        k = rnd.choice(starts)
        x = t[k]["id"]
        out.append(([e for e in copy.deepcopy(t) if not (e["e"] in ("start", "end") and e.get("id") == x)], "dropped_action"))
        call = next(i for i, e in enumerate(t) if e["e"] == "call" and e.get("id") == x and e["op"] != "cancel")
        t2 = copy.deepcopy(t)
        ev = t2.pop(k)
        t2.insert(call, ev)
        out.append((t2, "start_before_schedule"))
        dup = copy.deepcopy(t)
        dup.insert(k + 1, dict(dup[k]))
        out.append((dup, "started_twice"))
    return out


def rerun_schedule(prog: Dict[str, Any], variant: str, decisions: List[int]) -> List[Dict[str, Any]]:
    """Re-execute one concurrent program on the tree under test, following a recorded list of scheduling decisions."""
    pos = [0]

    def choose(en, cur, can_preempt):
        i = pos[0]
        pos[0] += 1
        if i < len(decisions) and decisions[i] in en:
            return decisions[i]
        return cur if cur in en else en[0]
    out: Dict[str, Any] = {}

    def build(ds):
        def log(**ev):
            t = ds.me()
            ev["th"] = int(t.name[1:]) if t is not None else 0
            ev["clk"] = _tick(ds.clock)
            ds.trace.append(ev)
        rig = Rig(_conc_scheds(variant), lambda: _tick(ds.clock), shims.sleep, log)
        rig.body = {i + 1: b for i, b in enumerate(prog["body"])}
        for k, cmds in enumerate(prog["top"], start=1):
            if cmds:
                ds.spawn(f"T{k}", lambda cmds=cmds: [rig.do(c) for c in cmds])
    with shims.patched(extra=DET_PATCH), _fresh_singleton_trampoline():
        ds = shims.run_execution(build, choose, focus=FOCUS, max_steps=6000)
    tr = list(ds.trace)
    if ds.deadlocked:
        tr.append({"e": "deadlock", "th": 0, "clk": _tick(ds.clock)})
    if ds.step_limit_hit:
        tr.append({"e": "steplimit", "th": 0, "clk": _tick(ds.clock)})
    for t in ds.threads:
        if t.exc is not None:
            tr.append({"e": "exc", "th": 0, "clk": _tick(ds.clock), "what": repr(t.exc)[:200]})
    return tr
