"""C20 - see META.  Spec: spec/Subjects.tla (Kind = "subject"); Binding A, stepwise (props/subjects_common.py)."""
from props import subjects_common as sc


def run(tier):
    return sc.run_kind("C20", "subject", tier)


replay = sc.generic_replay

META = {'technique': 'TLC-enumerated call histories of Subjects.tla (Kind=subject; transducer checked against the '
              'recipient-set reference in the model) replayed stepwise on the real Subject',
 'level': 'Subjects.tla states the Subject twice (snapshot/turn-by-turn delivery machine, and Expected(o) = '
          'the notifications of the calls made while o was subscribed, in call order); TLC checks CallOrder, '
          'Broadcast, Silenced, LateTerminal, DisposedRaises and Grammar on every state of the bounded '
          'history space and exports every history (top-level script + per-receipt callback scripts) with '
          'its accepted observations; each is performed on the real Subject and the outcome of every call, '
          'the per-observer log lengths after every top-level call and the final logs must be accepted. '
          'Exhaustive up to the stated call budget, simulated beyond it. In addition adjacent calls of exported histories (subscribe vs an emitting call; AsyncSubject on_next vs on_completed) are issued on two threads under DetSched (preemption bound 2/3) and the outcome must be the exported outcome of one of the two sequential orders; dispose() from inside a callback is modelled with an open cut-off set.',
 'note': 'TLC 1.8; DetSched shims for the subject locks (a source line without a call is atomic); the call/value codec of props/subjects_common.py; single thread; subscribers attach '
         'through Observable.subscribe',
 'ref': 'DESIGN.md 6 C20, D.8'}
