"""C31 / C34 (bundle "evloop"): the thread-based real-time schedulers against EventLoop.tla / TimerSched.tla.

Binding C+B.  A scenario is a set of client scripts (schedule / schedule_relative / schedule_absolute /
cancel / scheduler.dispose / sleep), optionally with action bodies that call the scheduler again.  It is
run on the REAL scheduler under harness.fastsched.FastDetSched (DetSched decisions, inline controller) for
every schedule up to a preemption bound plus seeded random schedules, with the controlled clock standing
in for `default_now`, `Condition.wait(timeout)`, `Timer` and `Event.wait`.  Each execution yields one
totally ordered trace (call/ret, tstart/texit, start/end, final quiesce) which TLC validates in batch
against EventLoopTrace.tla (C31) or TimerSchedTrace.tla (C34): silent Lin / Commit / ExitL steps are
placed by TLC; the guards of the abstract object are the property.

Python holds no scheduler semantics: only the scenario scripts, the event recorder and labels for
rejected traces (the label is computed AFTER TLC rejected a trace and is used for reporting / known-finding
matching only).

`periodic_traces(kind, period, nticks, ...)` is exported for C35 (schedule_periodic on EventLoopScheduler /
NewThreadScheduler / ThreadPoolScheduler / TimeoutScheduler under the controlled clock)."""
from __future__ import annotations

import itertools
import json
import random
from typing import Any, Callable, Dict, List, Optional, Sequence, Tuple

from harness import core, detsched, fastsched, shims, tlc, tracecheck

FOCUS_EL = ("reactivex/scheduler/eventloopscheduler.py", "reactivex/scheduler/scheduleditem.py")
FOCUS_ALL = FOCUS_EL + ("reactivex/scheduler/newthreadscheduler.py", "reactivex/scheduler/threadpoolscheduler.py",
                        "reactivex/scheduler/timeoutscheduler.py")
EL_INVS = ["TypeOK", "Serial", "OneThread", "Fifo", "DueOrder", "CrossOrderTI", "CrossOrderIT", "NotEarly", "CancelledNeverRuns",
           "NoRunAfterDisposeReturned", "RefusedOnlyDisposed", "ThreadForPending"]
EL_TRACE_CONSTS = dict(Clients={0, 1, 2, 3}, Loops=set(range(11, 20)), Items=set(range(1, 7)), ExitModes={True, False},
                       MaxT=2000000000, MaxCalls=0, RelD={0}, AbsT={0}, InnerCalls=False)
TK = 9            # the time-keeper thread: sleeps to the horizon so that the controlled clock can advance
NAMES = {"main": 0, "T1": 1, "T2": 2, "T3": 3, "TK": TK}


def US(seconds: float) -> int:
    """seconds -> integer microseconds (trace time unit)"""
    return int(round(float(seconds) * 1000000))


def thid(name: str) -> int:
    if name in NAMES:
        return NAMES[name]
    return 10 + int(name[1:])        # W1 -> 11, W2 -> 12 ... (threads the library starts)


# ---- a cooperative ThreadPoolExecutor (patched into reactivex.scheduler.threadpoolscheduler) ---------------
class CoopFuture:
    def __init__(self):
        self.state = "pending"
        self.result_ = None
        self.exc_: Optional[BaseException] = None

    def cancel(self) -> bool:
        if self.state == "pending":
            self.state = "cancelled"
            return True
        return self.state == "cancelled"

    def cancelled(self) -> bool:
        return self.state == "cancelled"

    def done(self) -> bool:
        return self.state in ("cancelled", "done")


class CoopExecutor:
    """`max_workers` logical worker threads (started lazily, like concurrent.futures) serving a FIFO of tasks;
    idle workers wait on a cooperative condition.  max_workers=None means min(32, cpu + 4) in the stdlib -
    here 32: effectively one thread per task."""

    def __init__(self, max_workers: Optional[int] = None, **_kw):
        self.max_workers = 32 if max_workers is None else int(max_workers)
        self.cond = shims.Condition(shims.Lock())
        self.tasks: List[Tuple[CoopFuture, Callable, tuple, dict]] = []
        self.workers = 0
        self.idle = 0
        self.shut = False

    def submit(self, fn, *a, **k):
        fut = CoopFuture()
        with self.cond:
            if self.shut:
                raise RuntimeError("cannot schedule new futures after shutdown")
            self.tasks.append((fut, fn, a, k))
            if self.idle == 0 and self.workers < self.max_workers:
                self.workers += 1
                shims.Thread(target=self._worker, daemon=True).start()
            else:
                self.cond.notify()
        return fut

    def _worker(self):
        c = self.cond
        while True:
            c.acquire()                 # no `with`: a tear-down Abort raised inside wait() must not run a release
            while not self.tasks:
                if self.shut:
                    c.release()
                    return
                self.idle += 1
                c.wait()
                self.idle -= 1
            fut, fn, a, k = self.tasks.pop(0)
            c.release()
            if fut.state != "pending":
                continue
            fut.state = "running"
            try:
                fut.result_ = fn(*a, **k)
            except BaseException as e:  # noqa: BLE001
                if isinstance(e, detsched.Abort):
                    raise
                fut.exc_ = e
            fut.state = "done"

    def shutdown(self, wait=True, cancel_futures=False):
        with self.cond:
            self.shut = True
            self.cond.notify_all()


class EarlyCondition(shims.Condition):
    """"two clocks": Condition.wait measures its timeout on the monotonic clock, Scheduler.now is the wall clock.  Here a timed
    wait longer than `eps` expires `eps` EARLY on the controlled clock (which is what scheduler.now keeps reading), as happens
    when the wall clock runs slow or is stepped back during the wait.  Code that re-checks the due time against scheduler.now
    waits again - the remaining wait is <= eps and therefore exact, so there is progress - and starts the action on time;
    code that takes the expiry of the wait as proof that the item is due starts it `eps` early (NotEarly).
    harness/shims.py is untouched: this subclass only shortens the timeout it hands to shims.Condition.wait."""
    eps = 0.25

    def wait(self, timeout: Optional[float] = None):
        if timeout is not None and timeout > self.eps:
            timeout = timeout - self.eps
        return super().wait(timeout)


class _EarlyNS(shims._ThreadingNS):
    Condition = EarlyCondition


early_threading_ns = _EarlyNS()


def patches(early: bool = False) -> Dict[str, Dict[str, Any]]:
    """DESIGN Appendix B, checked against the imports of the pinned modules.  early=True: the two-clocks variant for the
    schedulers built on Condition.wait (EventLoop, and NewThread / ThreadPool through it).  threading.Timer stays exact: a
    TimeoutScheduler consults no clock but its timer, so an early timer is outside what its code could ever notice."""
    ns = early_threading_ns if early else shims.threading_ns
    return {
        "reactivex.scheduler.eventloopscheduler": {"threading": ns},                     # import threading
        "reactivex.scheduler.newthreadscheduler": {"threading": shims.threading_ns},     # import threading (Event)
        "reactivex.scheduler.timeoutscheduler": {"Timer": shims.Timer},                  # from threading import Lock, Timer
        "reactivex.scheduler.threadpoolscheduler": {"ThreadPoolExecutor": CoopExecutor},  # from concurrent.futures import ...
        "reactivex.scheduler.scheduler": {"default_now": shims.now},                     # from ...basic import default_now
    }


# ---- the rig: one real scheduler + recording actions ------------------------------------------------------------
class Rig:
    def __init__(self, ds, kind: str, exit_if_empty: bool = False, bodies: Optional[Dict[str, List[Any]]] = None,
                 max_workers: Optional[int] = None, log_threads: bool = True, scheds: int = 1,
                 owner: Optional[Dict[str, int]] = None, exits: Optional[List[bool]] = None):
        """`scheds` > 1 (eventloop only): several scheduler INSTANCES live in the same execution; item i belongs to instance
        owner[str(i)] (default 0).  Every event carries the instance `s` it belongs to - calls and actions by the item's owner,
        thread start / exit by the instance whose thread_factory created the thread - and each instance's events are validated
        as a trace of their own (instance_traces): an action of A gathered by B's loop thread shows up in A's trace as a start
        on a thread A never started."""
        import reactivex.scheduler as RS
        self.ds, self.kind = ds, kind
        self.bodies = bodies or {}
        self.owner = owner or {}
        self.handles: Dict[int, Any] = {}
        self.events: Dict[Any, Any] = {}
        rig = self

        def factory_for(idx):
            def factory(target):
                def body():
                    rig.log(e="tstart", s=idx)
                    target()                # an exception kills the thread (recorded as `exc`); Abort = tear-down
                    rig.log(e="texit", s=idx)
                return shims.Thread(target=body if log_threads else target, daemon=True)
            return factory

        exits = list(exits) if exits is not None else [bool(exit_if_empty)] * scheds
        if kind == "eventloop":
            self.SS = [RS.EventLoopScheduler(thread_factory=factory_for(k), exit_if_empty=exits[k]) for k in range(scheds)]
        elif kind == "newthread":
            self.SS = [RS.NewThreadScheduler(thread_factory=lambda target: shims.Thread(target=target, daemon=True))]
        elif kind == "threadpool":
            self.SS = [RS.ThreadPoolScheduler(max_workers=max_workers)]
        elif kind == "timeout":
            self.SS = [RS.TimeoutScheduler()]
        else:
            raise ValueError(kind)
        self.S = self.SS[0]
        for k in range(len(self.SS)):
            self.ds.trace.append({"e": "cfg", "th": 0, "t": 0, "s": k, "exit": bool(exits[k]) if kind == "eventloop" else False, "kind": kind})

    def sched_of(self, item: int) -> int:
        return int(self.owner.get(str(item), 0))

    def clk(self) -> int:
        """the controlled clock in MICROSECONDS (the resolution of the library's own datetime clock): every time in a trace is an
        exact integer, whatever fractions of a second the code under test chooses to wait"""
        return US(self.ds.clock)

    def log(self, **ev):
        t = self.ds.me()
        ev["th"] = thid(t.name if t else "main")
        ev["t"] = self.clk()
        self.ds.trace.append(ev)

    def action(self, i: int):
        def act(scheduler, state=None):
            self.log(e="start", item=i, s=self.sched_of(i))
            for op in self.bodies.get(str(i), ()):
                self.op(op)
            self.log(e="end", item=i, s=self.sched_of(i))       # not logged when the run is torn down (Abort) inside the body
            return None
        return act

    def periodic_action(self, i: int):
        """the action of schedule_periodic: every invocation is one run (start .. end) of item i"""
        def act(state=None):
            self.log(e="start", item=i, s=self.sched_of(i))
            for op in self.bodies.get(str(i), ()):
                self.op(op)
            self.log(e="end", item=i, s=self.sched_of(i))
            return (state or 0) + 1
        return act

    def op(self, op: Sequence[Any]) -> None:
        from datetime import timedelta
        from reactivex.internal.exceptions import DisposedException
        k = op[0]
        if k == "sleep":
            shims.sleep(op[1])
            return
        if k in ("signal", "wait"):         # script synchronisation only (cooperative Event): no scheduler call, nothing logged
            ev = self.events.setdefault(op[1], shims.Event())
            if k == "signal":
                ev.set()
            else:
                ev.wait()
            return
        if k == "cancel":
            h = self.handles.get(op[1])
            if h is None:
                return                      # nothing to cancel (yet): the script step is skipped, nothing is logged
            self.log(e="call", op="cancel", item=op[1], d=0, s=self.sched_of(op[1]))
            res = "ok"
            try:
                h.dispose()
            except detsched.Abort:
                raise
            except BaseException as e:  # noqa: BLE001
                res = "exc:" + type(e).__name__
            self.log(e="ret", res=res, s=self.sched_of(op[1]))
            return
        if k == "dispose":
            si = int(op[1]) if len(op) > 1 else 0
            self.log(e="call", op="dispose", item=0, d=0, s=si)
            res = "ok"
            try:
                self.SS[si].dispose()
            except detsched.Abort:
                raise
            except BaseException as e:  # noqa: BLE001
                res = "exc:" + type(e).__name__
            self.log(e="ret", res=res, s=si)
            return
        i = op[1]
        S = self.SS[self.sched_of(i)]
        d = op[2] if len(op) > 2 else 0
        self.log(e="call", op=k, item=i, d=US(d), s=self.sched_of(i))
        res = "ok"
        try:
            if k == "imm":
                h = S.schedule(self.action(i))
            elif k == "rel":
                h = S.schedule_relative(float(d), self.action(i))
            elif k == "reltd":
                h = S.schedule_relative(timedelta(seconds=d), self.action(i))
            elif k == "per":
                h = S.schedule_periodic(float(d), self.periodic_action(i), 0)
            elif k == "abs":
                h = S.schedule_absolute(shims.EPOCH + timedelta(seconds=d), self.action(i))
            else:
                raise ValueError(k)
            self.handles[i] = h
        except DisposedException:
            res = "disposed"
        except detsched.Abort:
            raise
        except BaseException as e:  # noqa: BLE001
            res = "exc:" + type(e).__name__
        self.log(e="ret", res=res, s=self.sched_of(i))


# ---- time-scale profiles (codec only): what ONE model tick is on the scheduler clock ---------------------------------------------
# The scenario scripts count in ticks; the abstract objects (EventLoop.tla / TimerSched.tla) are indifferent to the unit - a due
# time is an integer and `now >= due` is the whole guard - and the traces carry integer microseconds.  Profile "s" (1 tick = 1 s,
# the scripts as written) only ever asks for delays of whole seconds.  Profile "sub-ms" maps a tick to 0.4 ms, so that a delay of
# 1 or 2 ticks is strictly positive but below one millisecond, 3 ticks lie just above it, and "one tick before the due time" is
# less than a millisecond early: every threshold, rounding or slack on the millisecond scale in the code under test (a delay
# treated as zero, a timer / wait granularity, an item gathered a little ahead of its due time) lies inside the range the scripts
# exercise.  The property is unit-free: "never before the due time" holds for 0.4 ms exactly as for 1 s.
SUBMS_TICK = 0.0004


def scaled(sc: Dict[str, Any], tick: float, tag: str) -> Dict[str, Any]:
    """the same scenario with every duration / instant of its scripts (sleep, relative delay, period, absolute due time, horizon)
    multiplied by `tick` seconds"""
    def t(x):
        return round(x * tick, 9)

    def op(o):
        if o[0] == "sleep":
            return [o[0], t(o[1])]
        if o[0] in ("rel", "reltd", "abs", "per") and len(o) > 2:
            return [o[0], o[1], t(o[2])]
        return list(o)
    out = dict(sc, name=sc["name"] + "@" + tag, tick=tick, threads=[[op(o) for o in th] for th in sc["threads"]])
    if "pro" in sc:
        out["pro"] = [op(o) for o in sc["pro"]]
    if "bodies" in sc:
        out["bodies"] = {k: [op(o) for o in v] for k, v in sc["bodies"].items()}
    out["horizon"] = t(sc.get("horizon", 8))
    return out


def norm_trace(tr: List[Dict[str, Any]]) -> List[Dict[str, Any]]:
    """`reltd` (timedelta form of schedule_relative) is the abstract op `rel`"""
    out = []
    for ev in tr:
        if ev.get("op") == "reltd":
            ev = dict(ev, op="rel")
        out.append(ev)
    return out


def run_scenario(sc: Dict[str, Any], choose, max_steps: int = 6000):
    """ONE execution of a scenario under the given scheduling decisions; returns (ds, trace)"""
    def build(ds):
        rig = Rig(ds, sc["kind"], sc.get("exit", False), sc.get("bodies"), sc.get("workers"), scheds=sc.get("scheds", 1),
                  owner=sc.get("owner"), exits=sc.get("exits"))
        for op in sc.get("pro", ()):
            rig.op(op)
        for k, script in enumerate(sc["threads"], start=1):
            def body(script=script):
                for op in script:
                    rig.op(op)
            ds.spawn(f"T{k}", body)
        ds.spawn("TK", lambda: shims.sleep(sc.get("horizon", 8)))
    ds = fastsched.run_execution(build, choose, focus=FOCUS_ALL if sc["kind"] != "eventloop" else FOCUS_EL, max_steps=max_steps,
                                 reuse_threads=True)     # the schedulers under test keep no thread-local state
    tr = norm_trace(list(ds.trace))
    last_t = US(ds.clock)
    if ds.deadlocked:
        tr.append({"e": "deadlock", "th": 0, "t": last_t})
    elif ds.step_limit_hit:
        tr.append({"e": "steplimit", "th": 0, "t": last_t})
    else:
        tr.append({"e": "quiesce", "th": 0, "t": last_t})
    for t in ds.threads:
        if t.exc is not None:
            tr.append({"e": "exc", "th": thid(t.name), "t": last_t, "what": repr(t.exc)[:200]})
    return ds, tr


def instance_traces(tr: List[Dict[str, Any]]) -> List[List[Dict[str, Any]]]:
    """one trace per scheduler instance of the execution (events without an instance - quiesce, deadlock, exc - go to all)"""
    n = 0
    while n < len(tr) and tr[n]["e"] == "cfg":
        n += 1
    if n <= 1:
        return [tr]
    return [[tr[k]] + [ev for ev in tr[n:] if ev.get("s", k) == k] for k in range(n)]


def explore_scenario(args) -> Dict[str, Any]:
    """every schedule up to the preemption bound (capped), then seeded random schedules"""
    sc, bound, per_level, nrandom, seed = args
    traces: Dict[str, List[Any]] = {}
    stats = {"executions": 0, "deadlocks": 0, "steplimit": 0, "thread_exc": 0, "preempting": 0}
    with shims.patched(extra=patches(bool(sc.get("early")))):
        ex = fastsched.LevelExplorer(bound=bound, per_level=tuple(sc.get("per_level") or per_level), random_schedules=nrandom, seed=seed)
        last = {}

        def run_one(choose):
            ds, tr = run_scenario(sc, choose)
            last["tr"] = tr
            return ds
        for ds in ex.explore(run_one):
            tr = last["tr"]
            stats["executions"] += 1
            stats["deadlocks"] += int(ds.deadlocked)
            stats["steplimit"] += int(ds.step_limit_hit)
            stats["thread_exc"] += sum(1 for t in ds.threads if t.exc is not None)
            stats["preempting"] += int(any(cur != -1 and pick != cur for (_en, pick, cur, _can) in ds.decisions))
            key = json.dumps(tr, sort_keys=True)
            if key not in traces:
                traces[key] = [tr, 0, [d[1] for d in ds.decisions]]
            traces[key][1] += 1
    return {"scenario": sc, "traces": [(t, n, dec) for (t, n, dec) in traces.values()], "stats": stats, "truncated": ex.truncated,
            "level_sizes": ex.level_sizes}


# ---- scenario families --------------------------------------------------------------------------------------------
def el_scenarios(tier: str) -> List[Dict[str, Any]]:
    """EventLoopScheduler scenarios for C31 (each is run with exit_if_empty both ways)"""
    base: List[Dict[str, Any]] = [
        # A  two clients submit immediates: thread start race, FIFO, serial
        dict(name="imm-imm", threads=[[["imm", 1], ["imm", 2]], [["imm", 3]]], horizon=2),
        # B  timed + immediate + an immediate cancelled at once
        dict(name="timed-imm-cancel", threads=[[["rel", 1, 2], ["imm", 2]], [["imm", 3], ["cancel", 3]]], horizon=4),
        # C  cancel racing the due time (cancel at t = due), and cancel well before it
        dict(name="cancel-at-due", threads=[[["rel", 1, 2], ["sleep", 2], ["cancel", 1]], [["rel", 2, 1], ["cancel", 2]]], horizon=4),
        dict(name="cancel-before-due", threads=[[["rel", 1, 3], ["sleep", 1], ["cancel", 1]], [["abs", 2, 2]]], horizon=5),
        # D  dispose racing schedule calls; a schedule after the own dispose must be refused
        dict(name="dispose-race", threads=[[["imm", 1], ["imm", 2]], [["dispose"], ["imm", 3]]], horizon=2),
        dict(name="dispose-timed", threads=[[["rel", 1, 1], ["sleep", 2], ["imm", 2]], [["sleep", 1], ["dispose"], ["rel", 3, 1]]], horizon=4),
        # E  exit_if_empty: the thread leaves while another schedule arrives
        dict(name="restart", threads=[[["imm", 1], ["sleep", 1], ["imm", 2]], [["imm", 3], ["sleep", 1], ["rel", 4, 1]]], horizon=4),
        # F  due order among timed items scheduled from two threads, one absolute in the past
        dict(name="due-order", threads=[[["rel", 1, 3], ["rel", 2, 1]], [["rel", 3, 2], ["abs", 4, 0]]], horizon=5),
        # G  actions that call the scheduler (recursive scheduling, cancel and dispose from the loop thread)
        dict(name="recursive", threads=[[["imm", 1]], [["imm", 4]]], bodies={"1": [["imm", 2], ["rel", 3, 1]], "2": [["cancel", 3]]}, horizon=3),
        dict(name="dispose-inside", threads=[[["imm", 1], ["imm", 2]], [["rel", 3, 1]]], bodies={"1": [["dispose"]]}, horizon=3),
        # H  a long action: items become due while the loop is busy
        dict(name="busy-loop", threads=[[["imm", 1], ["rel", 2, 1]], [["sleep", 1], ["imm", 3], ["rel", 4, 1]]], bodies={"1": [["sleep", 3]]}, horizon=6),
        # J  cancel RETURNS while an earlier action of the same batch is still running: the later item must not run
        #    (Commit lies after the previous action ended - a cancellation test hoisted to collection time is caught here)
        dict(name="cancel-while-busy", threads=[[["imm", 1], ["imm", 2], ["rel", 3, 1]], [["sleep", 1], ["cancel", 2], ["cancel", 3]]],
             bodies={"1": [["sleep", 2]]}, horizon=4),
        # K  equal due times: cancelling one of several items due at the same instant removes exactly that one
        dict(name="equal-due-cancel", threads=[[["rel", 1, 2], ["rel", 2, 2], ["abs", 3, 2]], [["sleep", 1], ["cancel", 2], ["cancel", 3]]], horizon=4),
        # L  the loop is woken ONE tick before the due time of its queued head (immediate submission by another client)
        dict(name="wake-before-due", threads=[[["rel", 1, 3]], [["sleep", 2], ["imm", 2], ["abs", 3, 4]]], horizon=6),
        # I  cancel from the other thread (prologue scheduled the item)
        dict(name="cross-cancel", pro=[["rel", 1, 2], ["imm", 2]], threads=[[["cancel", 1], ["imm", 3]], [["cancel", 2], ["reltd", 4, 2]]], horizon=5),
    ]
    if tier != "quick":
        base += [
            dict(name="three-clients", threads=[[["imm", 1], ["rel", 2, 1]], [["imm", 3], ["cancel", 3]], [["abs", 4, 1], ["dispose"]]], horizon=4),
            dict(name="three-imm", threads=[[["imm", 1]], [["imm", 2]], [["imm", 3], ["imm", 4]]], horizon=2),
            dict(name="timed-chain", threads=[[["rel", 1, 1]], [["rel", 4, 2], ["cancel", 4]]], bodies={"1": [["rel", 2, 1]], "2": [["rel", 3, 1]]}, horizon=6),
            dict(name="restart-timed", threads=[[["rel", 1, 1], ["sleep", 2], ["rel", 2, 1]], [["sleep", 1], ["imm", 3], ["sleep", 2], ["imm", 4]]], horizon=6),
            dict(name="cancel-running", threads=[[["imm", 1], ["sleep", 1], ["cancel", 1], ["imm", 2]], [["rel", 3, 1]]], bodies={"1": [["sleep", 2]]}, horizon=5),
            dict(name="double-dispose", threads=[[["dispose"], ["imm", 1]], [["imm", 2], ["dispose"], ["imm", 3]]], horizon=2),
        ]
    out = []
    for b in base:
        for ex in (False, True):
            out.append(dict(b, kind="eventloop", exit=ex))
    out += backlog_scenarios(tier) + two_scheduler_scenarios(tier)
    early_for = {"timed-imm-cancel", "due-order", "cancel-before-due", "busy-loop", "restart-timed", "timed-chain"}
    out += [dict(b, name=b["name"] + "+early-wait", kind="eventloop", exit=ex, early=True)
            for b in base if b["name"] in early_for for ex in ((False, True) if tier != "quick" else (b["name"] == "due-order",))]
    out += handover_scenarios(tier)
    # time-scale profile "sub-ms" (1 tick = 0.4 ms): the same scripts (quick tier: the ones with timed items around a wake-up)
    subms_for = {"timed-imm-cancel", "due-order", "wake-before-due", "busy-loop", "cancel-at-due", "backlog-merge", "handover-timed"}
    out += [scaled(sc, SUBMS_TICK, "sub-ms") for sc in list(out) if not sc.get("early") and (tier != "quick" or sc["name"] in subms_for)]
    return out


def backlog_scenarios(tier: str) -> List[Dict[str, Any]]:
    """a backlog: the loop thread is busy (a long action) from the submission of ready-list items until queued timed items have
    become due, so one gather sees both and the due-time merge across the two classes decides the order"""
    fam = [
        # blocker 0..7 | T5 = abs 5 (submitted at 1) | I3 = imm at 3 | T4 = abs 4 submitted at 6 (already due) -> I3, T4, T5
        dict(name="backlog-merge", threads=[[["imm", 1]], [["sleep", 1], ["abs", 2, 5], ["sleep", 2], ["imm", 3], ["sleep", 3], ["abs", 4, 4]]],
             bodies={"1": [["sleep", 7]]}, horizon=9),
        # two timed and two immediate items interleaved by due time: rel due 2, imm at 3, rel due 4, imm at 5
        dict(name="backlog-interleaved", threads=[[["imm", 1], ["rel", 2, 2], ["rel", 4, 4]], [["sleep", 3], ["imm", 3], ["sleep", 2], ["imm", 5]]],
             bodies={"1": [["sleep", 6]]}, horizon=8),
    ]
    if tier != "quick":
        fam += [dict(name="backlog-cancel", threads=[[["imm", 1], ["rel", 2, 2], ["rel", 4, 4]], [["sleep", 3], ["imm", 3], ["cancel", 2], ["sleep", 2], ["imm", 5]]],
                     bodies={"1": [["sleep", 6]]}, horizon=8)]
    return [dict(b, kind="eventloop", exit=ex) for b in fam for ex in ((False,) if tier == "quick" else (False, True))]


def two_scheduler_scenarios(tier: str) -> List[Dict[str, Any]]:
    """two EventLoopScheduler instances A (0) and B (1) alive in one execution: B's loop thread gathers while A has an
    immediately-due action pending behind a running one.  Nothing of A may run on B's thread, or overlap A's running action."""
    own = {"1": 0, "2": 1, "3": 0, "4": 1, "5": 0, "6": 1}
    fam = [
        dict(name="two-scheds-busy", threads=[[["imm", 1]], [["imm", 2], ["sleep", 1], ["imm", 3], ["imm", 4]]],
             bodies={"1": [["sleep", 2]]}, horizon=4, exits=[False, False]),
        dict(name="two-scheds-race", threads=[[["imm", 1], ["imm", 3]], [["imm", 2], ["imm", 4]]], horizon=2, exits=[True, False]),
        dict(name="two-scheds-timed", threads=[[["rel", 1, 1], ["imm", 3]], [["imm", 2], ["rel", 4, 1], ["sleep", 1], ["imm", 6]]],
             bodies={"3": [["sleep", 1]]}, horizon=4, exits=[False, True]),
    ]
    return [dict(b, kind="eventloop", scheds=2, owner=own, exit=False) for b in (fam if tier != "quick" else fam[:2])]


def handover_scenarios(tier: str) -> List[Dict[str, Any]]:
    """exit_if_empty hand-over: a client is released (cooperative Event set by the LAST operation of an action) exactly when
    the loop thread is on its way out, so in the non-preemptive default schedule the loop thread runs its whole exit path
    (end of action, last critical section, lock release, return) with the client already runnable.  EVERY single preemption
    of that path is explored (per_level override: level 1 complete) - each lets the client's whole schedule call land at a
    different point of the exit path, in particular between the last lock release and whatever follows it.  The traces
    differ only in where the call falls, so this costs few distinct traces."""
    full = (1, 2000, 40, 4) if tier == "quick" else (1, 2000, 600, 100, 20)
    fam = [
        dict(name="handover-imm", threads=[[["imm", 1]], [["wait", "a"], ["imm", 2]]], bodies={"1": [["signal", "a"]]}, horizon=2),
        dict(name="handover-timed", threads=[[["imm", 1]], [["wait", "a"], ["rel", 2, 1]]], bodies={"1": [["signal", "a"]]}, horizon=3),
        dict(name="handover-after-timed", threads=[[["imm", 1], ["rel", 3, 1]], [["wait", "a"], ["imm", 2], ["imm", 4]]],
             bodies={"3": [["signal", "a"]]}, horizon=3),
    ]
    if tier != "quick":
        fam += [
            dict(name="handover-two-clients", threads=[[["imm", 1]], [["wait", "a"], ["imm", 2]], [["wait", "a"], ["rel", 3, 1]]],
                 bodies={"1": [["signal", "a"]]}, horizon=3),
            dict(name="handover-cancel", threads=[[["imm", 1], ["rel", 3, 2]], [["wait", "a"], ["cancel", 3], ["imm", 2]]],
                 bodies={"1": [["signal", "a"]]}, horizon=4),
        ]
    return [dict(b, kind="eventloop", exit=True, per_level=full) for b in fam]


TS_INVS = ["TypeOK", "NotEarly", "CancelledBeforeDueNeverRuns", "AtMostOnce"]
TS_TRACE_CONSTS = dict(Threads={0, 1, 2, 3} | set(range(11, 20)), Clients={0}, Workers={0}, Items=set(range(1, 7)),
                       MaxT=2000000000, MaxCalls=0, RelD={0}, AbsT={0})


def timer_scenarios(tier: str) -> List[Dict[str, Any]]:
    """C34: relative / absolute schedules and cancellations around the due time, for every thread-based scheduler"""
    base: List[Dict[str, Any]] = [
        dict(name="cancel-before-due", threads=[[["rel", 1, 2], ["sleep", 1], ["cancel", 1]], [["rel", 2, 1]]], horizon=4),
        dict(name="cancel-at-due", threads=[[["rel", 1, 2], ["sleep", 2], ["cancel", 1]], [["imm", 2], ["cancel", 2]]], horizon=4),
        dict(name="abs-past-future", threads=[[["abs", 1, 3], ["abs", 2, 0]], [["reltd", 3, 1], ["cancel", 3]]], horizon=5),
        dict(name="zero-delay", threads=[[["rel", 1, 0], ["rel", 2, 1]], [["sleep", 1], ["cancel", 2]]], horizon=3),
        dict(name="cross-cancel", pro=[["rel", 1, 2], ["abs", 2, 1]], threads=[[["cancel", 1]], [["sleep", 1], ["cancel", 2]]], horizon=4),
        dict(name="recursive", threads=[[["rel", 1, 1]], [["sleep", 1], ["cancel", 3]]], bodies={"1": [["rel", 3, 1], ["abs", 4, 1]]}, horizon=4),
    ]
    # equal due times: the cancelled one (and only it) must not run, whichever position it has among its equals
    base += [
        dict(name="equal-due-cancel-last", threads=[[["rel", 1, 2], ["rel", 2, 2], ["rel", 3, 2]], [["sleep", 1], ["cancel", 3]]], horizon=4),
        dict(name="equal-due-cancel-middle", threads=[[["abs", 1, 2], ["rel", 2, 2], ["abs", 3, 2]], [["sleep", 1], ["cancel", 2]]], horizon=4),
    ]
    # the executing side is woken ONE tick before a due time (an immediate submission from another client): not yet due
    base += [dict(name="wake-before-due", threads=[[["rel", 1, 3]], [["sleep", 2], ["imm", 2], ["abs", 3, 4]]], horizon=6)]
    if tier != "quick":
        base += [
            dict(name="equal-due-cancel-first", threads=[[["rel", 1, 2], ["rel", 2, 2]], [["sleep", 1], ["cancel", 1], ["rel", 3, 1]]], horizon=4),
            dict(name="equal-due-cancel-two", threads=[[["rel", 1, 3], ["abs", 2, 3], ["rel", 3, 3]], [["sleep", 1], ["cancel", 2], ["sleep", 1], ["cancel", 3]]], horizon=5),
            dict(name="three", threads=[[["rel", 1, 1], ["cancel", 1]], [["abs", 2, 2], ["sleep", 2], ["cancel", 2]], [["imm", 3], ["reltd", 4, 3]]], horizon=5),
            dict(name="late-cancel", threads=[[["rel", 1, 1], ["sleep", 2], ["cancel", 1]], [["rel", 2, 2], ["sleep", 1], ["cancel", 2]]], horizon=4),
            dict(name="busy", threads=[[["imm", 1], ["rel", 2, 1]], [["sleep", 1], ["rel", 3, 1], ["cancel", 2]]], bodies={"1": [["sleep", 2]]}, horizon=5),
        ]
    variants = [dict(kind="timeout"), dict(kind="newthread"), dict(kind="threadpool"), dict(kind="threadpool", workers=1),
                dict(kind="eventloop", exit=False), dict(kind="eventloop", exit=True)]
    out = [dict(b, **v) for b in base for v in variants]
    # schedule_periodic: a run is due one period after the START of the previous one; after the dispose returned no run starts.
    # The overrun variants make a run last longer than the period and dispose during it.
    periodic = [
        dict(name="periodic-overrun-dispose", threads=[[["per", 1, 1], ["sleep", 2], ["cancel", 1]]], bodies={"1": [["sleep", 2]]}, horizon=7),
        dict(name="periodic-dispose-between", threads=[[["per", 1, 2], ["sleep", 3], ["cancel", 1]], [["rel", 2, 1]]], horizon=7),
        dict(name="periodic-dispose-at-tick", threads=[[["per", 1, 1], ["sleep", 2], ["cancel", 1]]], horizon=5),
    ]
    if tier != "quick":
        periodic += [
            dict(name="periodic-overrun-late-dispose", threads=[[["per", 1, 1], ["sleep", 4.5], ["cancel", 1]]], bodies={"1": [["sleep", 2]]}, horizon=9),
            dict(name="periodic-two", threads=[[["per", 1, 1], ["sleep", 2.5], ["cancel", 1]], [["per", 2, 2], ["sleep", 3], ["cancel", 2]]],
                 bodies={"2": [["sleep", 1]]}, horizon=8),
        ]
    pvariants = [dict(kind="newthread"), dict(kind="threadpool"), dict(kind="eventloop", exit=False), dict(kind="timeout")]
    out += [dict(b, **v) for b in periodic for v in pvariants]
    # two-clocks share: timed waits of the event-loop based schedulers expire 0.25 s early while scheduler.now reads the controlled clock
    early_for = {"cancel-before-due", "abs-past-future", "recursive", "zero-delay", "late-cancel", "busy"}
    early_variants = [dict(kind="eventloop", exit=False), dict(kind="eventloop", exit=True), dict(kind="newthread"), dict(kind="threadpool")]
    out += [dict(b, name=b["name"] + "+early-wait", early=True, **v) for b in base if b["name"] in early_for for v in early_variants]
    # time-scale profile "sub-ms" (1 tick = 0.4 ms): the same scripts, for every scheduler kind (quick tier: a share of them)
    subms_for = {"zero-delay", "abs-past-future", "cancel-before-due", "recursive", "wake-before-due", "periodic-dispose-between"}
    out += [scaled(sc, SUBMS_TICK, "sub-ms") for sc in list(out) if not sc.get("early") and (tier != "quick" or sc["name"] in subms_for)]
    return out


# ---- labels for rejected traces (reporting only; the verdict is TLC's) ----------------------------------------------
def label_rejection(tr: List[Dict[str, Any]], upto: int) -> Dict[str, Any]:
    nxt = tr[upto] if upto < len(tr) else {"e": "end"}
    lab: Dict[str, Any] = {"failure": nxt["e"]}
    e = nxt["e"]
    if e == "deadlock":
        lab["failure"] = "hang"
    elif e in ("steplimit", "exc"):
        lab["failure"] = e
    elif e == "start":
        x = nxt["item"]
        call = next((ev for ev in tr[:upto] if ev["e"] == "call" and ev.get("item") == x and ev["op"] in ("imm", "rel", "abs", "per")), None)
        due = None
        if call is not None:
            due = call["t"] if call["op"] == "imm" else (call["t"] + max(0, call["d"]) if call["op"] in ("rel", "per") else call["d"])
        open_acts = set()
        for ev in tr[:upto]:
            if ev["e"] == "start":
                open_acts.add(ev["item"])
            elif ev["e"] == "end":
                open_acts.discard(ev["item"])
        cancel_ret = False
        pend_cancel = {}
        for ev in tr[:upto]:
            if ev["e"] == "call" and ev["op"] == "cancel":
                pend_cancel[ev["th"]] = ev["item"]
            elif ev["e"] == "ret" and ev["th"] in pend_cancel:
                if pend_cancel.pop(ev["th"]) == x:
                    cancel_ret = True
        if due is not None and nxt["t"] < due:
            lab["failure"] = "early"
        elif open_acts:
            lab["failure"] = "overlap"
        elif cancel_ret:
            lab["failure"] = "ran_after_cancel"
        elif call is None:
            lab["failure"] = "ran_unscheduled"
        else:
            lab["failure"] = "order_or_thread"
        lab["due"] = due
    elif e == "quiesce":
        started = {ev["item"] for ev in tr if ev["e"] == "start"}
        sched_ok = set()
        pend = {}
        for ev in tr:
            if ev["e"] == "call" and ev["op"] in ("imm", "rel", "abs"):
                pend[ev["th"]] = ev["item"]
            elif ev["e"] == "ret" and ev["th"] in pend:
                x = pend.pop(ev["th"])
                if ev["res"] == "ok":
                    sched_ok.add(x)
        cancelled = {ev["item"] for ev in tr if ev["e"] == "call" and ev["op"] == "cancel"}
        lab["failure"] = "lost_wakeup" if (sched_ok - started - cancelled) else "thread_not_exited"
        lab["never_ran"] = sorted(sched_ok - started - cancelled)
    elif e == "ret":
        lab["failure"] = "result"
    elif e == "tstart":
        lab["failure"] = "second_thread"
    elif e == "texit":
        lab["failure"] = "thread_exit"
    return lab


# ---- exploration + validation ------------------------------------------------------------------------------------------
def conc_check(ck, scenarios: List[Dict[str, Any]], tier: str, module: str, consts: Dict[str, Any], invariants: List[str],
               engine: str, bound: int, per_level: Sequence[int], nrandom: int, procs: int = 8) -> Tuple[int, int]:
    import time as _time
    jobs = [(sc, bound, tuple(per_level), nrandom, ck.seed) for sc in scenarios]
    t0 = _time.time()
    results = core.parallel_map(explore_scenario, jobs, procs=procs, chunk=1)
    ck.note(engine + "_explore_wall_s", round(_time.time() - t0, 1))
    total = 0
    rows: List[Tuple[Any, Dict[str, Any], int, List[int]]] = []
    for r in results:
        total += r["stats"]["executions"]
        for k in ("deadlocks", "steplimit", "thread_exc", "preempting"):
            ck.count(engine + "_" + k, r["stats"][k])
        if r["truncated"]:
            ck.count(engine + "_scenarios_truncated_at_max_schedules")
        for (full, n, dec) in r["traces"]:
            ck.count(engine + "_starts", n * sum(1 for ev in full if ev["e"] == "start"))
            for tr in instance_traces(full):
                rows.append((tr, r["scenario"], n, dec))
    batch = [r[0] for r in rows]
    consts = fit_consts(consts, batch)
    controls = corrupted_controls(batch)
    t0 = _time.time()
    rejected, ress = validate_parallel(module, consts, batch + controls, invariants, parts=1 if tier == "quick" else 3)
    ck.note(engine + "_validate_wall_s", round(_time.time() - t0, 1))
    # binding self-test: the corrupted copies appended to the batch must be rejected, or the trace spec judges nothing
    got = {i for (i, _u) in rejected if i >= len(batch)}
    if len(got) != len(controls):
        raise tlc.TLCFailure(f"{module} accepted a corrupted control trace ({len(controls) - len(got)} of {len(controls)})")
    ck.count(engine + "_corrupted_controls_rejected", len(got))
    rejected = [(i, u) for (i, u) in rejected if i < len(batch)]
    for res in ress:
        ck.add_tlc(res, f"trace validation {module} ({len(batch)} distinct traces of {total} executions)")
    for (idx, upto) in rejected:
        tr, sc, n, dec = rows[idx]
        rec = {"engine": engine, "sched": sc["kind"], "exit_if_empty": sc.get("exit", False), "scenario": sc,
               "rejected_at": upto, "next_event": tr[upto] if upto < len(tr) else {"e": "end"},
               "schedules_with_this_trace": n, "decisions": dec, "trace": tr}
        rec.update(label_rejection(tr, upto))
        ck.fail(rec)
    ck.rows = rows                       # (trace, scenario, multiplicity, decisions) - for further judges of the same executions
    ck.impl += total
    ck.count(engine + "_executions", total)
    ck.count(engine + "_distinct_traces", len(batch))
    ck.note("preemption_bound", bound)
    if rows:
        mid = rows[len(rows) // 2]
        ck.sample({"scenario": mid[1], "trace": mid[0]})
    return total, len(batch)


def corrupted_controls(batch: List[Any]) -> List[Any]:
    """two corrupted copies of a recorded trace: (a) an action that starts a second time, (b) an action that starts although its
    schedule call was removed from the trace.  Both must be rejected by either trace specification."""
    src = next((tr for tr in batch if any(ev["e"] == "end" for ev in tr) and tr[-1]["e"] == "quiesce"), None)
    if src is None:
        return []
    k = next(i for i, ev in enumerate(src) if ev["e"] == "end")
    x = src[k]["item"]
    st = next(ev for ev in src[:k] if ev["e"] == "start" and ev["item"] == x)
    twice = src[:k + 1] + [dict(st, t=src[k]["t"]), dict(src[k])] + src[k + 1:]
    unsched, skip = [], None
    for ev in src:
        if ev["e"] == "call" and ev.get("item") == x and ev["op"] in ("imm", "rel", "abs"):
            skip = ev["th"]
            continue
        if skip is not None and ev["e"] == "ret" and ev["th"] == skip:
            skip = None
            continue
        unsched.append(ev)
    return [twice, unsched]


def fit_consts(consts: Dict[str, Any], batch: List[Any]) -> Dict[str, Any]:
    """shrink Items / Loops / Threads to what the batch uses (TLC quantifies over them in every state)"""
    items = {ev["item"] for tr in batch for ev in tr if ev.get("item")} or {1}
    ths = {ev["th"] for tr in batch for ev in tr if "th" in ev}
    c = dict(consts)
    c["Items"] = set(range(1, max(items) + 1))
    if "Loops" in c:
        c["Loops"] = set(range(11, max([11] + [t for t in ths if t > 10]) + 1))
        c["Clients"] = {t for t in c["Clients"] if t in ths} | {0}
    if "Threads" in c:
        c["Threads"] = {t for t in c["Threads"] if t in ths} | {0}
    return c


def replay_record(rec: Dict[str, Any], module: str, consts: Dict[str, Any], invariants: List[str]) -> int:
    """re-run the recorded schedule on the current tree and ask TLC again"""
    sc, dec = rec["scenario"], list(rec.get("decisions", []))
    pos = [0]

    def choose(en, cur, can_preempt):
        i = pos[0]
        pos[0] += 1
        if i < len(dec) and dec[i] in en:
            return dec[i]
        return cur if cur in en else en[0]
    with shims.patched(extra=patches(bool(sc.get("early")))):
        ds, tr = run_scenario(sc, choose)
    print("scenario:", json.dumps(sc))
    for k, ev in enumerate(tr):
        print(f"  {k:3d} {json.dumps(ev)}")
    parts = instance_traces(tr)
    rejected, _ = tracecheck.validate(module, fit_consts(consts, parts), parts, invariants=invariants)
    if rejected:
        k, upto = rejected[0]
        tr = parts[k]
        print(f"trace spec verdict: REJECTED (scheduler instance {k}) at event", upto,
              json.dumps(tr[upto] if upto < len(tr) else {"e": "end"}), label_rejection(tr, upto))
        return 1
    print("trace spec verdict: accepted (same schedule on the current tree)")
    return 0


# ---- background jobs without threads in the parent (fork + pipe), so that fork pools stay safe --------------------------
class Bg:
    """run fn(*args) in a forked child; .result() returns its value (or raises TLCFailure with the child's traceback)"""

    def __init__(self, fn, *args):
        import os
        import pickle
        import traceback
        r, w = os.pipe()
        pid = os.fork()
        if pid == 0:
            code = 0
            try:
                os.close(r)
                try:
                    out = ("ok", fn(*args))
                except BaseException:  # noqa: BLE001
                    out = ("err", traceback.format_exc())
                with os.fdopen(w, "wb") as f:
                    pickle.dump(out, f)
            except BaseException:  # noqa: BLE001
                code = 3
            finally:
                os._exit(code)
        os.close(w)
        self.r, self.pid = r, pid

    def result(self):
        import os
        import pickle
        with os.fdopen(self.r, "rb") as f:
            data = f.read()
        os.waitpid(self.pid, 0)
        if not data:
            raise tlc.TLCFailure("background job died without a result")
        kind, val = pickle.loads(data)
        if kind == "err":
            raise tlc.TLCFailure("background job failed:\n" + val)
        return val


def coverage_of(res) -> Dict[str, int]:
    """per-action counts from TLC's -coverage output (also the `(a b c d)` location form harness.tlc does not parse)"""
    import re
    cov: Dict[str, int] = {}
    for ln in res.raw.splitlines():
        m = re.match(r"^<(\w+) line \d+, col \d+ to line \d+, col \d+ of module \w+(?: \([\d ]+\))?>: (\d+):(\d+)", ln)
        if m:
            cov[m.group(1)] = cov.get(m.group(1), 0) + int(m.group(3))
    return cov


def require_coverage(res, actions: Sequence[str], what: str) -> Dict[str, int]:
    cov = coverage_of(res)
    never = [a for a in actions if cov.get(a, 0) == 0]
    if never:
        raise tlc.TLCFailure(f"vacuous {what}: actions never taken {never} (coverage {cov})")
    return cov


def _validate_part(module, consts, part, invariants):
    rejected, ress = tracecheck.validate(module, consts, part, invariants=invariants, timeout=2400, chunk=100000)
    for r in ress:
        r.raw = r.raw[-2000:]
        r.lines = []
    return rejected, ress


def validate_parallel(module: str, consts: Dict[str, Any], batch: List[Any], invariants: List[str], parts: int = 3):
    """tracecheck.validate on `parts` slices at once (one TLC each; the JVM start dominates on a busy box)"""
    n = len(batch)
    if n == 0:
        return [], []
    parts = max(1, min(parts, (n + 39) // 40))
    size = (n + parts - 1) // parts
    jobs = [(base, Bg(_validate_part, module, consts, batch[base:base + size], invariants)) for base in range(0, n, size)]
    rejected, results = [], []
    for base, job in jobs:
        rej, ress = job.result()
        rejected += [(base + i, upto) for (i, upto) in rej]
        results += ress
    return rejected, results


# ---- design checks (TLC, all interleavings of the abstract generator) ------------------------------------------------------
EL_ACTIONS = ["GenCall", "LinSched", "LinCancel", "LinDispose", "Ret", "GenTStart", "Commit", "Start", "End", "ExitL", "TExit", "Tick"]
TS_ACTIONS = ["GenCall", "LinSched", "LinCancel", "Ret", "Commit", "Start", "End", "Tick"]


def el_design(tier: str):
    if tier == "quick":
        consts = dict(Clients={"c1", "c2"}, Loops={11, 12, 13}, Items={1, 2}, ExitModes={True, False}, MaxT=1, MaxCalls=2,
                      RelD={1}, AbsT={0}, InnerCalls=False)
    else:
        consts = dict(Clients={"c1", "c2"}, Loops={11, 12, 13}, Items={1, 2, 3}, ExitModes={True, False}, MaxT=1, MaxCalls=3,
                      RelD={1}, AbsT={0}, InnerCalls=True)
    cfg = tlc.cfg_text(consts, invariants=EL_INVS, symmetry="ClientSym").replace('"c1"', "c1").replace('"c2"', "c2")
    res = tlc.run("EventLoop", cfg, workers=2 if tier == "quick" else 4, timeout=3000, coverage=True, allow_violation=False)
    res.lines = []
    return res, {k: (sorted(v, key=str) if isinstance(v, set) else v) for k, v in consts.items()}


def el_liveness(tier: str):
    """NoLostWakeup of the abstract object under weak fairness of the loop, the clock and Lin/Ret (no symmetry)"""
    consts = dict(Clients={1}, Loops={11, 12}, Items={1, 2}, ExitModes={True, False}, MaxT=1, MaxCalls=2 if tier == "quick" else 3,
                  RelD={1}, AbsT={0}, InnerCalls=False)
    cfg = tlc.cfg_text(consts, spec="FairSpec", properties=["NoLostWakeup"])
    res = tlc.run("EventLoop", cfg, workers=2, timeout=3000, allow_violation=False)
    res.lines = []
    return res


def ts_design(tier: str):
    if tier == "quick":
        consts = dict(Threads={1, 2, 11}, Clients={1, 2}, Workers={11}, Items={1, 2}, MaxT=1, MaxCalls=3, RelD={1}, AbsT={0})
    else:
        consts = dict(Threads={1, 2, 11, 12}, Clients={1, 2}, Workers={11, 12}, Items={1, 2, 3}, MaxT=2, MaxCalls=3, RelD={1}, AbsT={0, 2})
    res = tlc.run("TimerSched", tlc.cfg_text(consts, invariants=TS_INVS), workers=2 if tier == "quick" else 4, timeout=3000,
                  coverage=True, allow_violation=False)
    res.lines = []
    return res, {k: (sorted(v) if isinstance(v, set) else v) for k, v in consts.items()}


# ---- ImmediateScheduler: Binding A -------------------------------------------------------------------------------------------
IMM_INVS = ["RefOK", "NeverRunsRefused", "WellNested"]


def imm_export(tier: str):
    consts = dict(MaxCmds=3 if tier == "quick" else 4, MaxDepth=2, RelD={0, 1, 2}, AbsT={0, 1}, MaxT=1)
    res = tlc.run("ImmediateSched", tlc.cfg_text(consts, invariants=IMM_INVS + ["Export"]), workers=1, timeout=1500,
                  coverage=True, allow_violation=False)
    return res, consts


def _imm_program(hist: List[Dict[str, Any]]):
    """the exported history is the script: top-level commands and per-item bodies"""
    top: List[Any] = []
    bodies: Dict[int, List[Any]] = {}
    stack: List[int] = []
    for ev in hist:
        cur = bodies.setdefault(stack[-1], []) if stack else top
        if ev["e"] == "call":
            cur.append(("sched", ev["op"], ev["d"], ev["item"]))
        elif ev["e"] == "sleep":
            cur.append(("sleep", ev["d"]))
        elif ev["e"] == "start":
            stack.append(ev["item"])
            bodies.setdefault(ev["item"], [])
        elif ev["e"] == "end":
            stack.pop()
    return top, bodies


def imm_judge(hist: List[Dict[str, Any]], form: str) -> Optional[Dict[str, Any]]:
    """perform the program on the real ImmediateScheduler (controlled clock) and compare the event sequences"""
    import threading
    from datetime import timedelta
    from reactivex import abc as rxabc
    from reactivex.internal.exceptions import WouldBlockException
    from reactivex.scheduler import ImmediateScheduler
    top, bodies = _imm_program(hist)
    clock = [0]
    events: List[Dict[str, Any]] = []
    S = ImmediateScheduler()
    me = threading.get_ident()

    def run(cmds, depth):
        for c in cmds:
            if c[0] == "sleep":
                clock[0] += c[1]
                events.append({"e": "sleep", "d": c[1], "depth": depth, "t": clock[0]})
                continue
            _, op, d, item = c
            events.append({"e": "call", "op": op, "d": d, "item": item, "depth": depth, "t": clock[0]})

            def act(sched, state=None, item=item):
                ev = {"e": "start", "item": item, "depth": depth + 1, "t": clock[0]}
                if state != ("st", item) or sched is not S or threading.get_ident() != me:
                    ev["bad"] = "state/scheduler/thread"
                events.append(ev)
                run(bodies.get(item, []), depth + 1)
                events.append({"e": "end", "item": item, "depth": depth + 1, "t": clock[0]})
                return None
            try:
                if op == "imm":
                    r = S.schedule(act, ("st", item))
                elif op == "rel":
                    r = S.schedule_relative(timedelta(seconds=d) if form == "timedelta" else float(d), act, ("st", item))
                else:
                    r = S.schedule_absolute(shims.EPOCH + timedelta(seconds=d), act, ("st", item))
                res = "ok" if isinstance(r, rxabc.DisposableBase) else "not-a-disposable"
            except WouldBlockException:
                res = "wouldblock"
            except Exception as e:  # noqa: BLE001
                res = "exc:" + type(e).__name__
            events.append({"e": "ret", "res": res, "item": item, "depth": depth, "t": clock[0]})

    with shims.patched(extra={"reactivex.scheduler.scheduler": {"default_now": lambda: shims.EPOCH + timedelta(seconds=clock[0])}},
                       only=["reactivex.scheduler.scheduler"]):
        run(top, 0)
    if events != hist:
        k = next((i for i, (a, b) in enumerate(zip(events, hist)) if a != b), min(len(events), len(hist)))
        exp = hist[k] if k < len(hist) else {"e": "nothing"}
        got = events[k] if k < len(events) else {"e": "nothing"}
        call = next((ev for ev in hist if ev["e"] == "call" and ev.get("item") == exp.get("item")), {})
        return {"engine": "immediate", "sched": "immediate", "form": form, "history": hist, "observed": events, "diverges_at": k,
                "expected_event": exp, "observed_event": got, "op": call.get("op"), "d": call.get("d"),
                "failure": "ran_with_positive_delay" if exp.get("res") == "wouldblock" and got.get("e") == "start" else
                           ("refused_nonpositive_delay" if got.get("res") == "wouldblock" else "not_synchronous_or_other")}
    return None


IMPL_INVS = ["Serial", "OneThread", "Fifo", "DueOrder", "CrossOrderTI", "CrossOrderIT", "NotEarly", "CancelledNeverRuns", "NoRunAfterDisposeReturned",
             "ThreadForPending", "NoLostWakeup"]
IMPL_ACTIONS = ["c0", "c1", "c2", "c3", "k1", "k2", "d1", "d2", "l0", "l1", "l2", "l3", "l4", "l5", "l6", "lx", "t0"]


def impl_design(tier: str):
    """PlusCal model of run() / schedule_absolute / dispose at lock granularity (EventLoopImpl.tla), all interleavings with a
    freely ticking clock: design assurance.  A failure here is model drift, never a violation."""
    if tier == "quick":
        cfgs = [dict(Clients={1}, Loops={11, 12}, Items={1, 2}, ExitModes={True, False}, MaxT=1, MaxCalls=3, RelD={1}, AbsT={0})]
    else:
        cfgs = [dict(Clients={1, 2}, Loops={11, 12, 13}, Items={1, 2}, ExitModes={True, False}, MaxT=1, MaxCalls=2, RelD={1}, AbsT={0}),
                dict(Clients={1}, Loops={11, 12, 13}, Items={1, 2, 3}, ExitModes={True, False}, MaxT=1, MaxCalls=4, RelD={1}, AbsT={0})]
    out = []
    for consts in cfgs:
        res = tlc.run("EventLoopImpl", tlc.cfg_text(consts, spec="Spec", invariants=IMPL_INVS), workers=2 if tier == "quick" else 4,
                      timeout=3000, coverage=True, allow_violation=True)
        res.lines = []
        drift = None
        if not res.ok:
            drift = f"EventLoopImpl.tla (lock-granularity model of the code) violates {res.violated}: the design-level result does not transfer"
        else:
            cov = coverage_of(res)
            never = [a for a in IMPL_ACTIONS if cov.get(a, 0) == 0]
            if never:
                drift = f"EventLoopImpl.tla: labels never reached {never}"
        label = "PlusCal model of run()/schedule/dispose at lock granularity, all interleavings " + str(
            {k: (sorted(v) if isinstance(v, set) else v) for k, v in consts.items()})
        res.raw = res.raw[-3000:]
        out.append((label, res, drift))
    return out


def jvm_for(tier: str) -> None:
    """short TLC runs on a busy box: C1 only, few GC threads (JVM start and JIT warm-up dominate otherwise)"""
    import os
    if tier == "quick":
        os.environ["_JAVA_OPTIONS"] = "-XX:TieredStopAtLevel=1 -XX:ParallelGCThreads=2 -XX:CICompilerCount=1"
    else:
        os.environ["_JAVA_OPTIONS"] = "-XX:ParallelGCThreads=4"


# ---- for C35 (owned by another bundle): schedule_periodic under the controlled clock -------------------------------------------
def periodic_traces(kind: str = "eventloop", period: int = 2, nticks: int = 3, dispose_at: Optional[int] = None,
                    raise_at: Optional[int] = None, action_sleep: int = 0, exit_if_empty: bool = False,
                    max_workers: Optional[int] = None, horizon: Optional[int] = None, bound: int = 1,
                    per_level: Sequence[int] = (1, 20, 10), nrandom: int = 5, seed: int = 0) -> List[Dict[str, Any]]:
    """Run `scheduler.schedule_periodic(period, action, state=0)` on the real scheduler of `kind`
    ("eventloop" | "newthread" | "threadpool" | "timeout") under DetSched and the controlled clock, for the level-sampled
    schedules up to `bound` preemptions plus `nrandom` seeded random ones.

    The action logs a tick, optionally sleeps `action_sleep` (controlled clock), raises RuntimeError at its `raise_at`-th
    invocation (1-based) and otherwise returns state + 1.  A client thread T1 makes the schedule_periodic call and, when
    `dispose_at` is given, sleeps until that clock and disposes the returned disposable; a time-keeper lets the clock run to
    `horizon` (default period * (nticks + 1)).

    Returns one dict per DISTINCT outcome:
      ticks        [(clock in seconds, state_in), ...] in invocation order (events carry integer microseconds in `t`)
      tick_threads thread id per tick (11.. = threads started by the library)
      sched_ret_t / dispose_call_t / dispose_ret_t   clocks of the client's calls (None when absent)
      raised       invocation index at which the action raised (None)
      thread_exc   repr of exceptions that killed logical threads
      deadlocked, steplimit, final_clock, schedules (multiplicity), decisions (one schedule producing it)
    No judgement is made here: C35's own specification decides."""
    hz = horizon if horizon is not None else period * (nticks + 1)
    outcomes: Dict[str, Dict[str, Any]] = {}

    def run_one(choose):
        def build(ds):
            rig = Rig(ds, kind, exit_if_empty, None, max_workers, log_threads=False)
            ds.trace[:] = []
            info = {"n": 0}
            ds.info = info

            def action(state):
                info["n"] += 1
                rig.log(e="tick", state=state, k=info["n"])
                if action_sleep:
                    shims.sleep(action_sleep)
                if raise_at is not None and info["n"] == raise_at:
                    rig.log(e="raise", k=info["n"])
                    raise RuntimeError("periodic action failed")
                return (state or 0) + 1

            def client():
                rig.log(e="call", op="periodic")
                d = rig.S.schedule_periodic(float(period), action, 0)
                rig.log(e="ret", op="periodic")
                if dispose_at is not None:
                    shims.sleep(max(0.0, dispose_at - ds.clock))
                    rig.log(e="call", op="dispose")
                    d.dispose()
                    rig.log(e="ret", op="dispose")
            ds.spawn("T1", client)
            ds.spawn("TK", lambda: shims.sleep(hz))
        return fastsched.run_execution(build, choose, focus=FOCUS_ALL + ("reactivex/scheduler/periodicscheduler.py",),
                                       max_steps=20000, reuse_threads=True)

    with shims.patched(extra=patches()):
        ex = fastsched.LevelExplorer(bound=bound, per_level=per_level, random_schedules=nrandom, seed=seed)
        for ds in ex.explore(run_one):
            tr = list(ds.trace)

            def first(pred):
                return next((ev["t"] / 1e6 for ev in tr if pred(ev)), None)
            out = {
                "kind": kind, "period": period,
                "ticks": [(ev["t"] / 1e6, ev["state"]) for ev in tr if ev["e"] == "tick"],
                "tick_threads": [ev["th"] for ev in tr if ev["e"] == "tick"],
                "sched_ret_t": first(lambda ev: ev["e"] == "ret" and ev.get("op") == "periodic"),
                "dispose_call_t": first(lambda ev: ev["e"] == "call" and ev.get("op") == "dispose"),
                "dispose_ret_t": first(lambda ev: ev["e"] == "ret" and ev.get("op") == "dispose"),
                "raised": next((ev["k"] for ev in tr if ev["e"] == "raise"), None),
                "thread_exc": [repr(t.exc)[:120] for t in ds.threads if t.exc is not None],
                "deadlocked": ds.deadlocked, "steplimit": ds.step_limit_hit, "final_clock": ds.clock,
                "events": tr,
            }
            key = json.dumps(out, sort_keys=True, default=str)
            if key not in outcomes:
                out["schedules"] = 0
                out["decisions"] = [d[1] for d in ds.decisions]
                outcomes[key] = out
            outcomes[key]["schedules"] += 1
    return list(outcomes.values())


# ---- recorded executions against the PlusCal model (model drift only) ------------------------------------------------------------
def _impl_eligible(tr: List[Dict[str, Any]]) -> bool:
    if any(ev["e"] in ("deadlock", "steplimit", "exc") for ev in tr):
        return False
    if any(ev["e"] == "call" and ev["th"] > 10 for ev in tr):          # API calls from inside an action: no process for it
        return False
    return sum(1 for ev in tr if ev["e"] == "call" and ev["op"] == "dispose") <= 1


def _impl_rename(tr: List[Dict[str, Any]]) -> List[Dict[str, Any]]:
    """items in order of their schedule calls (the model hands out MinOf(Fresh)); the set-up thread 0 becomes client 4"""
    ren: Dict[int, int] = {}
    for ev in tr:
        if ev["e"] == "call" and ev["op"] in ("imm", "rel", "abs"):
            ren[ev["item"]] = len(ren) + 1
    out = []
    for ev in tr:
        ev = dict(ev)
        if ev.get("item"):
            ev["item"] = ren.get(ev["item"], ev["item"])
        if ev.get("th") == 0 and ev["e"] in ("call", "ret"):
            ev["th"] = 4
        out.append(ev)
    return out


def impl_trace_check(ck, rows, cap: int = 1500) -> None:
    """every eligible recorded execution must be a behaviour of EventLoopImpl.tla (hidden pcs inferred by TLC) that satisfies its
    invariants; a miss is model drift"""
    traces = [_impl_rename(r[0]) for r in rows if r[1]["kind"] == "eventloop" and _impl_eligible(r[0])]
    if len(traces) > cap:
        step = len(traces) / float(cap)
        traces = [traces[int(i * step)] for i in range(cap)]
    if not traces:
        return
    nitems = max([1] + [ev["item"] for tr in traces for ev in tr if ev.get("item")])
    loops = max([11] + [ev["th"] for tr in traces for ev in tr if ev.get("th", 0) > 10])
    rel = {max(0, ev["d"]) for tr in traces for ev in tr if ev["e"] == "call" and ev["op"] == "rel"} | {0}
    abs_ = {ev["d"] for tr in traces for ev in tr if ev["e"] == "call" and ev["op"] == "abs"} | {0}
    consts = dict(Clients={1, 2, 3, 4}, Loops=set(range(11, loops + 1)), Items=set(range(1, nitems + 1)), ExitModes={True, False},
                  MaxT=0, MaxCalls=1000, RelD=rel, AbsT=abs_)
    rejected, ress = validate_parallel("EventLoopImplTrace", consts, traces, IMPL_INVS, parts=2)
    for r in ress:
        ck.add_tlc(r, f"recorded executions matched against the PlusCal model ({len(traces)} traces)")
    ck.note("impl_traces_matched", len(traces) - len(rejected))
    ck.note("impl_traces_unexplained", len(rejected))
    for (idx, upto) in rejected[:5]:
        tr = traces[idx]
        ck.drift(f"EventLoopImpl.tla cannot explain a recorded execution beyond event {upto} "
                 f"({json.dumps(tr[upto]) if upto < len(tr) else 'end'}): trace {json.dumps(tr)[:600]}")
