"""Bundle "res": codecs and replayers for OpsResource.tla (C40) and Bridges.tla (C41).

Python holds only the codec (tokens <-> Python values, instant indices <-> virtual times, model
commands <-> API calls) and the recorder; every expectation comes from the TLC export."""
from __future__ import annotations

import json
import signal
import sys
from typing import Any, Dict, List, Optional

NEVER = 99
NEVER_T = sys.maxsize


class FnErr(Exception):
    """raised by a scenario's user callback"""


class SrcErr(Exception):
    """the source's own on_error value"""


class ResFacErr(Exception):
    """raised by the resource factory"""


class ObsFacErr(Exception):
    """raised by the observable factory"""


class Hang(BaseException):
    pass


def preload():
    """import the library in the parent so that forked workers do not each compile it again"""
    import asyncio  # noqa: F401
    import concurrent.futures  # noqa: F401
    import reactivex  # noqa: F401
    import reactivex.operators  # noqa: F401
    import reactivex.operators._do  # noqa: F401
    import reactivex.run  # noqa: F401
    import reactivex.scheduler  # noqa: F401
    import reactivex.testing  # noqa: F401


def _alarm(signum, frame):
    raise Hang()


class watchdog:
    """wall-clock guard around a real run (a hang is an observation, never a wait)"""

    def __init__(self, seconds: float):
        self.seconds = seconds

    def __enter__(self):
        self.old = signal.signal(signal.SIGALRM, _alarm)
        signal.setitimer(signal.ITIMER_REAL, self.seconds)

    def __exit__(self, *a):
        signal.setitimer(signal.ITIMER_REAL, 0)
        signal.signal(signal.SIGALRM, self.old)
        return False


# =================================================================================================
#  C40 - OpsResource.tla
# =================================================================================================
C40_OPS = ["using", "finally_action", "do_finally", "do_action", "do_observer", "do_after_next",
           "do_on_subscribe", "do_on_dispose", "do_on_terminate", "do_after_terminate",
           "do_action_n", "do_action_ec", "do_action_0"]
DO_ACTION_GIVEN = {"do_action": ("next", "error", "completed"), "do_action_n": ("next",), "do_action_ec": ("error", "completed"), "do_action_0": ()}
C40_INVS = ["OwedDespiteRaisingSubscriber", "Grammar", "ResourceDisposedExactlyOnce", "ResourceDisposedAtClose", "OneResourcePerSubscription",
            "FinallyExactlyOnce", "FinallyAfterTerminal", "Silent", "Released", "Causal", "RefOK", "DoIsTransparent", "Resub"]

PLAIN = [["v0", "v1", "v2"], [10, 11, 12]]
FALSY = [None, 0, "", (), [], {}, 0.0, False]


def make_vals(profile: str, k: int, salt: int) -> List[Any]:
    if profile == "plain":
        return list(PLAIN[salt % 2][:k])
    return [FALSY[(salt + t) % len(FALSY)] for t in range(k)]


def time_map(name: str, n: int) -> List[int]:
    """T[j] for j = 0..n; 0 is the subscription instant (relative to it: T[0] = 0)."""
    if name == "spread":
        return [10 * j for j in range(n + 1)]
    if name == "bunched":   # adjacent events share an instant
        return [0] + [10 * ((j + 1) // 2) for j in range(1, n + 1)]
    if name == "same":      # every event at one instant after the subscription
        return [0] + [10] * n
    if name == "sync":      # every event inside the subscribe call
        return [0] * (n + 1)
    raise ValueError(name)


class Run40:
    """One real execution of a C40 scenario."""

    def __init__(self, scn, variant):
        self.scn, self.variant = scn, variant
        self.ns = scn["ns"]
        self.logs: List[List[list]] = [[] for _ in range(self.ns)]
        self.ctx = 0            # subscription whose code is running (set at every entry point)
        self.res: Dict[int, Any] = {}
        self.sched_ok: List[Optional[bool]] = [None] * self.ns
        self.src_index: List[Optional[int]] = [None] * self.ns
        self.problems: List[str] = []
        self.sub_raised: Dict[int, Any] = {}
        self.ts = None

    def log(self, w, k="", v=None, e=None):
        self.logs[self.ctx].append([self.clk(), w, k, v, e])


def _build(run: Run40, xs, vals):
    """the observable under test"""
    import reactivex
    from reactivex import abc
    from reactivex import operators as ops
    from reactivex.operators import _do
    op, flt = run.scn["op"], run.scn["flt"]
    fw, fk = flt["w"], flt["k"]

    def counted(name, per_elem):
        """tap callback: logs itself, raises at the scenario's fault position"""
        calls = {}   # per subscription

        def cb(*a):
            s = run.ctx
            calls[s] = calls.get(s, 0) + 1
            run.log("cb", name, a[0] if per_elem else None)
            if fw == name and (not per_elem or calls[s] == fk):
                raise FnErr(name)
        return cb

    if op == "using":
        class Res(abc.DisposableBase):
            def __init__(self, s):
                self.s, self.n = s, 0

            def dispose(self):
                self.n += 1
                saved, run.ctx = run.ctx, self.s
                run.log("res")
                run.ctx = saved

        class FalsyRes(Res):
            def __bool__(self):
                return False

        from reactivex.disposable import CompositeDisposable

        class EmptyCompositeRes(CompositeDisposable):
            def __init__(self, s):
                super().__init__()
                self.s, self.n = s, 0

            def dispose(self):
                self.n += 1
                saved, run.ctx = run.ctx, self.s
                run.log("res")
                run.ctx = saved
                super().dispose()

        def resfac():
            run.log("mk")
            if fw == "resfac":
                raise ResFacErr()
            if fw == "resnone":
                return None
            # resource profile (like the value profiles): an ordinary truthy disposable, one whose truth value is
            # False, or a still-empty CompositeDisposable (it defines __len__) that the observable factory fills
            kind = run.variant.get("resource", "plain")
            r = {"plain": Res, "falsy_bool": FalsyRes, "empty_composite": EmptyCompositeRes}[kind](run.ctx)
            run.res[run.ctx] = r
            return r

        def obsfac(r):
            run.log("of", "", 1 if r is run.res.get(run.ctx) else 0)
            if fw == "obsfac":
                raise ObsFacErr()
            if isinstance(r, CompositeDisposable):
                from reactivex.disposable import Disposable
                r.add(Disposable())      # the inner observable's own handle lives in the resource
            return xs
        return reactivex.using(resfac, obsfac)
    fin = lambda: run.log("fin")
    fluent = run.variant.get("form") == "fluent"
    if op == "finally_action":
        return xs.finally_action(fin) if fluent else xs.pipe(ops.finally_action(fin))
    if op == "do_finally":
        return _do.do_finally(fin)(xs) if run.variant.get("form") == "direct" else xs.pipe(_do.do_finally(fin))
    if op in DO_ACTION_GIVEN:
        given = DO_ACTION_GIVEN[op]
        cbs = (counted("next", True) if "next" in given else None, counted("error", False) if "error" in given else None,
               counted("completed", False) if "completed" in given else None)
        if run.variant.get("form") == "kw":     # only the given ones, by keyword
            kw = {"on_" + n: c for n, c in zip(("next", "error", "completed"), cbs) if c is not None}
            return xs.pipe(ops.do_action(**kw))
        return xs.do_action(*cbs) if fluent else xs.pipe(ops.do_action(*cbs))
    if op == "do_observer":
        class Tap(abc.ObserverBase):
            on_next = staticmethod(counted("next", True))
            on_error = staticmethod(counted("error", False))
            on_completed = staticmethod(counted("completed", False))
        return xs.pipe(ops.do(Tap()))
    if op == "do_after_next":
        return _do.do_after_next(xs, counted("after_next", True))
    if op == "do_on_subscribe":
        return _do.do_on_subscribe(xs, counted("subscribe", False))
    if op == "do_on_dispose":
        return _do.do_on_dispose(xs, counted("dispose", False))
    if op == "do_on_terminate":
        return _do.do_on_terminate(xs, counted("terminate", False))
    if op == "do_after_terminate":
        return _do.do_after_terminate(xs, counted("after_terminate", False))
    raise ValueError(op)


def run40(scn: Dict[str, Any], variant: Dict[str, Any], budget: float = 20.0) -> Optional[Dict[str, Any]]:
    """variant: kind hot|cold|sync, tmap, profile, salt, dmode tie|gap|inside, stagger, k.
    Returns the raw observation, or None when the variant cannot realise the scenario."""
    import time as _time
    t_begin = _time.time()
    import reactivex
    from reactivex import Observable
    from reactivex.disposable import Disposable
    from reactivex.scheduler import VirtualTimeScheduler
    from reactivex.testing import ReactiveTest, TestScheduler
    src, term, ns, dsp = scn["src"], scn["term"], scn["ns"], scn["dsp"]
    kind, tmap, dmode = variant["kind"], variant["tmap"], variant["dmode"]
    stagger = variant.get("stagger", 0)
    n = len(src) + (0 if term == "U" else 1)
    if kind == "sync":
        tmap = "sync"
    sraise = bool(scn.get("sraise"))
    boom = bool(variant.get("boom"))          # the source's subscribe function itself raises
    if boom and (kind != "sync" or src or term != "E"):
        return None
    if variant.get("sink") == "default" and not sraise:
        return None
    T = time_map(tmap, n + 1)
    vals = make_vals(variant["profile"], variant["k"], variant.get("salt", 0))
    run = Run40(scn, variant)
    clock = variant.get("clock", "test")
    if clock == "hist":
        # second clock kind: HistoricalScheduler (aware datetimes, 1 tick = 1 s); only the harness's own
        # scheduler-dependent cold source and the synchronous source exist there
        if kind not in ("dcold", "sync"):
            return None
        from datetime import timedelta
        from reactivex.scheduler import HistoricalScheduler
        from reactivex.scheduler.scheduler import UTC_ZERO
        ts = HistoricalScheduler()
        A = lambda t: UTC_ZERO + timedelta(seconds=t)
        R = lambda d: timedelta(seconds=d)
        run.clk = lambda: (ts.clock - UTC_ZERO).total_seconds()
    else:
        ts = TestScheduler()
        A = lambda t: float(t)
        R = lambda d: float(d)
        run.clk = lambda: ts.clock
    run.ts = ts
    src_err = SrcErr("src")
    BASE = 200
    if kind == "hot" and stagger:
        return None
    # ---- dispose instants ---------------------------------------------------------------
    dplan = []   # per subscription: None | (mode, relative time, event index)
    for s in range(ns):
        d = dsp[s]
        if d == NEVER:
            dplan.append(None)
            continue
        i, b = d // 2, d % 2
        if kind == "sync":
            # everything happens inside subscribe(): the only dispose points are "after all of it"
            if i < n or b:
                return None
            dplan.append(("tie", 5, i))
            continue
        if b == 1:
            if T[i + 1] == T[i] and i > 0:
                return None          # events i and i+1 share the instant: nothing can come between them
            dplan.append(("pre", T[i + 1], i))
        elif dmode == "inside":
            # dispose() called from inside the subscriber's own callback for event i.  Not used where
            # the model delivers a second notification for the same source event (after_next raising
            # on that very element): the model's event step is atomic
            if i < 1 or (scn["flt"]["w"] == "after_next" and scn["flt"]["k"] == i):
                return None
            dplan.append(("inside", T[i], i))
        elif dmode == "gap":
            if i < n and T[i + 1] - T[i] < 2:
                return None
            dplan.append(("gap", T[i] + 3, i))
        else:
            if i < n and T[i + 1] == T[i]:
                return None
            dplan.append(("tie", T[i], i))
    # ---- the source -------------------------------------------------------------------
    holders: List[Dict[str, Any]] = [{} for _ in range(ns)]
    start = [BASE + s * stagger for s in range(ns)]

    def do_dispose(s):
        def act(*_):
            run.ctx = s
            holders[s]["d"].dispose()
        return act

    # "pre" disposals must be queued before the source's own events of that instant
    for s in range(ns):
        if dplan[s] and dplan[s][0] == "pre":
            ts.schedule_absolute(A(start[s] + dplan[s][1]), do_dispose(s))
    syncsubs: List[list] = []
    if kind == "sync":
        def sync_subscribe(observer, scheduler=None):
            rec = [run.clk(), NEVER_T]
            syncsubs.append(rec)
            if boom:
                raise src_err
            for t in src:
                observer.on_next(vals[t])
            if term == "C":
                observer.on_completed()
            elif term == "E":
                observer.on_error(src_err)
            return Disposable(lambda: rec.__setitem__(1, run.clk()))
        inner = Observable(sync_subscribe)
    elif kind == "dcold":
        # a cold source that lives on the scheduler it is subscribed with (like timer/interval/of do)
        from reactivex.disposable import CompositeDisposable

        def dcold_subscribe(observer, scheduler=None):
            sch = scheduler if scheduler is not None else ts      # (not forwarded: reported by the probe)
            rec = [run.clk(), NEVER_T]
            syncsubs.append(rec)
            group = CompositeDisposable()
            evs = [("N", vals[t]) for t in src] + ([("C", None)] if term == "C" else [("E", src_err)] if term == "E" else [])
            for j, (kd, x) in enumerate(evs, start=1):
                def act(_s, _st=None, kd=kd, x=x):
                    if kd == "N":
                        observer.on_next(x)
                    elif kd == "C":
                        observer.on_completed()
                    else:
                        observer.on_error(x)
                group.add(sch.schedule_relative(R(T[j]), act))
            group.add(Disposable(lambda: rec.__setitem__(1, run.clk())))
            return group
        inner = Observable(dcold_subscribe)
    else:
        msgs = []
        off = BASE if kind == "hot" else 0
        for j, t in enumerate(src, start=1):
            msgs.append(ReactiveTest.on_next(off + T[j], vals[t]))
        if term == "C":
            msgs.append(ReactiveTest.on_completed(off + T[n]))
        elif term == "E":
            msgs.append(ReactiveTest.on_error(off + T[n], src_err))
        inner = ts.create_hot_observable(msgs) if kind == "hot" else ts.create_cold_observable(msgs)

    def probe_subscribe(observer, scheduler=None):
        s = run.ctx
        run.sched_ok[s] = scheduler is ts
        before = len(syncsubs) if kind in ("sync", "dcold") else len(inner.subscriptions)
        run.src_index[s] = before

        def on_next(v):
            run.ctx = s
            observer.on_next(v)

        def on_error(e):
            run.ctx = s
            observer.on_error(e)

        def on_completed():
            run.ctx = s
            observer.on_completed()
        return inner.subscribe(on_next, on_error, on_completed, scheduler=scheduler)
    xs = Observable(probe_subscribe)
    ys = _build(run, xs, vals)

    # ---- the subscribers -----------------------------------------------------------------
    def make_sub(s):
        plan = dplan[s]
        seen = [0]

        def maybe_inside():
            seen[0] += 1
            if plan and plan[0] == "inside" and seen[0] == plan[2]:
                run.ctx = s
                if "d" in holders[s]:
                    holders[s]["d"].dispose()
                else:     # still inside subscribe(): dispose as soon as it has returned
                    holders[s]["pending"] = True

        def on_next(v):
            run.ctx = s
            run.log("sink", "N", v)
            maybe_inside()

        def on_error(e):
            run.ctx = s
            run.log("sink", "E", None, e)
            maybe_inside()
            if sraise:          # the subscriber's handler raises (the default handler does exactly this)
                raise e

        def on_completed():
            run.ctx = s
            run.log("sink", "C")
            maybe_inside()

        def subscribe(*_):
            run.ctx = s
            try:
                if variant.get("sink") == "default":     # no on_error given at all: reactivex's default handler raises
                    holders[s]["d"] = ys.subscribe(on_next, None, on_completed, scheduler=ts)
                else:
                    holders[s]["d"] = ys.subscribe(on_next, on_error, on_completed, scheduler=ts)
            except Exception as e:
                if not sraise:
                    raise
                run.sub_raised[s] = e      # subscribe() itself raised: no subscription handle exists
                return
            if holders[s].get("pending"):
                holders[s]["d"].dispose()
            if plan and plan[0] in ("tie", "gap"):
                ts.schedule_absolute(A(start[s] + plan[1]), do_dispose(s))
        return subscribe
    for s in range(ns):
        ts.schedule_absolute(A(start[s]), make_sub(s))
    escaped = None
    try:
        with watchdog(budget):
            VirtualTimeScheduler.start(ts)
    except Hang:
        escaped = Hang(f"after {_time.time() - t_begin:.1f}s wall")
    except Exception as e:   # an exception that escaped into the scheduler / the emitter
        escaped = e
    subs = syncsubs if kind in ("sync", "dcold") else [(x.subscribe, x.unsubscribe) for x in inner.subscriptions]
    return {"run": run, "T": T, "vals": vals, "src_err": src_err, "start": start, "dplan": dplan, "escaped": escaped,
            "subs": subs, "res_counts": {s: r.n for s, r in run.res.items()}}


ERR_CLASS = {"fn": FnErr, "resfac": ResFacErr, "obsfac": ObsFacErr}
# operators for which the relative order of *all* logged events is part of the statement; for
# using() the order between the resource's disposal and the terminal's delivery is not stated
ORDER_FREE = {"using"}


def compare40(scn, exp, got) -> Optional[str]:
    """None when the observation equals this allowed one on the asserted projection."""
    run, T, vals = got["run"], got["T"], got["vals"]
    op, flt = scn["op"], scn["flt"]
    esc_ok = bool(exp.get("esc"))      # the subscriber's own handler raises: that exception is expected to travel back
    if got["escaped"] is not None and flt["w"] != "after_terminate" and not (esc_ok and got["escaped"] is got["src_err"]):
        return f"escaped:{type(got['escaped']).__name__}"
    for s in range(scn["ns"]):
        elog, rlog = exp["log"][s], run.logs[s]
        if run.variant.get("sink") == "default":      # no handler of ours saw the error: it is not in the real log
            elog = [e for e in elog if not (e["w"] == "sink" and e["k"] == "E")]
        if s in run.sub_raised and run.sub_raised[s] is not got["src_err"]:
            return f"subscribe_raised:{type(run.sub_raised[s]).__name__}"
        plan = got["dplan"][s]
        t0 = got["start"][s]
        terminated = any(e["w"] == "sink" and e["k"] != "N" for e in elog)

        def when(e):
            if e["d"] == 1:
                return t0 + plan[1]
            return t0 + T[e["at"]]
        if any(e["w"] == "sink" and e["e"] == "fn" for e in elog):
            # a tap callback raised: what the taps are shown afterwards (by a source that keeps
            # emitting) is not part of this statement
            cut = next((j for j, r in enumerate(rlog) if r[1] == "sink" and r[2] == "E"), len(rlog))
            extra = [r for r in rlog[cut + 1:] if r[1] == "cb"]
            if extra:
                run.post_fault_taps = getattr(run, "post_fault_taps", 0) + len(extra)
                rlog = rlog[:cut + 1] + [r for r in rlog[cut + 1:] if r[1] != "cb"]
        if op in ORDER_FREE:
            key = lambda w: {"res": 1}.get(w, 0)
            pairs = list(zip(sorted(elog, key=lambda e: key(e["w"])), sorted(rlog, key=lambda r: key(r[1]))))
        else:
            pairs = list(zip(elog, rlog))
        if len(elog) != len(rlog):
            ew = [e["w"] + ":" + e["k"] for e in elog]
            rw = [r[1] + ":" + r[2] for r in rlog]
            for w in ("fin", "res", "mk", "sink", "cb"):
                ce, cr = sum(1 for e in elog if e["w"] == w), sum(1 for r in rlog if r[1] == w)
                if ce != cr:
                    return f"count_{w}:{cr}!={ce}:sub{s + 1}"
            return f"count:{rw}!={ew}"
        for e, r in pairs:
            t, w, k, v, err = r
            if w != e["w"] or k != e["k"]:
                return f"order:{w}/{k}!={e['w']}/{e['k']}:sub{s + 1}"
            if t != when(e):
                return f"time_{w}:{t}!={when(e)}:sub{s + 1}"
            if (w == "sink" and k == "N") or (w == "cb" and k in ("next", "after_next")):
                if v is not vals[e["v"]]:
                    return f"value:{v!r}"
            if w == "of" and v != e["v"]:
                return "observable factory did not receive the resource"
            if w == "sink" and k == "E":
                if e["e"] == "src":
                    if err is not got["src_err"]:
                        return f"error:{type(err).__name__}"
                elif not isinstance(err, ERR_CLASS[e["e"]]):
                    return f"error:{type(err).__name__}!={e['e']}"
        # the source subscription of this subscriber
        u = exp["unsub"][s]
        idx = run.src_index[s]
        if run.variant.get("boom") or s in run.sub_raised:
            continue      # the source's subscription never came into existence: no interval to compare
        if u == -1:
            if idx is not None:
                return f"source subscribed although nothing was to be subscribed:sub{s + 1}"
        else:
            if idx is None or idx >= len(got["subs"]):
                return f"source not subscribed:sub{s + 1}"
            if run.sched_ok[s] is not True:
                return f"scheduler_not_forwarded:sub{s + 1}"
            a, z = got["subs"][idx]
            if a != t0:
                return f"subscribed_at:{a}"
            if u == NEVER:
                want = NEVER_T
            elif not terminated and plan is not None:
                want = t0 + plan[1]
            else:
                want = t0 + T[u]
            if z != want:
                return f"unsub:{z}!={want}:sub{s + 1}"
    for s, cnt in got["res_counts"].items():
        if cnt > 1:
            return f"count_res:{cnt}:sub{s + 1}"
    return None


def describe40(got):
    run = got["run"]
    return {"logs": [[[t, w, k, repr(v), repr(e)] for t, w, k, v, e in lg] for lg in run.logs], "subs": [list(x) for x in got["subs"]],
            "sched_forwarded": run.sched_ok, "escaped": repr(got["escaped"]) if got["escaped"] is not None else None,
            "dispose_plan": got["dplan"]}


def judge40(scn, allowed, variant):
    got = run40(scn, variant)
    if got is None:
        return "n/a"
    if isinstance(got["escaped"], Hang):     # a loaded machine must not turn into a verdict: confirm with a long budget
        first = got["escaped"]
        got = run40(scn, variant, budget=120.0)
        if not isinstance(got["escaped"], Hang):
            sys.stderr.write(f"[res40] watchdog fired {first.args} on a run that finishes; ignored\n")
    reasons = []
    for exp in allowed:
        r = compare40(scn, exp, got)
        if r is None:
            return None
        reasons.append(r)
    return {"engine": "res40", "op": scn["op"], "fault": scn["flt"]["w"], "scn": scn, "expected": allowed, "observed": describe40(got),
            "reason": reasons[0], "reason_kind": reasons[0].split(":")[0], "variant": variant,
            "subs": scn["ns"], "kind": variant["kind"], "subscriber_on_error_raises": bool(scn.get("sraise"))}


def variants40(scn, tier, k):
    """index->time maps x source kinds x dispose realisations for one scenario"""
    h = sum(map(ord, json.dumps(scn, sort_keys=True)))
    out = []
    base = dict(profile="plain", salt=h % 2, k=k, stagger=0)
    out.append(dict(base, kind="cold", tmap="spread", dmode="tie"))
    out.append(dict(base, kind="hot", tmap="spread", dmode="tie", salt=(h + 1) % 2))
    out.append(dict(base, kind="cold", tmap="spread", dmode="gap", profile="falsy", salt=h % 8))
    out.append(dict(base, kind="hot", tmap="spread", dmode="inside", profile="falsy", salt=(h + 3) % 8))
    out.append(dict(base, kind="cold", tmap="bunched", dmode="tie"))
    out.append(dict(base, kind="hot", tmap="same", dmode="tie"))
    out.append(dict(base, kind="sync", tmap="sync", dmode="tie"))
    # second clock kind + a source that lives on the scheduler handed down by subscribe()
    out.append(dict(base, kind="dcold", tmap="spread", dmode="tie", clock="hist", profile="falsy", salt=(h + 2) % 8))
    out.append(dict(base, kind="dcold", tmap="same", dmode="inside", clock="test", form="fluent"))
    if scn["op"] in ("do_action_n", "do_action_ec", "do_action_0"):
        out.append(dict(base, kind="cold", tmap="spread", dmode="tie", form="kw"))
    if scn["ns"] == 2:
        out.append(dict(base, kind="cold", tmap="spread", dmode="tie", stagger=7))
        out.append(dict(base, kind="cold", tmap="spread", dmode="inside", stagger=1000))
    if tier != "quick":
        out.append(dict(base, kind="dcold", tmap="bunched", dmode="gap", clock="hist", form="fluent"))
        out.append(dict(base, kind="cold", tmap="same", dmode="inside"))
        if h % 2:
            out.append(dict(base, kind="sync", tmap="sync", dmode="tie", clock="hist"))
        else:
            out.append(dict(base, kind="hot", tmap="bunched", dmode="gap", profile="falsy", salt=(h + 5) % 8))
        if scn["op"] == "do_finally":
            out.append(dict(base, kind="cold", tmap="spread", dmode="tie", form="direct"))
    else:
        # quick tier: the two plain realisations always, the others in rotation (each scenario gets about half
        # of them; every realisation still meets thousands of scenarios)
        out = out[:2] + [v for j, v in enumerate(out[2:]) if (h + j) % 2 == 0]
    if scn["term"] == "E" and not scn["src"]:
        out.append(dict(base, kind="sync", tmap="sync", dmode="tie", boom=True))
    if scn.get("sraise"):
        out.append(dict(base, kind="sync", tmap="sync", dmode="tie", sink="default"))
        out.append(dict(base, kind="cold", tmap="spread", dmode="tie", sink="default"))
        out.append(dict(base, kind="sync", tmap="sync", dmode="tie"))
        if not scn["src"]:
            out.append(dict(base, kind="sync", tmap="sync", dmode="tie", boom=True, sink="default"))
    if scn["op"] == "using":
        # every using() scenario meets all three resource profiles; the two always-run realisations get the falsy ones
        prof = ("falsy_bool", "empty_composite", "plain")
        out = [dict(v, resource=prof[j % 3]) for j, v in enumerate(out)]
    return out


SLIM_DROP = ("scn", "expected", "observed")


def job40(args):
    """worker: (group index, scn, allowed, tier, k) -> (runs, slim failure records).  The bulky fields are
    re-attached by report() in the parent (shipping them through the pool costs more than the runs)"""
    gi, scn, allowed, tier, k = args
    n, fails = 0, []
    for v in variants40(scn, tier, k):
        f = judge40(scn, allowed, v)
        if f == "n/a":
            continue
        n += 1
        if f:
            fails.append(dict({x: y for x, y in f.items() if x not in SLIM_DROP}, gi=gi))
    return n, fails


def report(ck, groups, slim, rejudge):
    """parent: complete a slim failure record and hand it to the check context"""
    from harness import core
    slim = dict(slim)
    scn, allowed = groups[slim.pop("gi")]
    rec = dict(slim, scn=scn, expected=allowed)
    probe = dict(rec, property=ck.pid)
    if not any(core._match(e, probe) for e in ck.findings) and len(ck.violations) < 10:
        fulls = rejudge(scn, allowed, slim["variant"])
        fulls = [fulls] if isinstance(fulls, dict) else (fulls or [])
        for f in fulls:
            if f.get("reason_kind") == slim.get("reason_kind"):
                rec["observed"] = f.get("observed")
    ck.fail(rec)


def replay40(rec):
    f = judge40(rec["scn"], rec["expected"], rec["variant"])
    print(json.dumps(f, default=str)[:3000] if f else "replay: observation allowed by the spec")
    return 1 if f else 0


# =================================================================================================
#  C41 - Bridges.tla
# =================================================================================================
C41_NVALS = 2
C41_INVS = ["FFGrammar", "FFMatchesFuture", "FFDisposeCancels", "FFStable", "Quiet", "FFRefOK",
            "STOncePerCall", "STGrammar", "STRefOK", "CBExactlyOne", "CBServed", "CBRefOK",
            "TFRefOK", "TFPendingUntilTerminal", "TFReleased"]


class FutErr(Exception):
    """the exception a future is failed with"""


class FalsyErr(SrcErr):
    """an error value that is falsy (an exception type that defines __bool__/__len__)"""

    def __bool__(self):
        return False


class Rec:
    """recording subscriber"""

    def __init__(self):
        self.out: List[list] = []

    def subscribe(self, xs, **kw):
        return xs.subscribe(lambda v: self.out.append(["N", v]), lambda e: self.out.append(["E", e]),
                            lambda: self.out.append(["C", None]), **kw)


def _fst(fut) -> str:
    import asyncio
    import concurrent.futures
    if fut.cancelled():
        return "cancelled"
    if fut.done():
        return "exception" if fut.exception() is not None else "result"
    if isinstance(fut, concurrent.futures.Future) and fut.running():
        return "running"
    return "pending"


def _loop_step(loop):
    """exactly one iteration of the event loop: everything that is ready now runs"""
    loop.call_soon(loop.stop)
    loop.run_forever()


_LOOP = [None]


def shared_loop():
    """one private event loop per process, reused across histories (creating a loop costs a socketpair);
    it is never running outside _loop_step, and every history flushes it before it ends"""
    import asyncio
    if _LOOP[0] is None or _LOOP[0].is_closed():
        _LOOP[0] = asyncio.new_event_loop()
    return _LOOP[0]


def _is_cancel_error(e) -> bool:
    import asyncio
    import concurrent.futures
    return isinstance(e, (asyncio.CancelledError, concurrent.futures.CancelledError))


def bvals(profile: str, salt: int) -> List[Any]:
    return make_vals(profile, 3, salt)


# ---- ff -----------------------------------------------------------------------------------------
def perform_ff(scn, variant):
    import asyncio
    import concurrent.futures
    import reactivex
    cfg, hist = scn["cfg"], scn["hist"]
    vals = bvals(variant["profile"], variant.get("salt", 0))
    flavor = cfg["flavor"]
    aio = flavor in ("aio", "task")
    loop = shared_loop() if aio else None
    fut_err, fa_err = FutErr("fut"), FnErr("function_async")
    try:
        fut = loop.create_future() if aio else concurrent.futures.Future()
        settle = fut          # the object resolve / fail act on
        if flavor == "task":
            # an asyncio Task awaiting an inner future; started, so that it is parked on the inner future
            async def waiter(inner=fut):
                return await inner
            fut = loop.create_task(waiter())
            _loop_step(loop)
        try:
            if cfg["mode"] == "from_future":
                xs = reactivex.from_future(fut)
            elif cfg["mode"] == "start_async":
                xs = reactivex.start_async(lambda: fut)
            else:
                def boom():
                    raise fa_err
                xs = reactivex.start_async(boom)
        except Exception as e:     # building the observable raised: an observation, not a harness failure
            return {"snaps": [], "raised": [-1, type(e).__name__], "vals": vals, "fut_err": fut_err, "fa_err": fa_err}
        recs: Dict[int, Rec] = {}
        disp: Dict[int, Any] = {}
        snaps = []
        raised = None
        for pos, cmd in enumerate(hist):
            c, a = cmd["c"], cmd["a"]
            try:
                if c == "subscribe":
                    recs[a] = Rec()
                    disp[a] = recs[a].subscribe(xs)
                elif c == "resolve":
                    settle.set_result(vals[a])
                elif c == "fail":
                    settle.set_exception(fut_err)
                elif c == "cancel":
                    fut.cancel()
                elif c == "set_running":
                    fut.set_running_or_notify_cancel()
                elif c == "dispose":
                    disp[a].dispose()
                elif c == "step":
                    for _ in range(4 if flavor == "task" else 1):    # task: until quiescent
                        _loop_step(loop)
                else:
                    raise ValueError(c)
            except Exception as e:   # an API call of the history raised: an observation
                raised = [pos, type(e).__name__]
            snaps.append({"fst": _fst(fut), "out": {k: list(r.out) for k, r in recs.items()}})
        return {"snaps": snaps, "raised": raised, "vals": vals, "fut_err": fut_err, "fa_err": fa_err}
    finally:
        if loop is not None:
            if flavor == "task" and not fut.done():
                fut.cancel()
            for _ in range(3):
                _loop_step(loop)      # flush what this history left queued


def _note_matches(exp, got, ctx) -> Optional[str]:
    """one expected notification (model record) against one observed [kind, payload]"""
    kind, x = got
    if kind != exp["k"]:
        return f"kind:{kind}!={exp['k']}"
    if kind == "N":
        vk, v = exp["vk"], exp["v"]
        vals = ctx["vals"]
        if vk == "tok":
            if x is not vals[v[0]]:
                return f"value:{x!r}"
        elif vk == "ret":
            if not ctx["ret_ok"](x, v):
                return f"value:{x!r}"
        elif vk == "one":
            if x is not vals[v[0]]:
                return f"value:{x!r}"
        elif vk == "list":
            if not isinstance(x, (list, tuple)) or len(x) != len(v) or any(a is not vals[t] for a, t in zip(x, v)):
                return f"value:{x!r}"
        elif vk == "empty":
            if not (isinstance(x, (list, tuple)) and len(x) == 0):
                return f"value:{x!r}"
        elif vk == "none":
            if x is not None:
                return f"value:{x!r}"
        elif vk == "mapped":
            if not (isinstance(x, Mapped) and len(x.args) == len(v) and all(a is vals[t] for a, t in zip(x.args, v))):
                return f"value:{x!r}"
    elif kind == "E":
        e = exp["e"]
        ok = {"fut": lambda: x is ctx.get("fut_err"), "cancelled": lambda: _is_cancel_error(x), "fa": lambda: x is ctx.get("fa_err"),
              "fn": lambda: isinstance(x, FnErr), "func": lambda: isinstance(x, FnErr)}[e]()
        if not ok:
            return f"error:{type(x).__name__}!={e}"
    return None


def _outs_match(exp_out, got_out, ctx, nsubs) -> Optional[str]:
    for k in range(1, nsubs + 1):
        e = exp_out[k - 1] if isinstance(exp_out, list) else exp_out[str(k)]
        g = got_out.get(k, [])
        if len(e) != len(g):
            return f"count:{[x[0] for x in g]}!={[x['k'] for x in e]}:sub{k}"
        for x, y in zip(e, g):
            r = _note_matches(x, y, ctx)
            if r:
                return r + f":sub{k}"
    return None


def compare_ff(scn, exp, got) -> Optional[str]:
    if got["raised"]:
        pos = got["raised"][0]
        return f"raised:{got['raised'][1]}@{scn['hist'][pos]['c'] if pos >= 0 else 'building the observable'}"
    for p, (es, gs) in enumerate(zip(exp["snaps"], got["snaps"])):
        if es["fst"] != gs["fst"]:
            return f"future_state:{gs['fst']}!={es['fst']}@{p}:{scn['hist'][p]['c']}"
        r = _outs_match(es["out"], gs["out"], got, len(es["out"]))
        if r:
            return r + f"@{p}:{scn['hist'][p]['c']}"
    return None


# ---- st -----------------------------------------------------------------------------------------
class Ret:
    def __init__(self, args):
        self.args = args


def perform_st(scn, variant):
    import reactivex
    from reactivex.scheduler import ImmediateScheduler, VirtualTimeScheduler
    from reactivex.testing import TestScheduler
    cfg, hist = scn["cfg"], scn["hist"]
    vals = bvals(variant["profile"], variant.get("salt", 0))
    falsy_ret = variant["profile"] == "falsy"
    threads = variant.get("vs") == "timeout"
    if threads:
        # no scheduler given: to_async / start use TimeoutScheduler (a timer thread per invocation).  The function
        # waits at a gate that the history's `run` opens, so the model's "queued until the scheduler runs" is exact
        import threading
        sched = None
        gate = threading.Event()
        before = set(threading.enumerate())
    else:
        from reactivex.scheduler import HistoricalScheduler
        vs = variant.get("vs", "test")
        sched = ImmediateScheduler() if cfg["sched"] == "immediate" else \
            {"test": TestScheduler, "vts": VirtualTimeScheduler, "hist": HistoricalScheduler}[vs]()
    invocations: List[tuple] = []

    def func(*args):
        if threads and not gate.wait(60.0):
            raise Hang()
        invocations.append(args)
        if cfg["fn"] == "raise":
            raise FnErr("fn")
        return FALSY[len(args) % len(FALSY)] if falsy_ret else Ret(args)
    choices = [[], [0], [C41_NVALS - 1, 0]]   # ArgChoices of Bridges.tla
    afn = reactivex.to_async(func, sched) if cfg["api"] == "to_async" else None
    obs: List[Any] = []
    call_args: List[tuple] = []
    recs: Dict[int, Rec] = {}
    disp: Dict[int, Any] = {}
    snaps = []
    raised = None
    for pos, cmd in enumerate(hist):
        c, a = cmd["c"], cmd["a"]
        try:
            if c == "call":
                args = tuple(vals[t] for t in choices[a - 1])
                call_args.append(args)
                obs.append(afn(*args) if afn else reactivex.start(func, sched))
            elif c == "run" and threads:
                gate.set()
                for th in set(threading.enumerate()) - before:
                    th.join(60.0)
                gate.clear()
            elif c == "run":
                if isinstance(sched, HistoricalScheduler):
                    from datetime import timedelta
                    sched.advance_by(timedelta(seconds=1))
                else:
                    sched.advance_by(1.0)
            elif c == "subscribe":
                k = len(recs) + 1
                recs[k] = Rec()
                disp[k] = recs[k].subscribe(obs[a - 1])
            elif c == "dispose":
                disp[a].dispose()
            else:
                raise ValueError(c)
        except Exception as e:
            raised = [pos, type(e).__name__]
        snaps.append({"inv": list(invocations), "out": {k: list(r.out) for k, r in recs.items()}})
    if threads:     # let parked timer threads finish
        gate.set()
        for th in set(threading.enumerate()) - before:
            th.join(60.0)
    return {"snaps": snaps, "raised": raised, "vals": vals, "call_args": call_args, "falsy_ret": falsy_ret, "unordered": threads}


def compare_st(scn, exp, got) -> Optional[str]:
    if got["raised"]:
        return f"raised:{got['raised'][1]}@{scn['hist'][got['raised'][0]]['c']}"
    call_args = got["call_args"]
    hist = scn["hist"]
    # subscriber -> invocation, from the history
    att, ncalls = {}, 0
    for cmd in hist:
        if cmd["c"] == "subscribe":
            att[len(att) + 1] = cmd["a"]
    for p, (es, gs) in enumerate(zip(exp["snaps"], got["snaps"])):
        # the function ran once for every invocation the model says has run, in call order, with that call's arguments
        want = [call_args[j] for j, r in enumerate(es["ran"]) if r == 1]
        have = gs["inv"]
        if len(have) != len(want):
            return f"function_invocations:{len(have)}!={len(want)}@{p}:{hist[p]['c']}"
        same = lambda w, h: len(w) == len(h) and all(a is b for a, b in zip(w, h))
        if got.get("unordered"):      # timer threads released together: their order is nobody's promise
            left = list(have)
            for w in want:
                hit = next((h for h in left if same(w, h)), None)
                if hit is None:
                    return f"function_arguments:{have!r}@{p}"
                left.remove(hit)
        else:
            for w, h in zip(want, have):
                if not same(w, h):
                    return f"function_arguments:{h!r}@{p}"
        for k in range(1, len(es["out"]) + 1):
            e, g = es["out"][k - 1], gs["out"].get(k, [])
            if len(e) != len(g):
                return f"count:{[x[0] for x in g]}!={[x['k'] for x in e]}:sub{k}@{p}:{hist[p]['c']}"
            for x, y in zip(e, g):
                if x["k"] != y[0]:
                    return f"kind:{y[0]}!={x['k']}:sub{k}@{p}"
                if x["k"] == "N":
                    args = call_args[att[k] - 1]
                    if got["falsy_ret"]:
                        if y[1] is not FALSY[len(args) % len(FALSY)]:
                            return f"value:{y[1]!r}:sub{k}@{p}"
                    elif not (isinstance(y[1], Ret) and len(y[1].args) == len(args) and all(a is b for a, b in zip(y[1].args, args))):
                        return f"value:{y[1]!r}:sub{k}@{p}"
                if x["k"] == "E" and not isinstance(y[1], FnErr):
                    return f"error:{type(y[1]).__name__}:sub{k}@{p}"
    return None


# ---- cb -----------------------------------------------------------------------------------------
class Mapped:
    def __init__(self, args):
        self.args = tuple(args)


def perform_cb(scn, variant):
    import reactivex
    cfg, hist = scn["cfg"], scn["hist"]
    vals = bvals(variant["profile"], variant.get("salt", 0))
    tok = lambda t: vals[t]
    args = [tok(t) for t in cfg["args"]]
    cargs = [tok(t) for t in cfg["cargs"]]
    seen: List[tuple] = []
    handlers: List[Any] = []
    fire_raised: List[Any] = []

    def func(*a):
        seen.append(a)
        if cfg["fnraises"]:
            raise FnErr("func")
        h = a[-1]
        handlers.append(h)
        if cfg["when"] == "sync":
            h(*cargs)
            if cfg["twice"]:
                h(*cargs)
    mapper = None
    if cfg["mapper"] == "map":
        mapper = lambda a: Mapped(a)
    elif cfg["mapper"] == "raises":
        def mapper(a):
            raise FnErr("mapper")
    xs = reactivex.from_callback(func, mapper)(*args)
    recs: Dict[int, Rec] = {}
    disp: Dict[int, Any] = {}
    snaps = []
    raised = None
    for pos, cmd in enumerate(hist):
        c, a = cmd["c"], cmd["a"]
        try:
            if c == "subscribe":
                recs[a] = Rec()
                disp[a] = recs[a].subscribe(xs)
            elif c == "fire":
                handlers[a - 1](*cargs)
            elif c == "dispose":
                disp[a].dispose()
            else:
                raise ValueError(c)
        except Exception as e:
            raised = raised or [pos, type(e).__name__]
        snaps.append({"out": {k: list(r.out) for k, r in recs.items()}, "seen": list(seen)})
    return {"snaps": snaps, "raised": raised, "vals": vals, "args": args}


def _only_completion_missing(e, g, ctx) -> bool:
    """witness: the subscriber got the expected element(s) - possibly again on a second firing - but never on_completed"""
    if not e or e[-1]["k"] != "C" or len(g) < len(e) - 1 or not g:
        return False
    if any(x[0] != "N" for x in g):
        return False
    return all(_note_matches(e[0], y, ctx) is None for y in g)


def compare_cb(scn, exp, got) -> List[str]:
    """every distinct kind of divergence (so that one known defect cannot mask another)"""
    hist, cfg = scn["hist"], scn["cfg"]
    reasons: List[str] = []

    def add(r):
        if r.split(":")[0] not in [x.split(":")[0] for x in reasons]:
            reasons.append(r)
    if got["raised"]:
        pos, name = got["raised"]
        if name == "TypeError" and not cfg["cargs"] and cfg["mapper"] == "none":
            add(f"zero_arguments_typeerror:raised by the callback@{pos}:{hist[pos]['c']}")
        else:
            add(f"raised:{name}@{pos}:{hist[pos]['c']}")
    ctx = {"vals": got["vals"]}
    args = got["args"]
    for p, (es, gs) in enumerate(zip(exp["snaps"], got["snaps"])):
        nsub = sum(1 for s in es["sub"] if s != "none")
        # the wrapped function was called once per subscription with the original arguments + one callback
        if len(gs["seen"]) != nsub:
            add(f"function_calls:{len(gs['seen'])}!={nsub}@{p}:{hist[p]['c']}")
        for k, a in enumerate(gs["seen"], start=1):
            plain = [x for x in a if not callable(x)]
            ncb = sum(1 for x in a if callable(x))
            if len(plain) != len(args) or any(x is not y for x, y in zip(plain, args)) or not callable(a[-1]):
                add(f"function_values:{plain!r}:sub{k}@{p}:{hist[p]['c']}")
            elif ncb != 1:
                # witness for the known defect: subscription k is handed the k callbacks made so far
                add(("function_arguments_grow" if ncb == k else "function_arguments") + f":{len(plain)} values + {ncb} callbacks:sub{k}@{p}:{hist[p]['c']}")
        for k in range(1, len(es["out"]) + 1):
            e, g = es["out"][k - 1], gs["out"].get(k, [])
            r = _outs_match([e], {1: g}, ctx, 1)
            if r is None:
                continue
            zero = not cfg["cargs"] and cfg["mapper"] == "none"
            if zero and len(g) == 1 and g[0][0] == "E" and isinstance(g[0][1], TypeError):
                add(f"zero_arguments_typeerror:delivered as on_error:sub{k}@{p}:{hist[p]['c']}")
            elif zero and not g and got["raised"] and got["raised"][1] == "TypeError":
                add(f"zero_arguments_typeerror:nothing delivered, the callback raised:sub{k}@{p}:{hist[p]['c']}")
            elif _only_completion_missing(e, g, ctx):
                add(f"never_completes:{[x[0] for x in g]}:sub{k}@{p}:{hist[p]['c']}")
            else:
                add(r.replace(":sub1", f":sub{k}") + f"@{p}:{hist[p]['c']}")
    return reasons


# ---- tf -----------------------------------------------------------------------------------------
def _tf_source(cfg, variant, vals, err, ts=None):
    """the observable whose fold is taken, and the time map"""
    import reactivex
    from reactivex import Observable
    from reactivex.disposable import Disposable
    from reactivex.testing import ReactiveTest
    src, term = cfg["src"], cfg["term"]
    kind = variant["src"]
    n = len(src) + (0 if term == "U" else 1)
    T = [10 * j for j in range(n + 2)]
    if kind in ("hot", "cold"):
        off = 200 if kind == "hot" else 0
        msgs = [ReactiveTest.on_next(off + T[j], vals[t]) for j, t in enumerate(src, start=1)]
        if term == "C":
            msgs.append(ReactiveTest.on_completed(off + T[n]))
        elif term == "E":
            msgs.append(ReactiveTest.on_error(off + T[n], err))
        return (ts.create_hot_observable(msgs) if kind == "hot" else ts.create_cold_observable(msgs)), T
    if kind == "sync":
        def subscribe(observer, scheduler=None):
            for t in src:
                observer.on_next(vals[t])
            if term == "C":
                observer.on_completed()
            elif term == "E":
                observer.on_error(err)
            return Disposable()
        return Observable(subscribe), T
    if kind == "lib":    # library sources; they emit on the scheduler handed down by subscribe()
        xs = reactivex.from_iterable([vals[t] for t in src])
        if term == "E":
            xs = reactivex.concat(xs, reactivex.throw(err))
        elif term == "U":
            xs = reactivex.concat(xs, reactivex.never())
        return xs, T
    raise ValueError(kind)


def perform_tf(scn, variant, budget: float = 30.0):
    import asyncio
    import concurrent.futures
    import reactivex
    from reactivex import operators as ops
    from reactivex.run import run as rx_run
    from reactivex.scheduler import CurrentThreadScheduler, ImmediateScheduler
    from reactivex.testing import TestScheduler
    cfg = scn["cfg"]
    src, term, form, cancel = cfg["src"], cfg["term"], cfg["form"], cfg["cancel"]
    vals = bvals(variant["profile"], variant.get("salt", 0))
    err = FalsyErr("src") if variant.get("falsy_err") else SrcErr("src")
    api = variant["api"]
    n = len(src) + (0 if term == "U" else 1)
    out = {"vals": vals, "err": err, "api": api}
    if form == "future":
        # to_future with an explicit future constructor, the source driven event by event
        ts = TestScheduler()
        xs, T = _tf_source(cfg, variant, vals, err, ts)
        loop = shared_loop() if api.startswith("aio") else None
        try:
            ctor = loop.create_future if loop else concurrent.futures.Future
            ts.advance_to(200)
            if api == "aio_default":      # no constructor, no running loop: an asyncio.Future of the current event loop
                asyncio.set_event_loop(loop)
                try:
                    fut = xs.pipe(ops.to_future())
                finally:
                    asyncio.set_event_loop(None)
            elif api in ("aio_fluent", "cf_fluent"):
                fut = xs.to_future(ctor)
            else:
                fut = xs.pipe(ops.to_future(ctor))
            snaps = []
            i = 0
            while True:
                if cancel == i:
                    fut.cancel()
                    if loop:
                        _loop_step(loop)
                    snaps.append(_tf_snap(fut, vals, err))
                    break
                if i >= n:
                    break
                i += 1
                ts.advance_to(200 + T[i])
                if loop:
                    _loop_step(loop)
                snaps.append(_tf_snap(fut, vals, err))
            ts.advance_to(200 + T[n + 1] + 50)
            if loop:
                _loop_step(loop)
            out["final"] = _tf_snap(fut, vals, err)
            out["snaps"] = None if variant["src"] == "sync" else snaps   # a synchronous source has no intermediate instants
            subs = getattr(xs, "subscriptions", None)
            out["subs"] = [(s.subscribe, s.unsubscribe) for s in subs] if subs is not None else None
            out["T"] = T
            return out
        finally:
            if loop:
                _loop_step(loop)
    # blocking forms: the value is returned / the error raised
    xs, T = _tf_source(cfg, variant, vals, err)
    res = {"fs": "pending"}
    loop = None
    try:
        with watchdog(budget):
            try:
                if api == "run_immediate":
                    v = rx_run(xs, ImmediateScheduler())
                elif api == "run_current":
                    v = xs.run(CurrentThreadScheduler())
                elif api == "run_default":     # NewThreadScheduler + latch: real threads
                    v = xs.run()
                elif api == "run_fn_default":
                    v = rx_run(xs)
                elif api in ("await", "await_to_future"):
                    loop = asyncio.new_event_loop()

                    async def main():
                        if api == "await":
                            return await xs
                        return await xs.pipe(ops.to_future())
                    v = loop.run_until_complete(main())
                else:
                    raise ValueError(api)
                res = {"fs": "result", "value": v}
            except Hang:
                res = {"fs": "hang"}
            except BaseException as e:
                res = {"fs": "exception", "error": e}
    finally:
        if loop:
            loop.close()
    out["final"] = res
    out["snaps"] = None
    return out


def _tf_snap(fut, vals, err):
    st = _fst(fut)
    d = {"fs": st}
    if st == "result":
        d["value"] = fut.result()
    elif st == "exception":
        d["error"] = fut.exception()
    return d


def _tf_final_matches(es, g, got) -> Optional[str]:
    from reactivex.internal.exceptions import SequenceContainsNoElementsError
    if g["fs"] != es["fs"]:
        return f"outcome:{g['fs']}!={es['fs']}" + (f"({type(g['error']).__name__})" if g["fs"] == "exception" else "")
    if es["fs"] == "result" and g["value"] is not got["vals"][es["v"]]:
        return f"value:{g['value']!r}"
    if es["fs"] == "exception":
        if es["e"] == "src" and g["error"] is not got["err"]:
            return f"error:{type(g['error']).__name__}!=src"
        if es["e"] == "empty" and not isinstance(g["error"], SequenceContainsNoElementsError):
            return f"error:{type(g['error']).__name__}!=empty"
    return None


def compare_tf(scn, exp, got) -> Optional[str]:
    snaps = exp["snaps"]
    final = snaps[-1] if snaps else {"fs": "pending", "v": 0, "e": "", "unsub": NEVER}
    if got["snaps"] is not None:
        if len(got["snaps"]) != len(snaps):
            return f"steps:{len(got['snaps'])}!={len(snaps)}"
        for p, (es, g) in enumerate(zip(snaps, got["snaps"])):
            r = _tf_final_matches(es, g, got)
            if r:
                return r + f"@{p}"
    r = _tf_final_matches(final, got["final"], got)
    if r:
        return r + "@final"
    if got.get("subs") is not None:
        subs, T = got["subs"], got["T"]
        if len(subs) != 1:
            return f"source_subscriptions:{len(subs)}"
        want = NEVER_T if final["unsub"] == NEVER else 200 + T[final["unsub"]]
        if subs[0][1] != want:
            return f"unsub:{subs[0][1]}!={want}"
    return None


PERFORM = {"ff": perform_ff, "st": perform_st, "cb": perform_cb, "tf": perform_tf}
COMPARE = {"ff": compare_ff, "st": compare_st, "cb": compare_cb, "tf": compare_tf}


def variants41(scn, tier):
    part, cfg = scn["part"], scn["cfg"]
    h = sum(map(ord, json.dumps(scn, sort_keys=True)))
    if part in ("ff", "cb"):
        return [dict(profile="plain", salt=h % 2), dict(profile="falsy", salt=h % 8)]
    if part == "st":
        out = [dict(profile="plain", salt=h % 2, vs="test"), dict(profile="falsy", salt=h % 8, vs="vts" if h % 2 else "hist")]
        if cfg["sched"] == "virtual" and h % (8 if tier == "quick" else 16) == 0:
            out.append(dict(profile="plain", salt=h % 2, vs="timeout"))     # the default scheduler, real timer threads
        return out
    # tf
    out = []
    if cfg["form"] == "future":
        out.append(dict(api="aio_default", src="cold", profile="plain", salt=h % 2))
        out.append(dict(api="aio_fluent", src="hot", profile="falsy", salt=(h + 5) % 8))
        out.append(dict(api="cf_fluent", src="cold", profile="plain", salt=(h + 1) % 2))
        for api in ("aio", "cf"):
            out.append(dict(api=api, src="hot", profile="plain", salt=h % 2))
            out.append(dict(api=api, src="cold", profile="falsy", salt=h % 8))
            if cfg["cancel"] == NEVER:
                out.append(dict(api=api, src="sync", profile="falsy", salt=(h + 3) % 8, falsy_err=True))
    else:
        for api in ("run_immediate", "run_current", "await", "await_to_future"):
            out.append(dict(api=api, src="sync", profile="plain", salt=h % 2))
            out.append(dict(api=api, src="lib", profile="falsy", salt=h % 8))
        out.append(dict(api="run_immediate", src="sync", profile="plain", salt=h % 2, falsy_err=True))
        out.append(dict(api="await", src="lib", profile="plain", salt=h % 2, falsy_err=True))
        out.append(dict(api="run_default", src="lib", profile="plain", salt=h % 2))
        out.append(dict(api="run_fn_default", src="lib", profile="falsy", salt=(h + 1) % 8))
    return out


def describe41(got):
    return json.loads(json.dumps({k: v for k, v in got.items() if k in ("snaps", "final", "raised", "subs")}, default=repr))


def judge41(scn, allowed, variant):
    """[] when the observation is allowed, else one failure record per distinct kind of divergence"""
    part = scn["part"]
    got = PERFORM[part](scn, variant)
    if part == "tf" and got["final"].get("fs") == "hang":    # confirm with a long budget before calling it a hang
        got = perform_tf(scn, variant, budget=150.0)
    best: Optional[List[str]] = None
    for exp in allowed:
        r = COMPARE[part](scn, exp, got)
        r = [] if r is None else ([r] if isinstance(r, str) else r)
        if not r:
            return []
        if best is None or len(r) < len(best):
            best = r
    cfg = scn["cfg"]
    return [{"engine": "res41", "part": part, "scn": scn, "expected": allowed, "observed": describe41(got), "reason": reason,
             "reason_kind": reason.split(":")[0], "variant": variant,
             "mapper": cfg.get("mapper"), "ncargs": len(cfg["cargs"]) if "cargs" in cfg else None,
             "api": variant.get("api"), "falsy_err": bool(variant.get("falsy_err"))} for reason in best]


def job41(args):
    gi, scn, allowed, tier = args
    n, fails = 0, []
    for v in variants41(scn, tier):
        n += 1
        fails += [dict({x: y for x, y in f.items() if x not in SLIM_DROP}, gi=gi) for f in judge41(scn, allowed, v)]
    return n, fails


def replay41(rec):
    fs = [f for f in judge41(rec["scn"], rec["expected"], rec["variant"]) if f["reason_kind"] == rec.get("reason_kind", f["reason_kind"])]
    print(json.dumps(fs, default=str)[:3000] if fs else "replay: observation allowed by the spec")
    return 1 if fs else 0
