"""Binding A for OpsWindow.tla (C18) and OpsGroup.tla (C19).

Only the codec lives here: tokens <-> Python values / keys / exceptions, model ticks <-> virtual
times (TestScheduler float clock or HistoricalScheduler datetime clock), tables <-> callables,
and the recording sink that subscribes to every emitted window / group at hand-out.  What the
operators should do comes exclusively from the TLC export (allowed observations per scenario)."""
from __future__ import annotations

import json
from datetime import timedelta
from typing import Any, Dict, List, Optional, Tuple


class FnErr(Exception):
    """raised by a scenario's user function"""


class SrcErr(Exception):
    """the source's on_error value"""


class AuxErr(Exception):
    """the boundary / openings lane's on_error value"""


class CloseErr(Exception):
    """on_error value of a closing / duration observable"""


FALSY_ANY = [None, 0, "", (), [], {}, 0.0, False]
FALSY_KEYS = [None, 0, "", ()]                      # hashable and pairwise non-equal
# results of a user PREDICATE that are not bools: the predicate's truth value decides (dict.get, re.match, x % n ...)
FALSY_RESULTS = [0, None, "", (), [], {}, 0.0]
TRUTHY_RESULTS = [1, "0", (None,), [0], {"": None}, -0.5, 2, object()]
RAISE = 90
DNEVER = 99
SUB = 200                                            # subscription instant (model tick 0)

WINDOW_OPS = {"count": ("window_with_count", "buffer_with_count"),
              "time": ("window_with_time", "buffer_with_time"),
              "toc": ("window_with_time_or_count", "buffer_with_time_or_count"),
              "bound": ("window", "buffer"),
              "when": ("window_when", "buffer_when"),
              "toggle": ("window_toggle", "buffer_toggle")}


def strict_eq(a: Any, b: Any) -> bool:
    if type(a) is not type(b):
        return False
    if isinstance(a, (list, tuple)):
        return len(a) == len(b) and all(strict_eq(x, y) for x, y in zip(a, b))
    if isinstance(a, dict):
        return len(a) == len(b) and all(k in b and strict_eq(v, b[k]) for k, v in a.items())
    return a == b


def tok_of(pool: List[Any], x: Any) -> Optional[int]:
    for t, v in enumerate(pool):
        if v is x:
            return t
    for t, v in enumerate(pool):
        if strict_eq(v, x):
            return t
    return None


def make_vals(profile: str, n: int, salt: int) -> List[Any]:
    if profile == "falsy":
        # distinct objects; [] and {} are told apart by identity / type; beyond the 8 basic falsy values fresh
        # empty containers (distinct by identity) are used, so every token has its own object
        fresh = [list, dict, set, bytearray]
        pool = FALSY_ANY[salt % len(FALSY_ANY):] + FALSY_ANY[:salt % len(FALSY_ANY)]
        return [pool[t] if t < len(pool) else fresh[t % 4]() for t in range(n)]
    return [f"v{t}" for t in range(n)] if salt % 2 else list(range(10, 10 + n))


def make_keys(profile: str, n: int, salt: int) -> List[Any]:
    if profile == "falsy":
        return [FALSY_KEYS[(salt + t) % len(FALSY_KEYS)] for t in range(n)]
    return [f"k{t}" for t in range(n)] if salt % 2 else list(range(1, 1 + n))


# ---- virtual time -------------------------------------------------------------------------------
class Env:
    """clock = 'test' (TestScheduler, float seconds) | 'hist' (HistoricalScheduler, datetime/timedelta);
    model tick t <-> SUB + scale * t seconds."""

    def __init__(self, clock: str, scale: int, td_args: bool = False):
        from reactivex.scheduler import HistoricalScheduler
        from reactivex.scheduler.scheduler import UTC_ZERO
        from reactivex.testing import TestScheduler
        self.clock, self.scale, self.zero = clock, scale, UTC_ZERO
        self.td_args = td_args or clock == "hist"
        self.s = TestScheduler() if clock == "test" else HistoricalScheduler()

    def A(self, t):
        sec = SUB + self.scale * t
        return self.zero + timedelta(seconds=sec) if self.clock == "hist" else float(sec)

    def R(self, d):
        sec = self.scale * d
        return timedelta(seconds=sec) if self.clock == "hist" else sec

    def P(self, d):
        """a relative time as an operator argument"""
        sec = self.scale * d
        return timedelta(seconds=sec) if self.td_args else (float(sec) if self.scale % 2 else sec)

    def tick(self):
        c = self.s.clock
        sec = (c - self.zero).total_seconds() if self.clock == "hist" else float(c)
        x = (sec - SUB) / self.scale
        return int(x) if x == int(x) else round(x, 6)

    def to_tick(self, x):
        """a clock value recorded by a test observable (float seconds, int seconds or datetime) -> model tick"""
        sec = (x - self.zero).total_seconds() if hasattr(x, "tzinfo") else float(x)
        return (sec - SUB) / self.scale

    def hot(self, msgs):
        from reactivex.testing.hotobservable import HotObservable
        from reactivex.testing.recorded import Recorded
        return HotObservable(self.s, [Recorded(self.A(t), n) for t, n in msgs])

    def cold(self, msgs):
        from reactivex.testing.coldobservable import ColdObservable
        from reactivex.testing.recorded import Recorded
        return ColdObservable(self.s, [Recorded(self.R(t), n) for t, n in msgs])


class LateCancel:
    """The operator's timer scheduler with BEST-EFFORT cancellation, as the scheduler contract words it: an action
    whose due time has been reached can no longer be cancelled (on a thread-based scheduler it has already fired and
    is merely waiting for the source's lock); earlier cancellations work.  Everything else is the wrapped
    virtual-time scheduler."""

    def __init__(self, inner):
        self._inner = inner

    def __getattr__(self, name):
        return getattr(self._inner, name)

    def _guard(self, due, d):
        from reactivex.disposable import Disposable
        inner = self._inner

        def dispose():
            if inner.now < due:
                d.dispose()
        return Disposable(dispose)

    def schedule_relative(self, duetime, action, state=None):
        inner = self._inner
        due = inner.now + inner.to_timedelta(duetime)
        return self._guard(due, inner.schedule_relative(duetime, action, state))

    def schedule_absolute(self, duetime, action, state=None):
        inner = self._inner
        return self._guard(inner.to_datetime(duetime), inner.schedule_absolute(duetime, action, state))

    def schedule(self, action, state=None):
        return self.schedule_relative(0, action, state)


def _notifs(events, term, err):
    """[(t, token)] + terminal record -> [(t, Notification)] with values already decoded"""
    from reactivex.notification import OnCompleted, OnError, OnNext
    out = [(t, OnNext(v)) for t, v in events]
    if term["k"] == "C":
        out.append((term["t"], OnCompleted()))
    elif term["k"] == "E":
        out.append((term["t"], OnError(err)))
    return out


class Sink:
    """records the outer stream; subscribes to every emitted observable at hand-out"""

    def __init__(self, env: Env, keyed: bool = False, key_tok=None):
        self.env, self.inner, self.outer, self.subs = env, [], [], []
        self.keyed, self.key_tok = keyed, key_tok
        self.on_inner_completed = None      # feedback hook: called with the 1-based ordinal of the completed inner

    def attach(self, obs, rec):
        env = self.env
        ordinal = len(self.inner)

        def completed():
            rec["out"].append((env.tick(), "C", None))
            if self.on_inner_completed is not None:
                self.on_inner_completed(ordinal)
        self.subs.append(obs.subscribe(on_next=lambda v: rec["out"].append((env.tick(), "N", v)),
                                       on_error=lambda e: rec["out"].append((env.tick(), "E", e)),
                                       on_completed=completed, scheduler=env.s))

    def on_inner(self, w):
        rec = {"open": self.env.tick(), "out": []}
        if self.keyed:
            rec["key"] = self.key_tok(w.key)
            rec["key_repr"] = repr(w.key)
        self.inner.append(rec)
        self.attach(w, rec)

    def on_value(self, v):
        self.outer.append((self.env.tick(), "N", v))

    def on_error(self, e):
        self.outer.append((self.env.tick(), "E", e))

    def on_completed(self):
        self.outer.append((self.env.tick(), "C", None))


def _drive(env: Env, horizon: int, subscribes, sinks, dispose_at=None, outer_only=False) -> Optional[BaseException]:
    """subscribe (each function in turn) at tick 0; optionally dispose every subscription half a tick after
    `dispose_at`; cut the run half a tick after the horizon"""
    s = env.s
    held: List[Any] = []

    def do_sub(*_):
        for f in subscribes:
            d = f()
            if d is not None:
                held.append(d)

    def dispose_all(*_):
        for sink in sinks:
            for d in list(sink.subs):
                d.dispose()
        for d in held:
            d.dispose()

    def cut(*_):
        dispose_all()
        s.stop()

    s.schedule_absolute(env.A(0), do_sub)
    def dispose_outer(*_):       # only the subscription(s) to the sequence of windows / groups
        for d in held:
            d.dispose()

    if dispose_at is not None:
        s.schedule_absolute(env.A(dispose_at + 0.5), dispose_outer if outer_only else dispose_all)
    s.schedule_absolute(env.A(horizon + 0.5), cut)
    try:
        s.start()
    except Exception as e:          # an exception that escaped into the scheduler / the emitter
        return e
    return None


def _src_intervals(env: Env, xs):
    import sys
    out = []
    for sub in xs.subscriptions:
        u = sub.unsubscribe
        out.append((env.to_tick(sub.subscribe), None if u == sys.maxsize else env.to_tick(u)))
    return out


def _dispose_tick(scn, horizon):
    d = scn.get("dsp", horizon + 1)
    return d if d <= horizon else None


# =================================================================================================
# windows / buffers (OpsWindow.tla)
# =================================================================================================
def run_window(scn: Dict[str, Any], var: Dict[str, Any], horizon: int) -> Dict[str, Any]:
    from reactivex import operators as ops
    from reactivex.notification import OnCompleted, OnError, OnNext
    fam, par, src, term, aux, auxterm = scn["op"], scn["par"], scn["src"], scn["term"], scn["aux"], scn["auxterm"]
    env = Env(var["clock"], var["scale"], var.get("td", False))
    vals = make_vals(var["profile"], max(len(src), 1), var.get("salt", 0))
    errs = {"src": SrcErr("src"), "aux": AuxErr("aux"), "close": CloseErr("close")}
    src_msgs = _notifs([(t, vals[j]) for j, t in enumerate(src)], term, errs["src"])
    aux_vals = [("open", j + 1) for j in range(len(aux))]
    aux_msgs = _notifs([(t, aux_vals[j]) for j, t in enumerate(aux)], auxterm, errs["aux"])
    need_aux = fam in ("bound", "toggle")

    def mk(msgs, hot):
        return env.hot(msgs) if hot else env.cold(msgs)
    if var.get("order", "src") == "src":
        xs = mk(src_msgs, var["hot"])
        ys = mk(aux_msgs, var["auxhot"]) if need_aux else None
    else:
        ys = mk(aux_msgs, var["auxhot"]) if need_aux else None
        xs = mk(src_msgs, var["hot"])

    calls = [0]

    def closing(d):
        ck = par["ck"]
        if d == 0:
            # notifies synchronously, inside subscribe (no scheduler hop)
            if ck == "N" and var.get("salt", 0) % 2:
                from reactivex.subject import BehaviorSubject
                return BehaviorSubject("close")
            from reactivex import Observable
            from reactivex.disposable import Disposable

            def sync_subscribe(observer, scheduler=None):
                if ck == "N":
                    observer.on_next("close")
                    observer.on_next("again")
                elif ck == "C":
                    observer.on_completed()
                else:
                    observer.on_error(errs["close"])
                return Disposable()
            return Observable(sync_subscribe)
        if ck == "N":
            # a second notification must not matter: only the first one closes
            return env.cold([(d, OnNext("close")), (d + 1, OnNext("again"))])
        if ck == "C":
            return env.cold([(d, OnCompleted())])
        return env.cold([(d, OnError(errs["close"]))])

    def closing_when():
        calls[0] += 1
        if par["fr"] == calls[0]:
            raise FnErr("closing mapper")
        durs = par["durs"]
        return closing(durs[(calls[0] - 1) % len(durs)])

    def closing_toggle(v):
        calls[0] += 1
        j = tok_of(aux_vals, v) + 1
        if par["fr"] == j:
            raise FnErr("closing mapper")
        return closing(par["durs"][j - 1])

    buf = var["buf"]
    name = WINDOW_OPS[fam][1 if buf else 0]
    kw = {"scheduler": env.s} if var.get("sched_arg") and fam in ("time", "toc") else {}
    if var.get("late_cancel") and fam in ("time", "toc"):
        kw = {"scheduler": LateCancel(env.s)}
    short = var.get("short", False)
    if fam == "count":
        args = (par["count"],) if short and par["count"] == par["skip"] else (par["count"], par["skip"])
    elif fam == "time":
        args = (env.P(par["span"]),) if short and par["span"] == par["shift"] else (env.P(par["span"]), env.P(par["shift"]))
    elif fam == "toc":
        args = (env.P(par["span"]), par["count"])
    elif fam == "bound":
        args = (ys,)
    elif fam == "when":
        args = (closing_when,)
    else:
        args = (ys, closing_toggle)
    if var.get("form", "pipe") == "fluent":
        zs = getattr(xs, name)(*args, **kw)
    else:
        zs = xs.pipe(getattr(ops, name)(*args, **kw))
    # twice: two independent subscriptions to the SAME pipeline object (state must live per subscription);
    # not with a call-counting closing mapper whose pattern varies (the two subscriptions would interleave calls)
    twice = var.get("twice", False) and not (fam == "when" and (len(par["durs"]) > 1 or par["fr"] != 0))
    sinks = [Sink(env) for _ in range(2 if twice else 1)]

    def subscriber(sink):
        return lambda: zs.subscribe(on_next=sink.on_value if buf else sink.on_inner, on_error=sink.on_error,
                                    on_completed=sink.on_completed, scheduler=env.s)
    # dmode "outer" (window mode only: a buffer_* result has no separate window subscriptions): only the subscription
    # to the sequence of windows is disposed, the window subscriptions are kept
    escaped = _drive(env, horizon, [subscriber(k) for k in sinks], sinks, _dispose_tick(scn, horizon),
                     scn.get("dmode") == "outer" and not buf)
    return {"obs": [{"wins": k.inner, "outer": k.outer} for k in sinks], "escaped": escaped, "vals": vals, "errs": errs,
            "name": name, "src_subs": _src_intervals(env, xs), "nsubs": len(sinks)}


def _err_ok(errs, code, got) -> bool:
    if code == "fn":
        return isinstance(got, FnErr)
    return got is errs.get(code)


def _cmp_stream(exp_out, got_out, vals, errs, upto=None) -> Optional[str]:
    """timed notification stream of one window / group against the expected one.
    upto: compare only events strictly before this tick (known-finding witness)."""
    if upto is not None:
        exp_out = [e for e in exp_out if e["t"] < upto]
        got_out = [g for g in got_out if g[0] < upto]
    if len(exp_out) != len(got_out):
        return f"count:{len(got_out)}!={len(exp_out)}"
    for e, (t, k, v) in zip(exp_out, got_out):
        if k != e["k"]:
            return f"kind:{k}!={e['k']}"
        if t != e["t"]:
            return f"time:{t}!={e['t']}"
        if k == "N" and not (tok_of(vals, v) == e["v"] and strict_eq(v, vals[e["v"]])):
            return f"value:{v!r}"
        if k == "E" and not _err_ok(errs, e["e"], v):
            return f"error:{type(v).__name__}"
    return None


def _cmp_outer_term(exp_outer, got_term, errs, upto=None) -> Optional[str]:
    if upto is not None:
        exp_outer = [e for e in exp_outer if e["t"] < upto]
        got_term = [g for g in got_term if g[0] < upto]
    if len(exp_outer) != len(got_term):
        return f"outer_terminal:{len(got_term)}!={len(exp_outer)}"
    for e, (t, k, v) in zip(exp_outer, got_term):
        if k != e["k"]:
            return f"outer_kind:{k}!={e['k']}"
        if t != e["t"]:
            return f"outer_time:{t}!={e['t']}"
        if k == "E" and not _err_ok(errs, e["e"], v):
            return f"outer_error:{type(v).__name__}"
    return None


def compare_window(exp: Dict[str, Any], got: Dict[str, Any], buf: bool, upto=None) -> Optional[str]:
    """None when the observation equals this allowed observation on the asserted projection:
    window mode - the sequence of windows with opening instants, each window's timed stream and
    terminal, the outer terminal; buffer mode - the buffers with their instants (buffers emitted
    at the same instant compared as a multiset), the terminal."""
    if got["escaped"] is not None:
        return f"escaped:{type(got['escaped']).__name__}"
    vals, errs = got["vals"], got["errs"]
    gterm = [x for x in got["outer"] if x[1] != "N"]
    if not buf:
        ew, gw = exp["wins"], got["wins"]
        if upto is not None:
            ew = [w for w in ew if w["open"] < upto]
            gw = [w for w in gw if w["open"] < upto]
        if len(ew) != len(gw):
            return f"windows:{len(gw)}!={len(ew)}"
        for n, (e, g) in enumerate(zip(ew, gw)):
            if g["open"] != e["open"]:
                return f"open:{g['open']}!={e['open']}"
            r = _cmp_stream(e["out"], g["out"], vals, errs, upto)
            if r:
                return f"w{n}:{r}"
        return _cmp_outer_term(exp["outer"], gterm, errs, upto)
    # buffer mode
    eb = exp["bufs"]
    gb = [x for x in got["outer"] if x[1] == "N"]
    if upto is not None:
        eb = [b for b in eb if b["t"] < upto]
        gb = [b for b in gb if b[0] < upto]
    if len(eb) != len(gb):
        return f"buffers:{len(gb)}!={len(eb)}"
    for (t, _, v) in gb:
        if type(v) is not list:
            return f"buffer_type:{type(v).__name__}"
        for x in v:
            tk = tok_of(vals, x)
            if tk is None or not strict_eq(x, vals[tk]):
                return f"value:{x!r}"
    ekey = sorted((b["t"], tuple(b["items"])) for b in eb)
    gkey = sorted((t, tuple(tok_of(vals, x) for x in v)) for (t, _, v) in gb)
    if [k[0] for k in ekey] != [k[0] for k in gkey]:
        return "buffer_time"
    if ekey != gkey:
        return "buffer_content"
    if [t for (t, _, _) in gb] != sorted(t for (t, _, _) in gb):
        return "buffer_order"
    r = _cmp_outer_term(exp["outer"], gterm, errs, upto)
    if r:
        return r
    # nothing after the terminal
    if upto is None and gterm and got["outer"][-1][1] == "N":
        return "after_terminal"
    return None


def _kind(reason: str) -> str:
    parts = reason.split(":")
    if len(parts) > 1 and len(parts[0]) > 1 and parts[0][0] in "wg" and parts[0][1:].isdigit():
        parts = parts[1:]
    return parts[0]


def _show(v):
    return repr(v) if not isinstance(v, BaseException) else type(v).__name__


def describe_window(got) -> Dict[str, Any]:
    return {"wins": [{"open": w["open"], "out": [(t, k, _show(v)) for t, k, v in w["out"]]} for w in got["wins"]],
            "outer": [(t, k, _show(v)) for t, k, v in got["outer"]],
            "escaped": repr(got["escaped"]) if got["escaped"] is not None else None}


def _released(exp, got, scn) -> Optional[str]:
    """C03 flavour, dispose scenarios only: once the subscriber disposed the result and every window / group
    subscription (half a tick after instant dsp) the source subscription is closed - at that very moment"""
    if exp.get("odisp"):
        # outer-only dispose: the source is kept while a group the subscriber holds is live, and released at the
        # instant the last of them ends (unsub = that instant; -1: not within the horizon / the source ended by itself)
        d, want = scn["dsp"], exp["unsub"]
        for (a, u) in got["src_subs"]:
            if want >= 0:
                if u is None or not (want <= u < want + 1):
                    return f"leak:source unsubscribed at {u} expected at {want} (outer disposed at {d}+)"
            elif u is not None and u < d + 1:
                return f"early_release:source unsubscribed at {u} although groups still have subscribers (outer disposed at {d}+)"
        return None
    if not exp.get("disp"):
        return None
    d = scn["dsp"]
    if not got["src_subs"]:
        return "leak:source never subscribed"
    for (a, u) in got["src_subs"]:
        if u is None:
            return "leak:source subscription still open after dispose"
        if not (d <= u < d + 1):
            return f"leak:source unsubscribed at {u} dispose at {d}+"
    return None


def _views(got, key):
    """one observation per subscription"""
    return [dict(got, **o) for o in got["obs"]]


def judge_window(scn, allowed, var, horizon):
    full = run_window(scn, var, horizon)
    reasons = []
    bad = None
    for got in _views(full, "wins"):
        rs = []
        for exp in allowed:
            r = compare_window(exp, got, var["buf"]) or _released(exp, full, scn)
            if r is None:
                rs = None
                break
            rs.append(r)
        if rs is not None:
            reasons, bad = rs, got
            break
    if bad is None:
        return None
    got = bad
    # witness for the known window_toggle / buffer_toggle defect: the source completed at T, everything
    # strictly before T is as specified, but the result did not complete at T
    ignored = False
    if scn["op"] == "toggle" and scn["term"]["k"] == "C" and got["escaped"] is None:
        T = scn["term"]["t"]
        gterm = [x for x in got["outer"] if x[1] != "N"]
        no_term_at_T = not any(x[0] <= T for x in gterm)
        ignored = no_term_at_T and any(compare_window(exp, got, var["buf"], upto=T) is None for exp in allowed)
    # witness for the window_when defect: the closing mapper raised, the result failed as specified, but a
    # window that was open keeps receiving notifications afterwards (every observed window stream merely
    # EXTENDS the specified one)
    extra = False
    if scn["par"].get("fr", 0) != 0 and not var["buf"] and got["escaped"] is None:
        for exp in allowed:
            if len(exp["wins"]) != len(got["wins"]):
                continue
            cut = dict(got, wins=[dict(g, out=g["out"][:len(e["out"])]) for e, g in zip(exp["wins"], got["wins"])])
            if compare_window(exp, cut, False) is None and any(len(g["out"]) > len(e["out"])
                                                               for e, g in zip(exp["wins"], got["wins"])):
                extra = True
                break
    return {"engine": "window", "op": full["name"], "family": scn["op"], "extra_after_failure": extra, "scn": scn,
            "var": var, "horizon": horizon, "expected": allowed, "observed": describe_window(got),
            "src_subscriptions": full["src_subs"], "subscriptions": full["nsubs"], "reason": reasons[0],
            "reason_kind": _kind(reasons[0]), "term": scn["term"]["k"], "source_completion_ignored": ignored,
            "disposed": _dispose_tick(scn, horizon) is not None,
            "has_fault": scn["par"].get("fr", 0) != 0 or scn["par"].get("ck") == "E" or scn["auxterm"]["k"] == "E"}


# =================================================================================================
# groups / partition (OpsGroup.tla)
# =================================================================================================
def run_group(scn: Dict[str, Any], var: Dict[str, Any], horizon: int, nvals: int, nkeys: int) -> Dict[str, Any]:
    import reactivex
    from reactivex import operators as ops
    from reactivex.notification import OnCompleted, OnError, OnNext
    op, par, src, term = scn["op"], scn["par"], scn["src"], scn["term"]
    env = Env(var["clock"], var["scale"])
    salt = var.get("salt", 0)
    vals = make_vals(var["profile"], nvals, salt)
    keys = make_keys(var["kprofile"], nkeys, salt)
    errs = {"src": SrcErr("src"), "dur": CloseErr("dur")}
    msgs = _notifs([(e["t"], vals[e["v"]]) for e in src], term, errs["src"])
    # re-entrant feedback (scenario field rx): the subscriber of the rx.g-th group, inside that group's completion
    # callback, pushes one more element into the (hot, subject-like) source
    rx = scn.get("rx") or {"g": 0, "v": 0}
    feedback = rx["g"] != 0
    xs = env.hot(msgs) if (var["hot"] or feedback) else env.cold(msgs)
    calls = [0]
    dur_keys: List[Any] = []

    def tab(table, x):
        return table[str(tok_of(vals, x))]

    def key_mapper(x):
        r = tab(par["kf"], x)
        if r == RAISE:
            raise FnErr("key mapper")
        return keys[r]

    def elem_mapper(x):
        r = tab(par["ef"], x)
        if r == RAISE:
            raise FnErr("element mapper")
        return vals[r]

    def duration_mapper(grp):
        calls[0] += 1
        dur_keys.append(tok_of(keys, grp.key))
        if par["fr"] == calls[0]:
            raise FnErr("duration mapper")
        if par.get("dn", 0) > 0:        # content-dependent: the group itself, after skipping dn-1 elements
            return grp.pipe(ops.skip(par["dn"] - 1))
        d = par["durs"][(calls[0] - 1) % len(par["durs"])]
        if d == DNEVER:
            return reactivex.never()
        if par["dk"] == "N":
            return env.cold([(d, OnNext("expire")), (d + 1, OnNext("again"))])
        if par["dk"] == "C":
            return env.cold([(d, OnCompleted())])
        return env.cold([(d, OnError(errs["dur"]))])

    twice = var.get("twice", False) and not feedback \
        and not (op == "group_by_until" and (len(par["durs"]) > 1 or par["fr"] != 0))
    sinks = [Sink(env, keyed=True, key_tok=lambda k: tok_of(keys, k)) for _ in range(2 if twice else 1)]
    if feedback:
        pushed = [False]

        def push(ordinal):
            if ordinal == rx["g"] and not pushed[0]:
                pushed[0] = True
                for o in list(xs.observers):        # what HotObservable does for a scheduled message
                    o.on_next(vals[rx["v"]])
        sinks[0].on_inner_completed = push
    dsp = _dispose_tick(scn, horizon)
    if op in ("partition", "partition_indexed"):
        p = par["p"]
        pcalls = [0]

        def verdict(truth):
            """the predicate's result for the table's verdict: a bool, or (result profile 'obj') a truthy / falsy
            value that is NOT a bool, a different one at every call"""
            if var.get("pres", "bool") != "obj":
                return truth
            pcalls[0] += 1
            pool = TRUTHY_RESULTS if truth else FALSY_RESULTS
            return pool[(salt + pcalls[0]) % len(pool)]

        def pred(x):
            r = tab(p, x)
            if r == 2:
                raise FnErr("predicate")
            return verdict(r == 1)

        def pred_i(x, i):
            r = tab(p, x)
            if r == 2:
                raise FnErr("predicate")
            return verdict((r + i) % 2 == 1)
        fn = pred if op == "partition" else pred_i
        if var.get("form", "pipe") == "fluent":
            outs = getattr(xs, op)(fn)
        else:
            outs = xs.pipe(getattr(ops, op)(fn))
        shape_ok = isinstance(outs, (list, tuple)) and len(outs) == 2

        def subscriber(sink):
            def subscribe():
                for kk, o in zip((1, 0), outs):
                    rec = {"open": env.tick(), "out": [], "key": kk, "key_repr": str(kk)}
                    sink.inner.append(rec)
                    sink.attach(o, rec)
                return None
            return subscribe
        escaped = _drive(env, horizon, [subscriber(k) for k in sinks], sinks, dsp) if shape_ok \
            else TypeError("partition did not return two observables")
        return {"obs": [{"grps": k.inner, "outer": []} for k in sinks], "escaped": escaped, "vals": vals, "errs": errs,
                "name": op, "src_subs": _src_intervals(env, xs), "nsubs": len(sinks)}
    em = elem_mapper if par["em"] else None
    if op == "group_by":
        a: tuple = (key_mapper,) if (em is None and var.get("short")) else (key_mapper, em)
    else:
        a = (key_mapper, em, duration_mapper)
    if var.get("form", "pipe") == "fluent":
        zs = getattr(xs, op)(*a)
    else:
        zs = xs.pipe(getattr(ops, op)(*a))

    def subscriber(sink):
        return lambda: zs.subscribe(on_next=sink.on_inner, on_error=sink.on_error, on_completed=sink.on_completed,
                                    scheduler=env.s)
    escaped = _drive(env, horizon, [subscriber(k) for k in sinks], sinks, dsp, scn.get("dmode") == "outer")
    return {"obs": [{"grps": k.inner, "outer": k.outer} for k in sinks], "escaped": escaped, "vals": vals, "errs": errs,
            "name": op, "dur_keys": dur_keys, "src_subs": _src_intervals(env, xs), "nsubs": len(sinks)}


def compare_group(scn, exp: Dict[str, Any], got: Dict[str, Any]) -> Optional[str]:
    """asserted: the sequence of groups with key token and opening instant, each group's timed
    stream and terminal, the outer terminal (partition: the two output streams)."""
    if got["escaped"] is not None:
        return f"escaped:{type(got['escaped']).__name__}"
    vals, errs = got["vals"], got["errs"]
    part = scn["op"] in ("partition", "partition_indexed")
    eg, gg = exp["grps"], got["grps"]
    if len(eg) != len(gg):
        return f"groups:{len(gg)}!={len(eg)}"
    for n, (e, g) in enumerate(zip(eg, gg)):
        if g["key"] != e["key"]:
            return f"key:{g['key_repr']}"
        if not part and g["open"] != e["open"]:
            return f"open:{g['open']}!={e['open']}"
        r = _cmp_stream(e["out"], g["out"], vals, errs)
        if r:
            return f"g{n}:{r}"
    if part:
        return None
    if any(x[1] == "N" for x in got["outer"]):
        return "outer_value"
    return _cmp_outer_term(exp["outer"], [x for x in got["outer"] if x[1] != "N"], errs)


def describe_group(got) -> Dict[str, Any]:
    return {"grps": [{"key": g["key"], "key_repr": g["key_repr"], "open": g["open"],
                      "out": [(t, k, _show(v)) for t, k, v in g["out"]]} for g in got["grps"]],
            "outer": [(t, k, _show(v)) for t, k, v in got["outer"]],
            "escaped": repr(got["escaped"]) if got["escaped"] is not None else None}


def _group_fault(scn) -> bool:
    p = scn["par"]
    for key, lim in (("kf", RAISE), ("ef", RAISE), ("p", 2)):
        if key in p and any(v == lim for v in p[key].values()):
            return True
    return p.get("fr", 0) != 0 or p.get("dk") == "E"


def judge_group(scn, allowed, var, horizon, nvals, nkeys):
    full = run_group(scn, var, horizon, nvals, nkeys)
    reasons = []
    bad = None
    for got in _views(full, "grps"):
        rs = []
        for exp in allowed:
            r = compare_group(scn, exp, got) or _released(exp, full, scn)
            if r is None:
                rs = None
                break
            rs.append(r)
        if rs is not None:
            reasons, bad = rs, got
            break
    if bad is None:
        return None
    return {"engine": "group", "op": full["name"], "scn": scn, "var": var, "horizon": horizon, "nvals": nvals,
            "nkeys": nkeys, "expected": allowed, "observed": describe_group(bad), "src_subscriptions": full["src_subs"],
            "subscriptions": full["nsubs"], "reason": reasons[0], "reason_kind": _kind(reasons[0]),
            "term": scn["term"]["k"], "has_fault": _group_fault(scn), "disposed": _dispose_tick(scn, horizon) is not None,
            "content_duration": scn["par"].get("dn", 0) > 0,
            "escaped_type": type(full["escaped"]).__name__ if full["escaped"] is not None else None}


# =================================================================================================
# shared driver
# =================================================================================================
WINDOW_INVS = ["WinGrammar", "DeliveredOK", "TermOK", "RefCount", "RefTime", "Partition", "RefToc", "RefBound",
               "RefWhen", "RefToggle", "BufOK", "SilentOK", "HeldOK"]
GROUP_INVS = ["GrpGrammar", "RouteOK", "NewGroupOK", "ExpiryOK", "TermOK", "SilentOK"]


# small models: JVM start-up and JIT dominate - keep the JVM cheap when the box is shared
LIGHT_JVM = {"JAVA_TOOL_OPTIONS": "-XX:TieredStopAtLevel=1"}


def export_runs(ck, module: str, invs: List[str], runs: List[Tuple[str, Dict[str, Any]]], par: int = 4,
                timeout: int = 1500, light: bool = False, **kw):
    """One TLC run per (label, constants): model invariants + export. Yields (label, consts, groups) as the runs
    finish (in the given order), so the caller can replay and drop each export before the next one."""
    from concurrent.futures import ThreadPoolExecutor
    from harness import core, tlc

    def one(item):
        label, c = item
        res = tlc.run(module, tlc.cfg_text(c, invariants=invs + ["Export"]), workers=1, timeout=timeout, xmx="2g",
                      allow_violation=False, env_extra=LIGHT_JVM if light else None, **kw)
        groups = core.group_allowed(res.lines)
        res.lines, res.raw = res.lines[:0] + [None] * 0, ""      # keep only the counters
        return res, len(groups), groups
    with ThreadPoolExecutor(par) as ex:
        for (label, c), (res, n, groups) in zip(runs, ex.map(one, runs)):
            ck.add_tlc(res, label)
            ck.tlc_runs[-1]["exported"] = n
            yield (label, c, groups)


# ---- sampled scenarios for instances too large to enumerate (thorough tier) ---------------------
def _times(rng, maxlen, maxt):
    return sorted(rng.randint(1, maxt) for _ in range(rng.randint(0, maxlen)))


def _term(rng, last, terms, maxt, inf):
    k = rng.choice(sorted(terms))
    return {"k": "U", "t": inf} if k == "U" else {"k": k, "t": rng.randint(last, maxt)}


def sample_window_scns(rng, fam: str, c: Dict[str, Any], n: int) -> List[Dict[str, Any]]:
    """random points of OpsWindow's Init domain (pure data: no operator semantics here; TLC re-checks
    membership in the domain - ScnOK - and computes every allowed observation)"""
    out = []
    inf = c["H"] + 1
    pick = lambda name: rng.choice(sorted(c[name]))
    for _ in range(n):
        if fam == "count":      # instants do not matter: element j at instant min(j, MaxT)
            src = [min(j, c["MaxT"]) for j in range(1, rng.randint(0, c["CountLen"]) + 1)]
        else:
            src = _times(rng, c["MaxLen"], c["MaxT"])
        term = _term(rng, src[-1] if src else 1, c["Terms"], c["MaxT"], inf)
        aux = _times(rng, c["MaxAux"], c["MaxT"]) if fam in ("bound", "toggle") else []
        auxterm = _term(rng, aux[-1] if aux else 1, c["AuxTerms"], c["MaxT"], inf) if fam in ("bound", "toggle") \
            else {"k": "U", "t": inf}
        fr = lambda m: rng.randint(0, m) if c["Faults"] else 0
        if fam == "count":
            par = {"count": pick("Counts"), "skip": pick("Counts")}
        elif fam == "time":
            par = {"span": pick("Spans"), "shift": pick("Shifts")}
        elif fam == "toc":
            par = {"span": pick("Spans"), "count": pick("Counts")}
        elif fam == "bound":
            par = {"z": 0}
        elif fam == "when":
            durs = [pick("Durs") for _ in range(rng.randint(1, 2))]
            if c.get("ZeroDur") and len(durs) == 2 and rng.random() < 0.4:
                durs[rng.randrange(2)] = 0
            par = {"durs": durs, "ck": pick("CKinds"), "fr": fr(2)}
        else:
            par = {"durs": [pick("Durs") for _ in aux], "ck": pick("CKinds"), "fr": fr(len(aux))}
        dsp = rng.randint(0, c["MaxT"]) if c.get("Disposes") and rng.random() < 0.5 else inf
        dmode = "outer" if (dsp != inf and fam in c.get("OuterOps", ()) and rng.random() < 0.5) else "all"
        out.append({"op": fam, "par": par, "src": src, "term": term, "aux": aux, "auxterm": auxterm, "dsp": dsp,
                    "dmode": dmode})
    return out


def sample_group_scns(rng, op: str, c: Dict[str, Any], n: int) -> List[Dict[str, Any]]:
    out = []
    inf = c["H"] + 1
    nv, nk = c["NVals"], c["NKeys"]
    for _ in range(n):
        if op == "group_by_until":
            ts = _times(rng, c["MaxLen"], c["MaxT"])
        else:                   # no timers: element j at instant min(j, MaxT)
            ts = [min(j, c["MaxT"]) for j in range(1, rng.randint(0, c["LongLen"]) + 1)]
        src = [{"t": t, "v": rng.randrange(nv)} for t in ts]
        term = _term(rng, ts[-1] if ts else 1, c["Terms"], c["MaxT"], inf)
        fault = c["Faults"] and rng.random() < 0.5

        def table(rng_vals, raise_val):
            t = {str(v): rng.choice(rng_vals) for v in range(nv)}
            if fault and rng.random() < 0.5:
                t[str(rng.randrange(nv))] = raise_val
            return t
        if op in ("partition", "partition_indexed"):
            par = {"p": table([0, 1], 2)}
        else:
            em = rng.random() < 0.5
            par = {"kf": table(list(range(nk)), RAISE), "em": em,
                   "ef": table(list(range(nv)), RAISE) if em else {str(v): v for v in range(nv)}}
            if op == "group_by_until":
                par["durs"] = [rng.choice(sorted(c["Durs"]) + [DNEVER]) for _ in range(rng.randint(1, 2))]
                par["dk"] = rng.choice(sorted(c["DKinds"]))
                par["fr"] = rng.randint(0, 2) if fault else 0
                par["dn"] = 0
                if c.get("DCounts") and not fault and rng.random() < 0.3:
                    par.update(durs=[DNEVER], dk="N", fr=0, dn=rng.choice(sorted(c["DCounts"])))
        dsp = rng.randint(0, c["MaxT"]) if c.get("Disposes") and rng.random() < 0.5 else inf
        rxg = rng.choice(sorted(c.get("RxG", {0}))) if op == "group_by_until" and par.get("dn", 0) == 0 else 0
        dmode = "outer" if (dsp != inf and c.get("OuterOnly") and op in ("group_by", "group_by_until")
                            and rng.random() < 0.5) else "all"
        out.append({"op": op, "par": par, "src": src, "term": term, "dsp": dsp, "dmode": dmode,
                    "rx": {"g": rxg, "v": rng.randrange(nv) if rxg else 0}})
    return out


def export_sampled(ck, module: str, invs: List[str], label: str, consts: Dict[str, Any], scns: List[Dict[str, Any]],
                   timeout: int = 1500):
    """TLC on <module>Scn with Init restricted to the sampled scenarios (all tie orders, invariants, export)."""
    import os
    import tempfile
    from harness import core, tlc
    fd, path = tempfile.mkstemp(prefix="scn_", suffix=".json")
    try:
        with os.fdopen(fd, "w") as f:
            json.dump(scns, f)
        res = tlc.run(module + "Scn", tlc.cfg_text(consts, init="InitFrom", invariants=invs + ["Export"]), workers=1,
                      timeout=timeout, xmx="2g", allow_violation=False, env_extra={"SCN_FILE": path})
    finally:
        os.unlink(path)
    ck.add_tlc(res, label)
    groups = core.group_allowed(res.lines)
    ck.tlc_runs[-1]["exported"] = len(groups)
    return (label, consts, groups)


def _job(args):
    kind, scn, allowed, variants, extra = args
    fails = []
    for v in variants:
        if kind == "window":
            f = judge_window(scn, allowed, v, extra["H"])
        else:
            f = judge_group(scn, allowed, v, extra["H"], extra["NVals"], extra["NKeys"])
        if f:
            fails.append(f)
    return len(variants), fails


def replay_all(ck, kind: str, exported, variants_for, procs: int = 8) -> int:
    from harness import core
    # load the library in the parent, so that the forked workers do not each import (and, in a fresh worktree
    # without byte-code cache, compile) its ~230 modules
    import reactivex  # noqa: F401
    import reactivex.operators  # noqa: F401
    import reactivex.scheduler  # noqa: F401
    import reactivex.testing  # noqa: F401
    jobs = []
    for label, c, groups in exported:
        extra = {"H": c["H"], "NVals": c.get("NVals", 0), "NKeys": c.get("NKeys", 0)}
        for scn, allowed in groups:
            jobs.append((kind, scn, allowed, variants_for(scn), extra))
    total = 0
    # the parent holds the exported scenarios (a large heap): freeze it so that the forked workers' garbage
    # collector does not traverse - and thereby copy - all of it (measured: 16x the CPU of a serial replay)
    import gc
    gc.collect()
    gc.freeze()
    # a fork pool costs seconds of page-fault warm-up per worker on a loaded box (measured 8-45 s per pool against
    # ~1 ms per replayed run): small batches are replayed serially
    nruns = sum(len(j[3]) for j in jobs)
    try:
        results = core.parallel_map(_job, jobs, procs=procs if nruns >= 12000 else 1, chunk=50)
    finally:
        gc.unfreeze()
    for n, fails in results:
        total += n
        for f in fails:
            ck.fail(f)
    ck.impl += total
    return total


def generic_replay(rec):
    if rec["engine"] == "window":
        f = judge_window(rec["scn"], rec["expected"], rec["var"], rec["horizon"])
    else:
        f = judge_group(rec["scn"], rec["expected"], rec["var"], rec["horizon"], rec["nvals"], rec["nkeys"])
    print(json.dumps(f, default=str)[:3000] if f else "replay: observation allowed by the spec")
    return 1 if f else 0
