"""Binding A for Marbles.tla (C38): call the real parse / from_marbles (cold) / hot / marbles_testing
on an exported string + parameter point and compare with the model's expected messages.

Codec only: the string is the exported characters joined; model time t <-> t * unit seconds (unit
1.0 / 0.5 / 2.0 - binary fractions, so float arithmetic is exact - given as float or timedelta);
value ["int", text] <-> int(text), ["float", text] <-> float(text), ["str", text] <-> text,
["lk", key] <-> the object the lookup dict maps that key to (identity); 'E' <-> the exception object
passed as error= (identity), or an Exception('error') when none is passed.

Wide digits: a model digit in scn["wide"] stands for a block of alen / blen digit characters of the real string (the
model counts that many frames for it); the codec decodes it to a numeral of exactly that length whose integer does not
fit a double's 53-bit mantissa (TLC integers are 32-bit, so these live here).  ["int", text] <-> the integer written by
the decoded digits (folded digit by digit, exactly); ["nlk", text] <-> the object the lookup maps that INTEGER key to."""
from __future__ import annotations

import warnings
from datetime import timedelta
from typing import Any, Dict, List, Optional, Tuple

SUBSCRIBED = 200.0
FALSY_LK = [None, 0, "", (), False, 0.0]


# decodings of a wide digit per profile: 16-digit block / 19-digit block (no leading zero)
WIDE_A = ["9007199254740993",      # 2**53 + 1
          "9999999999999999",      # nearest double is 10**16
          "9007199254740995"]
WIDE_B = ["1000000000000000007",   # 10**18 + 7
          "1695427200000000001",   # a nanosecond timestamp
          "9223372036854775807"]   # 2**63 - 1


def exact_int(digits: str) -> int:
    n = 0
    for ch in digits:
        n = n * 10 + "0123456789".index(ch)
    return n


class MarbleErr(Exception):
    pass


class LK:
    """a looked-up value (identity matters)"""

    def __init__(self, key: str):
        self.key = key

    def __repr__(self):
        return f"LK({self.key!r})"


def text(t: List[str]) -> str:
    return "".join(t)


class Codec:
    def __init__(self, scn: Dict[str, Any], unit: float, falsy: bool, with_error: bool, term: bool = False,
                 wide_profile: int = 0):
        self.dec: Dict[str, str] = {}
        w = scn.get("wide") or {}
        for c in w.get("a", []):
            self.dec[c] = WIDE_A[wide_profile % len(WIDE_A)]
            assert len(self.dec[c]) == w["alen"]
        for c in w.get("b", []):
            self.dec[c] = WIDE_B[wide_profile % len(WIDE_B)]
            assert len(self.dec[c]) == w["blen"]
        self.s = self.real(scn["s"])
        self.par = scn["par"]
        self.unit = unit
        self.err = MarbleErr("boom") if with_error else None
        keys = sorted(text(k) for k in self.par["lk"])
        if term:
            # looked-up values that ARE the strings "|" / "#" (they stay values); the terminal characters as keys map to
            # objects that must never show up (terminals are not looked up)
            self.lookup = {k: (LK(k) if k in ("|", "#") else "|#"[i % 2]) for i, k in enumerate(keys)}
        elif falsy:
            self.lookup = {k: FALSY_LK[i % len(FALSY_LK)] for i, k in enumerate(keys)}
        else:
            self.lookup = {k: LK(k) for k in keys}
        self.lookup_arg: Optional[Dict[Any, Any]] = dict(self.lookup) if keys else None
        if keys and not falsy:
            self.lookup_arg["zz-not-in-any-string"] = LK("noise")   # a key no marble uses must change nothing
        # numeric keys: the integer the key's numeral writes
        self.nlookup = {self.real(k): LK(self.real(k)) for k in sorted(text(k) for k in self.par.get("nk", []))}
        if self.nlookup:
            self.lookup_arg = dict(self.lookup_arg or {})
            ints = {exact_int(k) for k in self.nlookup}
            for k, v in self.nlookup.items():
                self.lookup_arg[exact_int(k)] = v
            for n in sorted(ints):
                # keys no marble of the string writes (the nearest double's integer, the neighbours): must change nothing
                for other in (int(float(n)), n + 1, n - 1):
                    if other not in ints:
                        self.lookup_arg.setdefault(other, LK("noise"))

    def real(self, t: List[str]) -> str:
        """the characters of the real string the model characters stand for"""
        return "".join(self.dec.get(c, c) for c in t)

    def value_ok(self, v: List[Any], got: Any) -> bool:
        cls, t = v[0], self.real(v[1])
        if cls == "nlk":
            return got is self.nlookup[t]
        if cls == "lk":
            want = self.lookup[t]
            return got is want or (type(got) is type(want) and got == want and not isinstance(want, LK))
        if cls == "int":
            return type(got) is int and got == exact_int(t)
        if cls == "float":
            return type(got) is float and got == float(t)
        return type(got) is str and got == t

    def note_ok(self, m: Dict[str, Any], n: Any) -> bool:
        """n is a reactivex Notification"""
        if m["k"] == "N":
            return n.kind == "N" and self.value_ok(m["v"], n.value)
        if m["k"] == "C":
            return n.kind == "C"
        if n.kind != "E":
            return False
        ex = n.exception
        if self.err is not None:
            return ex is self.err
        return type(ex) is Exception and ex.args == ("error",)

    def describe(self, n: Any) -> Any:
        if n.kind == "N":
            return ["N", type(n.value).__name__, repr(n.value)]
        if n.kind == "E":
            return ["E", repr(n.exception)]
        return ["C"]


def _cmp(cod: Codec, exp_msgs: List[Dict[str, Any]], got: List[Tuple[float, Any]], origin: float) -> Optional[str]:
    if len(got) != len(exp_msgs):
        return "count"
    for m, (t, n) in zip(exp_msgs, got):
        if not cod.note_ok(m, n):
            return "value" if m["k"] == "N" and n.kind == "N" else "kind"
        if t != origin + m["time"] * cod.unit:
            return "time"
    return None


def _rec(api: str, scn, exp, cod: Codec, why: str, got: Any, **extra) -> Dict[str, Any]:
    s = cod.s
    r = {"engine": "marbles", "api": api, "string": s, "scn": scn, "expected": exp, "failure": why, "observed": got,
         "unit": cod.unit, "falsy": any(not isinstance(v, LK) for v in cod.lookup.values()), "with_error": cod.err is not None,
         "has_group": "(" in s, "has_space": " " in s, "par": scn["par"]["name"]}
    r.update(extra)
    return r


def judge(scn: Dict[str, Any], exp: Dict[str, Any], *, unit: float = 1.0, as_timedelta: bool = False, falsy: bool = False,
          with_error: bool = True, hist: bool = False, term: bool = False, wide_profile: int = 0,
          apis=("parse", "cold", "hot", "ctx")) -> List[Dict[str, Any]]:
    """Failure records (empty list = every API call agreed with the model)."""
    import reactivex
    from reactivex.observable.marbles import parse
    from reactivex.testing import TestScheduler
    from reactivex.testing.marbles import marbles_testing
    cod = Codec(scn, unit, falsy, with_error, term, wide_profile)
    par = scn["par"]
    s = cod.s
    ts_f = par["ts"] * unit
    sh_f = par["shift"] * unit
    ts_arg = timedelta(seconds=ts_f) if as_timedelta else ts_f
    sh_arg = timedelta(seconds=sh_f) if as_timedelta else sh_f
    fails: List[Dict[str, Any]] = []
    extra = {"as_timedelta": as_timedelta, "hist": hist, "term": term, "wide_profile": wide_profile}
    # the scheduler the observables run on: TestScheduler (float clock) or HistoricalScheduler (datetime clock)
    if hist:
        from reactivex.scheduler import HistoricalScheduler
        from reactivex.scheduler.scheduler import UTC_ZERO

        def new_sched():
            return HistoricalScheduler()

        def at(t):
            return UTC_ZERO + timedelta(seconds=t)

        def clock_of(sched):
            return (sched.clock - UTC_ZERO).total_seconds()
    else:
        def new_sched():
            return TestScheduler()

        def at(t):
            return float(t)

        def clock_of(sched):
            return sched.clock

    # ---- parse --------------------------------------------------------------------------------
    if "parse" in apis:
        try:
            kw = dict(timespan=ts_arg, time_shift=sh_arg, lookup=cod.lookup_arg, error=cod.err)
            if par["rs"]:
                kw["raise_stopped"] = True
            msgs = parse(s, **kw)
            got = [(t, n) for t, n in msgs]
            if exp["rejected"]:
                fails.append(_rec("parse", scn, exp, cod, "not_rejected", [cod.describe(n) for _, n in got], **extra))
            else:
                why = _cmp(cod, exp["msgs"], got, 0.0)
                if why:
                    fails.append(_rec("parse", scn, exp, cod, why, [[t, cod.describe(n)] for t, n in got], **extra))
        except ValueError as e:
            if not exp["rejected"]:
                fails.append(_rec("parse", scn, exp, cod, "rejected", repr(e), **extra))
        except Exception as e:
            fails.append(_rec("parse", scn, exp, cod, "exception", repr(e), **extra))

    if not par["rs"]:
        return fails   # from_marbles / hot always parse with raise_stopped=True: only those points apply

    def record_on(sched, sink):
        def on_next(v):
            from reactivex.notification import OnNext
            sink.append((clock_of(sched), OnNext(v)))

        def on_error(e):
            from reactivex.notification import OnError
            sink.append((clock_of(sched), OnError(e)))

        def on_completed():
            from reactivex.notification import OnCompleted
            sink.append((clock_of(sched), OnCompleted()))
        return on_next, on_error, on_completed

    # ---- from_marbles / cold: no shift parameter -------------------------------------------------
    if "cold" in apis and par["shift"] == 0:
        for form in ("from_marbles", "cold"):
            try:
                sched = new_sched()
                fn = getattr(reactivex, form)
                obs = fn(s, timespan=ts_arg, lookup=cod.lookup_arg, error=cod.err) if form == "cold" else \
                    fn(s, timespan=ts_arg, scheduler=sched, lookup=cod.lookup_arg, error=cod.err)
                sink: List[Any] = []
                on = record_on(sched, sink)
                sched.schedule_absolute(at(SUBSCRIBED), lambda *_: obs.subscribe(*on, scheduler=sched))
                sched.advance_to(at(5000.0))
                if exp["rejected"]:
                    fails.append(_rec(form, scn, exp, cod, "not_rejected", len(sink), **extra))
                else:
                    why = _cmp(cod, exp["msgs"], sink, SUBSCRIBED)
                    if why:
                        fails.append(_rec(form, scn, exp, cod, why, [[t, cod.describe(n)] for t, n in sink], **extra))
                    # a second subscription of the cold observable gets the same diagram again
                    sink2: List[Any] = []
                    obs.subscribe(*record_on(sched, sink2), scheduler=sched)
                    sched.advance_to(at(10000.0))
                    why = _cmp(cod, exp["msgs"], sink2, 5000.0)
                    if why:
                        fails.append(_rec(form, scn, exp, cod, "resubscribe_" + why, [[t, cod.describe(n)] for t, n in sink2], **extra))
            except ValueError as e:
                if not exp["rejected"]:
                    fails.append(_rec(form, scn, exp, cod, "rejected", repr(e), **extra))
            except Exception as e:
                fails.append(_rec(form, scn, exp, cod, "exception", repr(e), **extra))

    # ---- hot: the shift is the due time ------------------------------------------------------------
    if "hot" in apis:
        try:
            sched = new_sched()
            # on the datetime clock the due time is given as an absolute datetime
            obs = reactivex.hot(s, timespan=ts_arg, duetime=at(sh_f) if hist else sh_arg, lookup=cod.lookup_arg, error=cod.err,
                                scheduler=sched)
            # two subscribers from the start, and a late one (between two frames) which must see exactly
            # what is later than its subscription
            sinks: List[List[Any]] = [[], [], []]
            obs.subscribe(*record_on(sched, sinks[0]))
            obs.subscribe(*record_on(sched, sinks[1]))
            late_at = sh_f + 1.5 * ts_f
            sched.schedule_absolute(at(late_at), lambda *_: obs.subscribe(*record_on(sched, sinks[2])))
            sched.advance_to(at(5000.0))
            if exp["rejected"]:
                fails.append(_rec("hot", scn, exp, cod, "not_rejected", len(sinks[0]), **extra))
            else:
                exp_late = [m for m in exp["msgs"] if m["time"] * unit > late_at]
                for i, (want, label) in enumerate([(exp["msgs"], "first"), (exp["msgs"], "second"), (exp_late, "late")]):
                    why = _cmp(cod, want, sinks[i], 0.0)
                    if why:
                        missing_only_terminal = (len(sinks[i]) == len(want) - 1 and bool(want) and want[-1]["k"] in ("C", "E")
                                                 and _cmp(cod, want[:-1], sinks[i], 0.0) is None)
                        fails.append(_rec("hot", scn, exp, cod, why, [[t, cod.describe(n)] for t, n in sinks[i]],
                                          subscriber=label, missing_only_terminal=missing_only_terminal, **extra))
        except ValueError as e:
            if not exp["rejected"]:
                fails.append(_rec("hot", scn, exp, cod, "rejected", repr(e), **extra))
        except Exception as e:
            fails.append(_rec("hot", scn, exp, cod, "exception", repr(e), **extra))

    # ---- the testing context on TestScheduler ---------------------------------------------------------
    if "ctx" in apis and par["shift"] == 0 and not as_timedelta:
        for which in ("cold", "hot"):
            try:
                with warnings.catch_warnings():
                    warnings.simplefilter("ignore")
                    with marbles_testing(timespan=ts_f) as ctx:
                        obs = getattr(ctx, which)(s, cod.lookup_arg, cod.err)
                        recs = ctx.start(obs)
                        got = [(r.time, r.value) for r in recs]
                        ex = ctx.exp(s, cod.lookup_arg, cod.err) if unit == int(unit) else None
                if exp["rejected"]:
                    fails.append(_rec("ctx." + which, scn, exp, cod, "not_rejected", len(got), **extra))
                    continue
                want = exp["msgs"]
                if which == "hot":
                    # documented: a marble declared as the first character is skipped by the test scheduler
                    # (it is due at the very instant of the subscription); delivering it is not an error either
                    first = [m for m in want if m["time"] == 0]
                    rest = [m for m in want if m["time"] != 0]
                    why = _cmp(cod, rest, got, SUBSCRIBED)
                    if why and first:
                        why = _cmp(cod, want, got, SUBSCRIBED)
                else:
                    why = _cmp(cod, want, got, SUBSCRIBED)
                if why:
                    fails.append(_rec("ctx." + which, scn, exp, cod, why, [[t, cod.describe(n)] for t, n in got], **extra))
                if ex is not None and which == "cold":
                    gotx = [(r.time, r.value) for r in ex]
                    why = _cmp(cod, want, gotx, SUBSCRIBED)
                    if why:
                        fails.append(_rec("ctx.exp", scn, exp, cod, why, [[t, cod.describe(n)] for t, n in gotx], **extra))
            except ValueError as e:
                if not exp["rejected"]:
                    fails.append(_rec("ctx." + which, scn, exp, cod, "rejected", repr(e), **extra))
            except Exception as e:
                fails.append(_rec("ctx." + which, scn, exp, cod, "exception", repr(e), **extra))
    return fails
