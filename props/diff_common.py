"""Differential passes over the operator catalogue (no model of the operator needed): two executions of the same
seeded scenario that the property says must be indistinguishable are both validated against the Lifecycle.tla
monitor and then compared event by event (kinds, virtual times, element renderings, subscription intervals).
  forms  (C39)  fluent method vs piped operator
  resub  (C04)  second subscription of the same cold pipeline vs the first (relative times)
These are reported in the evidence as `differential` counts, separately from the model-checked coverage."""
from __future__ import annotations

import random
from typing import Any, Dict, List, Optional, Tuple

from harness import core, tracecheck
from props import catalogue as cat
from props import lifecycle_common as lc

# partition shares its source between its two outputs through publish + ref_count (excluded by the statement)
MULTICAST = {"share", "publish", "replay", "publish_value", "partition", "partition_indexed"}
# callbacks with state shared across subscriptions by construction (a counter-like condition), or a fresh trigger per call
NONDET = {"while_do", "do_while", "window_when", "buffer_when", "sample", "take_until", "skip_until", "window", "buffer",
          "timeout_with_mapper", "window_toggle", "buffer_toggle", "join", "group_join",
          "timestamp"}      # timestamp: the absolute clock reading legitimately differs between two subscriptions


def _proj(ev: List[Dict[str, Any]], shift: float = 0.0):
    out = []
    for e in ev:
        if e["e"] in ("tick", "end"):
            continue
        d = {k: v for k, v in e.items() if k in ("e", "k", "g", "r", "o", "v", "err", "role")}
        if "vt" in e:
            d["vt"] = e["vt"] - shift
        out.append(d)
    return out


def _first_diff(a, b) -> Optional[str]:
    for i, (x, y) in enumerate(zip(a, b)):
        if x != y:
            return f"event {i}: {x} != {y}"
    if len(a) != len(b):
        return f"length {len(a)} != {len(b)}; next: {(a + b)[min(len(a), len(b))]}"
    return None


def _forms_job(spec):
    out = {}
    for form in ("pipe", "fluent"):
        sp = dict(spec, form=form)
        try:
            out[form] = lc.run_pipeline(sp)
        except Exception as e:
            out[form] = {"trace": None, "skip": f"harness:{type(e).__name__}:{e}"[:200]}
    return spec, out


def forms_pass(ck, seed: int, per_op: int) -> Dict[str, Any]:
    """C39, differential: every catalogue operator that exists as a method, `per_op` seeded scenarios."""
    from reactivex import Observable
    rnd = random.Random(seed)
    names = sorted(n for n in cat.CATALOGUE if hasattr(Observable, cat.REAL_NAME.get(n, n)))
    missing = sorted(n for n in cat.CATALOGUE if not hasattr(Observable, cat.REAL_NAME.get(n, n)))
    def weight(n):
        """methods that pass three or more arguments on (two callbacks and a source, ...) can mix them up: more scenarios"""
        try:
            a, k = cat.CATALOGUE[n][1](cat.Ctx(0))
            return 5 if len(a) + len(k) >= 3 else 1
        except Exception:
            return 1
    specs = [dict(seed=rnd.randrange(10 ** 9), names=[n], hot=rnd.random() < 0.5) for n in names for _ in range(per_op * weight(n))]
    res = core.parallel_map(_forms_job, specs, procs=10, chunk=40)
    compared, traces, skipped = 0, [], 0
    for spec, out in res:
        p, f = out["pipe"], out["fluent"]
        if p["trace"] is None:
            skipped += 1
            continue
        if f["trace"] is None:
            if f["skip"].startswith("build:TypeError") or f["skip"].startswith("build:AttributeError"):
                ck.fail({"engine": "forms-diff", "op": spec["names"][0], "spec": spec, "failure": "signature", "why": f["skip"],
                         "reason_kind": "signature"})
            else:
                skipped += 1
            continue
        compared += 1
        d = _first_diff(_proj(p["trace"]["ev"]), _proj(f["trace"]["ev"]))
        if d:
            ck.fail({"engine": "forms-diff", "op": spec["names"][0], "spec": spec, "failure": "forms_differ", "why": d,
                     "reason_kind": "forms_differ", "piped": _proj(p["trace"]["ev"])[:25], "fluent": _proj(f["trace"]["ev"])[:25]})
        traces.append(f["trace"])
    keep = ("e", "id", "k", "g", "r", "o", "t")
    tl = [{"strict": t["strict"], "own": t.get("own", False), "solo": t.get("solo", False), "ev": [{k: v for k, v in e.items() if k in keep} for e in t["ev"]]} for t in traces]
    rejected, ress = tracecheck.validate("LifecycleTrace", lc.CONSTS, tl, timeout=900)
    for r in ress:
        ck.add_tlc(r, f"fluent-form executions against the Lifecycle monitor: {len(tl)} traces")
    ck.impl += compared
    return {"methods_compared": names, "catalogue_operators_without_method": missing, "scenario_pairs_compared": compared,
            "skipped": skipped, "fluent_traces_rejected_by_monitor": len(rejected)}


def _resub_job(spec):
    """one cold pipeline object, subscribed at 200 and again at 1500 (after the first run is over)"""
    import reactivex
    from reactivex import Observable
    ctx = cat.Ctx(spec["seed"], None, False)
    s = ctx.s
    try:
        ys, flags = cat.build_pipeline(ctx, spec["names"], spec.get("form", "pipe"))
    except Exception as e:
        return spec, None, f"build:{type(e).__name__}"
    runs: List[List[Dict[str, Any]]] = [[], []]

    def sub(k):
        def go(_s=None, _st=None):
            def on_next(v):
                runs[k].append({"e": "sink", "k": "N", "v": "<observable>" if isinstance(v, Observable) else lc._show(v), "vt": s.clock})
            ys.subscribe(on_next=on_next, on_error=lambda e: runs[k].append({"e": "sink", "k": "E", "err": type(e).__name__, "vt": s.clock}),
                         on_completed=lambda: runs[k].append({"e": "sink", "k": "C", "vt": s.clock}), scheduler=s)
        return go
    second = spec.get("second_at", 1500)
    s.schedule_absolute(200, sub(0))
    s.schedule_absolute(second, sub(1))
    import signal
    old = signal.signal(signal.SIGALRM, lc._alarm)
    signal.setitimer(signal.ITIMER_REAL, 4.0)
    try:
        s.advance_to(3000)
    except lc._Hang:
        return spec, None, "watchdog"
    except Exception as e:
        return spec, None, f"foreign:{type(e).__name__}"
    finally:
        signal.setitimer(signal.ITIMER_REAL, 0)
        signal.signal(signal.SIGALRM, old)
    subs = subs2 = None
    if second >= 1500:   # sequential pattern: the two subscribers' source subscriptions are separable by time
        subs = [[(x.subscribe - 200, x.unsubscribe - 200 if x.unsubscribe < 10 ** 9 else None, src._role) for x in src.subscriptions if x.subscribe < 1500]
                for src in ctx.sources]
        subs2 = [[(x.subscribe - 1500, x.unsubscribe - 1500 if x.unsubscribe < 10 ** 9 else None, src._role) for x in src.subscriptions if x.subscribe >= 1500]
                 for src in ctx.sources]
    return spec, (runs, subs, subs2), None


def resub_pass(ck, seed: int, per_op: int, form: str = "pipe") -> Dict[str, Any]:
    """C04, differential: each non-multicasting catalogue operator with deterministic callbacks on a cold source.
    form="fluent" (C39): the same through the method form - what the method does to its arguments before handing them to
    the operator (iter(), defaults, conversions) must not be shared between subscriptions either."""
    rnd = random.Random(seed)
    names = sorted(n for n in cat.CATALOGUE if n not in MULTICAST and n not in NONDET)
    if form == "fluent":
        from reactivex import Observable
        names = [n for n in names if hasattr(Observable, cat.REAL_NAME.get(n, n))]
    # sequential (second subscription after the first run is over) and overlapping (a few ticks later, while the first
    # subscriber's timers and inner subscriptions are pending)
    specs = [dict(seed=rnd.randrange(10 ** 9), names=[n], second_at=sa, form=form) for n in names for _ in range(per_op)
             for sa in (1500, rnd.choice([203, 207, 212, 218, 226]))]
    res = core.parallel_map(_resub_job, specs, procs=10, chunk=40)
    compared = skipped = 0
    for spec, out, skip in res:
        if out is None:
            skipped += 1
            continue
        runs, subs, subs2 = out
        second = spec["second_at"]
        if second >= 1500 and any(e["vt"] >= 1500 for e in runs[0]):
            skipped += 1          # the first run was not over when the second began: not the sequential pattern
            continue
        compared += 1
        # both runs are cut at the same horizon of absolute time: compare what both had the time to do
        a = [dict(e, vt=e["vt"] - 200) for e in runs[0] if e["vt"] - 200 <= 1200]
        b = [dict(e, vt=e["vt"] - second) for e in runs[1] if e["vt"] - second <= 1200]
        d = _first_diff(a, b)
        if d is None and subs is not None and sorted(map(str, subs)) != sorted(map(str, subs2)):
            d = f"source subscription intervals differ: {subs} vs {subs2}"
        if d:
            ck.fail({"engine": "resub-diff", "op": spec["names"][0], "spec": spec, "failure": "resubscription_differs", "why": d,
                     "reason_kind": "resubscription_differs", "first": a[:25], "second": b[:25]})
    ck.impl += compared
    return {"operators": names, "excluded_multicasting": sorted(MULTICAST), "excluded_stateful_callbacks": sorted(NONDET),
            "scenario_pairs_compared": compared, "skipped": skipped}


# ---- connectable forms: fluent method vs piped operator, two subscribers (one of them late) -----------------------
CONN_FORMS = {
    # name -> builder(ctx) -> (args, kwargs); every result is a ConnectableObservable turned into an observable by ref_count
    "publish": lambda c: ((), {}),
    "publish_value": lambda c: ((c.rnd.choice([None, 0, 7]),), {}),
    "replay": lambda c: ((c.rnd.choice([None, 1, 2]),), {}),
    "replay_window": lambda c: ((c.rnd.choice([None, 2]), c.rnd.choice([8, 15, 30])), {"scheduler": c.s}),
    "replay_window_kw": lambda c: ((), {"buffer_size": c.rnd.choice([1, 3]), "window": c.rnd.choice([8, 15]), "scheduler": c.s}),
    "multicast": lambda c: ((), {"subject": __import__("reactivex").subject.ReplaySubject(2, scheduler=c.s)}),
}
_CONN_REAL = {"replay_window": "replay", "replay_window_kw": "replay"}


def _conn_job(spec):
    """same seeded scenario through source.<op>(...) and source.pipe(ops.<op>(...)), connected with ref_count();
    one subscriber at 200, a late one at 200 + late: both subscribers' streams must be identical in the two forms"""
    from reactivex import operators as ops
    out = {}
    for form in ("pipe", "fluent"):
        ctx = cat.Ctx(spec["seed"], None, True)
        s = ctx.s
        xs = ctx.source("num", "main", hot=True, maxlen=4, span=80)
        name = spec["name"]
        args, kwargs = CONN_FORMS[name](ctx)
        rn = _CONN_REAL.get(name, name)
        try:
            conn = getattr(xs, rn)(*args, **kwargs) if form == "fluent" else xs.pipe(getattr(ops, rn)(*args, **kwargs))
            ys = conn.pipe(ops.ref_count())
        except TypeError as e:
            out[form] = ("signature", str(e)[:120])
            continue
        logs = [[], []]

        def sub(k):
            def go(_s=None, _st=None):
                ys.subscribe(on_next=lambda v: logs[k].append(("N", lc._show(v), s.clock)),
                             on_error=lambda e: logs[k].append(("E", type(e).__name__, s.clock)),
                             on_completed=lambda: logs[k].append(("C", "", s.clock)), scheduler=s)
            return go
        s.schedule_absolute(200, sub(0))
        s.schedule_absolute(200 + spec["late"], sub(1))
        try:
            s.advance_to(1000)
        except Exception as e:
            out[form] = ("raised", type(e).__name__)
            continue
        out[form] = ("ok", logs, [(x.subscribe, x.unsubscribe) for x in xs.subscriptions])
    return spec, out


def conn_forms_pass(ck, seed: int, per_op: int) -> Dict[str, Any]:
    rnd = random.Random(seed)
    specs = [dict(seed=rnd.randrange(10 ** 9), name=n, late=rnd.choice([12, 25, 40, 55])) for n in CONN_FORMS for _ in range(per_op)]
    compared = 0
    for spec, out in map(_conn_job, specs):
        p, f = out.get("pipe"), out.get("fluent")
        if p is None or p[0] != "ok":
            continue
        compared += 1
        if f[0] != "ok" or f[1:] != p[1:]:
            ck.fail({"engine": "forms-diff", "op": _CONN_REAL.get(spec["name"], spec["name"]), "spec": spec,
                     "failure": "signature" if f[0] == "signature" else "forms_differ",
                     "why": f"fluent {f[0]}: {str(f[1:])[:400]} vs piped {str(p[1:])[:400]}", "reason_kind": "forms_differ", "conn": True})
    ck.impl += compared
    return {"connectable_forms": sorted(CONN_FORMS), "scenario_pairs_compared": compared}
