"""C13 - multi-source combinators follow their pairing rules (OpsCombine.tla, Binding A).

TLC enumerates tuples of 1..3 (thorough: ..4) source timelines with integer instants - interleaved,
simultaneous, empty, erroring, never-ending - for zip, combine_latest, with_latest_from, fork_join and
amb (growth: take_until, skip_until, zip_with_iterable, sequence_equal(observable); dispose instants),
executes every tie order in the model, checks the pairing rules as stated by the property against the
queue/flag transducers (RefOK) plus grammar/release invariants, and exports scenario -> allowed
observations.  Every scenario is replayed on the real static and operator forms with hot and cold
logged sources (both creation orders, three instant->time maps) and must produce an allowed
observation: tuples and their times, terminal kind/time/exception, every source closed by the time
the result ended, amb's losers closed at the winner's first notification."""
from __future__ import annotations

import json
import random
from concurrent.futures import ThreadPoolExecutor

from harness import core
from props import combine_common as cc


def _label(name, c):
    return name + " " + json.dumps({k: sorted(v) if isinstance(v, set) else v for k, v in c.items()}, sort_keys=True)


def _vacuity(groups):
    """Every outcome class the statement talks about must actually occur in the exported scenarios of each
    core operator (else the comparison would be vacuous): machinery failure otherwise."""
    need = {o: {"tuple", "completed", "failed", "silent", "tie_matters", "disposed", "disposed_in_on_next"} for o in cc.CORE_OPS}
    need["amb"] |= {"loser_closed", "three_way"}
    for scn, allowed in groups:
        o = scn["op"]
        if o not in need or not need[o]:
            continue
        have = need[o]
        for a in allowed:
            ks = [e["k"] for e in a["out"]]
            if "N" in ks:
                have.discard("tuple")
            if ks[-1:] == ["C"]:
                have.discard("completed")
            if ks[-1:] == ["E"]:
                have.discard("failed")
            if not ks:
                have.discard("silent")
            if a["disposed"]:
                have.discard("disposed_in_on_next" if scn.get("dk", 0) else "disposed")
            if o == "amb" and a["w"] and scn["n"] > 1:
                have.discard("loser_closed")
                if scn["n"] >= 3:
                    have.discard("three_way")
        if len({json.dumps(a["out"]) for a in allowed}) > 1:
            have.discard("tie_matters")
    missing = {o: sorted(v) for o, v in need.items() if v}
    if missing:
        raise RuntimeError(f"vacuous export: outcome classes never produced by the model: {missing}")


def run(tier: str) -> int:
    ck = core.Check("C13", tier)
    quick = tier == "quick"
    ck.rule = ("scenario = operator x arity x one timeline per source (0..MaxLen elements then completion, error or "
               "nothing, instants 1..MaxT, ties between sources explicit) [x dispose instant]; all tie orders executed by "
               "TLC on OpsCombine.tla; each scenario replayed on the real static and operator forms, hot and cold sources, "
               "both creation orders; non-trivial = more than one allowed observation (a tie or a completion window "
               "matters) or at least one element emitted")
    runs = []          # exhaustive runs: (label, constants)
    G3 = ["take_until", "skip_until", "zip_with_iterable"]
    if quick:
        # one TLC process for three families (a short TLC run is dominated by JVM start and warm-up)
        runs.append(("preset quick: " + "; ".join(cc.PRESETS["quick"]), cc.preset("quick")))
        sims = []          # sampled 3/4-source tuples with long timelines: thorough tier only (two more TLC stages)
    else:
        for o in cc.CORE_OPS:
            runs.append((o + " n<=2", cc.consts([o], {1, 2}, 3, 4)))
        for o in cc.CORE_OPS:
            runs.append((o + " n=3", cc.consts([o], {3}, 2, 2)))
        runs.append(("growth", cc.consts(G3, {2}, 3, 4)))
        runs.append(("sequence_equal(observable)", cc.consts(["sequence_equal"], {2}, 2, 3, nvals=2, faults=True)))
        runs.append(("subscription-instant notifications (cold)", cc.consts(cc.CORE_OPS + G3, {1, 2}, 2, 2, mint=0)))
        runs.append(("dispose n=2", cc.consts(cc.CORE_OPS + G3, {2}, 2, 3, disposes=True, dispose_in=2)))
        runs.append(("dispose n=3", cc.consts(cc.CORE_OPS, {3}, 1, 2, disposes=True, dispose_in=1)))
        sims = [("n=3 len<=3", cc.consts(cc.CORE_OPS, {3}, 3, 4), 5000, 60),
                ("n=4 len<=3", cc.consts(cc.CORE_OPS, {4}, 3, 4), 8000, 60),
                ("n=4 len<=3 sparse ties", cc.consts(cc.CORE_OPS, {4}, 3, 8), 4000, 60),
                ("n=4 dispose", cc.consts(cc.CORE_OPS, {4}, 2, 3, disposes=True, dispose_in=2), 3000, 60)]

    # exhaustive exports and the simulate->enumerate pairs run side by side (<= 5 TLC processes)
    with ThreadPoolExecutor(2) as ex:
        f_ex = ex.submit(cc.export_runs, ck, runs, 3000, 1 if quick else 3, None, 3 if quick else 1)   # thorough: + 1 for the simulate/enumerate chain
        f_sim = ex.submit(lambda: [ln for j, (lab, c, num, depth) in enumerate(sims)
                                   for ln in cc.simulate_then_enumerate(ck, lab, c, num, depth, ck.seed + 11 + j, timeout=3000)])
        lines = f_ex.result() + f_sim.result()
    ck.exhaustive = False      # exhaustive for the constants of the runs listed in tlc_runs; n=3/4 x long lanes are sampled
    groups = core.group_allowed(lines)
    ck.note("scenarios", len(groups))
    ck.note("scenarios_with_several_allowed_observations", sum(1 for g in groups if len(g[1]) > 1))
    by = {}
    for s, _ in groups:
        key = f"{s['op']}/{s['n']}"
        by[key] = by.get(key, 0) + 1
    ck.note("scenarios_by_operator_arity", dict(sorted(by.items())))
    _vacuity(groups)

    level = 1 if quick else 2

    def vfn(s):
        vs = cc.variants_for(s, level if s["dsp"] < 0 else 0)
        if s["dsp"] >= 0:      # both tie orders of the dispose action
            vs = vs + [dict(v, dfirst=not v["dfirst"]) for v in vs]
        if not quick:
            vs = vs + cc.variants_for(s, 0, profile="falsy") + cc.variants_for(s, 0, sched="hist")[:1]
        elif sum(map(ord, json.dumps(s, sort_keys=True))) % 4 == 0:
            vs = vs + cc.variants_for(s, 0, profile="falsy")[:1] + cc.variants_for(s, 0, sched="hist")[1:]
        return vs
    cc.replay_groups(ck, groups, vfn, procs=1 if quick else 3, serial_below=150000)
    ck.nontrivial = sum(1 for g in groups if cc.nontrivial(*g))
    rnd = random.Random(ck.seed)
    for g in rnd.sample(groups, min(5, len(groups))):
        ck.sample({"scn": g[0], "allowed": g[1]})
    ck.note("asserted_projection", {
        "compared": ["emitted values (tuple components by identity of the source's element objects) and their instants",
                     "terminal kind and instant; exception object identity",
                     "each source subscribed exactly once at the subscription instant",
                     "once the result terminated / was disposed: every source subscription closed no later than that instant",
                     "amb: every loser unsubscribed exactly at the instant of the winner's first notification"],
        "not_compared": ["order in which the sources are subscribed",
                         "unsubscription instants of sources while the result has not terminated (except amb's losers)"],
        "model_nondeterminism": ["order of notifications of different sources (and of dispose) at one instant",
                                 "combine_latest / with_latest_from: completion anywhere from the first instant no further tuple is "
                                 "possible to the instant all sources / the primary completed",
                                 "skip_until: whether/when the result completes after the source completed with the gate shut",
                                 "zip_with_iterable: completion right after the iterable's last element was paired, or at the next source element"]})
    ck.assumptions = ["TestScheduler/HistoricalScheduler run actions in due order, FIFO among equals (checked separately: C28)",
                      "hot sources fire in creation order at one instant, cold ones in subscription order: the replayer drives a "
                      "subset of the tie orders the model allows",
                      "operators here own no timers: only order and coincidence of instants matter, three strictly increasing "
                      "instant->time maps are used"]
    return ck.finish()


replay = cc.generic_replay


META = {
    'technique': 'TLC-enumerated tuples of source timelines (all tie orders) of OpsCombine.tla transducers, reference-checked in the model, replayed on the real static and operator forms on TestScheduler/HistoricalScheduler',
    'level': 'OpsCombine.tla states zip, combine_latest, with_latest_from, fork_join and amb (plus take_until, skip_until, zip_with_iterable, sequence_equal(observable)) twice - queue/flag transducers and the property wording over the cut of consumed notifications - and TLC checks agreement, notification grammar and source release on every tie order of every enumerated tuple of 1-2 (thorough 1-3) timelines exhaustively and of sampled 3-4-source tuples; every scenario with its set of allowed observations is replayed on the real code (static and piped forms, hot/cold sources, both creation orders, dispose instants) and must match on tuples, instants, terminal, exception identity, closure of every source subscription by the end of the result and the unsubscription instant of amb losers.',
    'note': 'TLC 2026.09; codec of props/combine_common.py; TestScheduler/HistoricalScheduler order (C28); completion instants the statement leaves open are a nondeterministic window in the model',
    'ref': 'DESIGN.md 6 C13, 2.1 RunN, 3.2, App. C',
}
