"""C13 - multi-source combinators follow their pairing rules (OpsCombine.tla, Binding A).

TLC enumerates tuples of 1..3 (thorough: 1..4) source timelines with integer instants - interleaved,
simultaneous, empty, erroring, never-ending - for zip, combine_latest, with_latest_from, fork_join and
amb (growth: take_until, skip_until, zip_with_iterable, sequence_equal(observable); dispose at an
instant or inside on_next; notifications at the subscription instant), executes every tie order in the
model, checks the pairing rules as worded by the property against the queue/flag transducers (RefOK)
plus grammar/release invariants, and exports scenario -> allowed observations.  Every scenario is
replayed on the real static and operator forms with hot and cold logged sources (both creation orders,
three instant->time maps, TestScheduler and HistoricalScheduler, plain and falsy values, one observable
passed twice) and must produce an allowed observation: tuples and their times, terminal
kind/time/exception, every source closed by the time the result ended, amb's losers closed at the
winner's first notification.  Families are processed end to end (TLC -> replay) and then dropped."""
from __future__ import annotations

import json
import random
import threading
from concurrent.futures import ThreadPoolExecutor

from harness import core
from props import combine_common as cc


class _Acc:
    """what is kept of a family once it has been replayed (the export lines themselves are dropped)"""

    def __init__(self):
        self.lock = threading.Lock()
        self.scenarios = 0
        self.several = 0
        self.nontrivial = 0
        self.by = {}
        self.need = {o: {"tuple", "completed", "failed", "silent", "tie_matters", "disposed", "disposed_in_on_next"}
                     for o in cc.CORE_OPS}
        self.need["amb"] |= {"loser_closed", "three_way"}
        self.samples = []


def _vacuity(need, groups):
    """Every outcome class the statement talks about must actually occur in the exported scenarios of each
    core operator (else the comparison would be vacuous)."""
    for scn, allowed in groups:
        o = scn["op"]
        if o not in need or not need[o]:
            continue
        have = need[o]
        for a in allowed:
            ks = [e["k"] for e in a["out"]]
            if "N" in ks:
                have.discard("tuple")
            if ks[-1:] == ["C"]:
                have.discard("completed")
            if ks[-1:] == ["E"]:
                have.discard("failed")
            if not ks:
                have.discard("silent")
            if a["disposed"]:
                have.discard("disposed_in_on_next" if scn.get("dk", 0) else "disposed")
            if o == "amb" and a["w"] and scn["n"] > 1:
                have.discard("loser_closed")
                if scn["n"] >= 3:
                    have.discard("three_way")
        if len({json.dumps(a["out"]) for a in allowed}) > 1:
            have.discard("tie_matters")


def _family(ck, acc, job, vfn):
    """one family end to end: TLC (model invariants + export, or simulate -> all tie orders), grouping,
    replay on the real code, then only counters survive"""
    kind, label, c, num, depth, seed = job[:6]
    if kind == "exhaustive":
        lines = cc.export_runs(ck, [(label, c)], 3000, 1, None, job[6] if len(job) > 6 else 1)
    else:
        lines = cc.simulate_then_enumerate(ck, label, c, num, depth, seed, timeout=3000)
    groups = core.group_allowed(lines)
    del lines
    cc.replay_groups(ck, groups, vfn, procs=1)
    with acc.lock:
        acc.scenarios += len(groups)
        acc.several += sum(1 for g in groups if len(g[1]) > 1)
        acc.nontrivial += sum(1 for g in groups if cc.nontrivial(*g))
        for s_, _ in groups:
            key = f"{s_['op']}/{s_['n']}"
            acc.by[key] = acc.by.get(key, 0) + 1
        _vacuity(acc.need, groups)
        rnd = random.Random(ck.seed + len(acc.samples))
        if len(acc.samples) < 6 and groups:
            g = rnd.choice(groups)
            acc.samples.append({"family": label[:60], "scn": g[0], "allowed": g[1]})


def run(tier: str) -> int:
    ck = core.Check("C13", tier)
    quick = tier == "quick"
    ck.rule = ("scenario = operator x arity x one timeline per source (0..MaxLen elements then completion, error or "
               "nothing, instants 1..MaxT, ties between sources explicit) [x dispose instant]; all tie orders executed by "
               "TLC on OpsCombine.tla; each scenario replayed on the real static and operator forms, hot and cold sources, "
               "both creation orders, plain / falsy / hostile-__eq__ element values; non-trivial = more than one allowed observation (a tie or a completion window "
               "matters) or at least one element emitted")
    G3 = ["take_until", "skip_until", "zip_with_iterable"]
    E = "exhaustive"
    jobs = []
    if quick:
        # one TLC process (3 workers) for three families: a short TLC run is dominated by JVM start and warm-up
        jobs.append((E, "preset quick: " + "; ".join(cc.PRESETS["quick"]), cc.preset("quick"), 0, 0, 0, 3))
        par = 1
    else:
        sd = ck.seed
        jobs.append((E, "zip,combine_latest,amb n<=2", cc.consts(["zip", "combine_latest", "amb"], {1, 2}, 3, 3), 0, 0, 0))
        jobs.append((E, "with_latest_from,fork_join n<=2", cc.consts(["with_latest_from", "fork_join"], {1, 2}, 3, 3), 0, 0, 0))
        jobs.append((E, "core n=3", cc.consts(cc.CORE_OPS, {3}, 2, 2, terms=("C", "U")), 0, 0, 0))
        jobs.append(("sim", "n=2 len<=4", cc.consts(cc.CORE_OPS, {2}, 4, 6), 2000, 60, sd + 10))
        jobs.append(("sim", "n=3 len<=3", cc.consts(cc.CORE_OPS, {3}, 3, 4), 2000, 60, sd + 11))
        jobs.append((E, "growth", cc.consts(G3, {2}, 3, 3), 0, 0, 0))
        jobs.append(("sim", "n=4 len<=3", cc.consts(cc.CORE_OPS, {4}, 3, 4), 2000, 60, sd + 12))
        jobs.append((E, "sequence_equal(observable)", cc.consts(["sequence_equal"], {2}, 2, 2, nvals=2, faults=True), 0, 0, 0))
        jobs.append((E, "subscription-instant notifications (cold)", cc.consts(cc.CORE_OPS + G3, {1, 2}, 2, 2, mint=0), 0, 0, 0))
        jobs.append((E, "synchronous delivery inside subscribe()", cc.consts(cc.CORE_OPS + G3, {1, 2, 3}, 2, 1, terms=("C", "U"), mint=0, sync=True), 0, 0, 0))
        jobs.append(("sim", "n=4 len<=3 sparse ties", cc.consts(cc.CORE_OPS, {4}, 3, 8), 1000, 60, sd + 13))
        jobs.append((E, "dispose n=2", cc.consts(cc.CORE_OPS + G3, {2}, 2, 2, disposes=True, dispose_in=2), 0, 0, 0))
        jobs.append((E, "dispose n=3", cc.consts(cc.CORE_OPS, {3}, 1, 2, terms=("C", "U"), disposes=True, dispose_in=1), 0, 0, 0))
        jobs.append(("sim", "n=4 dispose", cc.consts(cc.CORE_OPS, {4}, 2, 3, disposes=True, dispose_in=2), 1000, 60, sd + 14))
        par = 3

    def vfn(s):
        vs = cc.variants_for(s, 1 if s["dsp"] < 0 else 0)
        if s["dsp"] >= 0:      # both tie orders of the dispose action
            vs = vs + [dict(v, dfirst=not v["dfirst"]) for v in vs]
        h = sum(map(ord, json.dumps(s, sort_keys=True)))
        if not quick:
            vs = vs + cc.variants_for(s, 0, profile="falsy")[h % 2:][:1] + cc.variants_for(s, 0, sched="hist")[(h + 1) % 2:][:1]
            if h % 8 == 0:
                vs = vs + [dict(v, form="fluent") for v in vs[:1]]
        elif h % 4 == 0:
            vs = vs + cc.variants_for(s, 0, profile="falsy")[:1] + cc.variants_for(s, 0, sched="hist")[1:]
        # elements with a hostile __eq__ (equal to everything / not comparable): none of these operators may
        # compare elements (sequence_equal does, by definition)
        if s["op"] != "sequence_equal" and (not quick or h % 4 in (1, 2)):
            vs = vs + cc.variants_for(s, 0, profile="eqall" if h % 2 else "eqraises")[(h // 2) % 2:][:1]
        return vs

    # Families are processed end to end (TLC -> grouping -> replay) by a few threads: TLC runs in its own
    # process while another family is being replayed in this one; export lines are dropped after replay.
    acc = _Acc()
    with ThreadPoolExecutor(par) as ex:
        for f in [ex.submit(_family, ck, acc, j, vfn) for j in jobs]:
            f.result()
    # quick: every family is enumerated exhaustively.  thorough: exhaustive families plus sampled ones
    # (-simulate draws the scenarios; all tie orders of each drawn scenario are then enumerated)
    ck.exhaustive = quick
    ck.note("families", [j[1] + ("" if j[0] == "exhaustive" else f" [sampled: {j[3]} scenarios drawn by -simulate, seed {j[5]}]") for j in jobs])
    ck.note("scenarios", acc.scenarios)
    ck.note("scenarios_with_several_allowed_observations", acc.several)
    ck.note("scenarios_by_operator_arity", dict(sorted(acc.by.items())))
    missing = {o: sorted(v) for o, v in acc.need.items() if v}
    if missing:
        raise RuntimeError(f"vacuous export: outcome classes never produced by the model: {missing}")
    ck.nontrivial = acc.nontrivial
    for x in acc.samples:
        ck.sample(x)
    ck.note("asserted_projection", {
        "value_profiles": ["plain (str / int, one object per source element)", "falsy (None, 0, '', (), [], {}, 0.0, False)",
                           "eqall (elements equal to everything)", "eqraises (elements whose == raises)"],
        "compared": ["emitted values (tuple components by identity of the source's element objects) and their instants",
                     "terminal kind and instant; exception object identity",
                     "each source subscribed exactly once at the subscription instant",
                     "once the result terminated / was disposed: every source subscription closed no later than that instant",
                     "amb: every loser unsubscribed exactly at the instant of the winner's first notification"],
        "not_compared": ["order in which the sources are subscribed",
                         "unsubscription instants of sources while the result has not terminated (except amb's losers)"],
        "model_nondeterminism": ["order of notifications of different sources (and of dispose) at one instant",
                                 "combine_latest / with_latest_from: completion anywhere from the first instant no further tuple is "
                                 "possible to the instant all sources / the primary completed",
                                 "skip_until: whether/when the result completes after the source completed with the gate shut",
                                 "zip_with_iterable: completion right after the iterable's last element was paired, or at the next source element"]})
    ck.assumptions = ["TestScheduler/HistoricalScheduler run actions in due order, FIFO among equals (checked separately: C28)",
                      "hot sources fire in creation order at one instant, cold ones in subscription order: the replayer drives a "
                      "subset of the tie orders the model allows",
                      "operators here own no timers: only order and coincidence of instants matter, three strictly increasing "
                      "instant->time maps are used"]
    return ck.finish()


replay = cc.generic_replay


META = {
    'technique': 'TLC-enumerated tuples of source timelines (all tie orders) of OpsCombine.tla transducers, reference-checked in the model, replayed on the real static and operator forms on TestScheduler/HistoricalScheduler',
    'level': 'OpsCombine.tla states zip, combine_latest, with_latest_from, fork_join and amb (plus take_until, skip_until, zip_with_iterable, sequence_equal(observable)) twice - queue/flag transducers and the property wording over the cut of consumed notifications - and TLC checks their agreement, the notification grammar and source release after every notification of every tie order of every enumerated scenario: quick = exhaustively all pairs of timelines (<=2 elements, 3 instants, completion/error/never), all triples of <=1-element timelines, and dispose instants / dispose inside on_next; thorough = longer pairs and triples exhaustively plus sampled 2-4-source tuples with all their tie orders. Every scenario with its set of allowed observations is replayed on the real code (static and piped forms, hot/cold sources, both creation orders, falsy values, datetime clock) and must match on tuples, instants, terminal, exception identity, closure of every source subscription by the end of the result and the unsubscription instant of amb losers.',
    'note': 'TLC 2026.09; codec of props/combine_common.py; TestScheduler/HistoricalScheduler order (C28); completion instants the statement leaves open are a nondeterministic window in the model; thread interleavings are C43, not this check',
    'ref': 'DESIGN.md 6 C13, 2.1 RunN, 3.2, 3.6, App. C',
}
