"""Binding A for Expand.tla (growth beyond the listed properties: the operator `expand`).

Codec only.  A timeline is a cold TestScheduler observable (tick t -> U*t after its subscription);
the mapper is a lookup in the scenario's table value -> cold observable (one object per value, so the
subscription log of every mapped timeline is recorded by the test source itself) or raises Boom(v);
element tokens 1..K are decoded by a value profile (plain ints / falsy values); the subscriber disposes
half a tick after scn.dsp.  The run is projected to the exported record: output (tick, kind, value),
the multiset of subscriptions (mapped-from value, opened, closed) and how it ended."""
from __future__ import annotations

import json
from typing import Any, Dict, List, Tuple

from harness import core, tlc

S, U = 100, 10
NEVER = 999
INVS = ["Grammar", "Released", "Counted", "Owned", "Monotone", "RefOK"]
PROFILES = {"plain": {1: 1, 2: 2, 3: 3}, "falsy": {1: 0, 2: None, 3: ""}}

QUICK = [("K=2 len<=2 ticks 0..1 faults", dict(K=2, MaxLen=2, Times={0, 1}, Faults=True, DspTicks=set()))]
THOROUGH = [
    ("K=2 len<=2 ticks 0..1 faults dispose@0", dict(K=2, MaxLen=2, Times={0, 1}, Faults=True, DspTicks={0})),
    ("K=2 len<=2 ticks 0..2 faults dispose@1", dict(K=2, MaxLen=2, Times={0, 1, 2}, Faults=True, DspTicks={1})),
    ("K=3 len<=1 ticks 0..2 faults", dict(K=3, MaxLen=1, Times={0, 1, 2}, Faults=True, DspTicks=set())),
]


class Boom(Exception):
    def __init__(self, v):
        super().__init__(f"mapper raised for token {v}")
        self.v = v


class TlErr(Exception):
    pass


def export(ck: core.Check, runs, timeout=900) -> List[Any]:
    lines: List[Any] = []
    for label, consts in runs:
        cfg = tlc.cfg_text(dict(consts, Emit=True), invariants=INVS + ["Export"])
        res = tlc.run("Expand", cfg, workers=1, timeout=timeout, allow_violation=False)
        ck.add_tlc(res, "Expand.tla " + label)
        lines += res.lines
    return lines


def norm_obs(o: Dict[str, Any]) -> str:
    return json.dumps({"out": [[e["t"], e["k"], e["v"]] for e in o["out"]],
                       "subs": sorted([s["val"], s["open"], s["close"]] for s in o["subs"]),
                       "done": o["done"]}, sort_keys=True)


def perform(scn: Dict[str, Any], profile: str, sabotage: bool = False) -> Dict[str, Any]:
    from reactivex import operators as ops
    from reactivex.testing import ReactiveTest, TestScheduler
    dec = PROFILES[profile]

    def tok(x):
        for k, v in dec.items():
            if type(v) is type(x) and v == x:
                return k
        return -1

    ts = TestScheduler()

    def cold(tl):
        msgs = []
        for e in tl:
            t = U * e["t"]
            if e["k"] == "N":
                msgs.append(ReactiveTest.on_next(t, dec[e["v"]]))
            elif e["k"] == "C":
                msgs.append(ReactiveTest.on_completed(t))
            else:
                msgs.append(ReactiveTest.on_error(t, TlErr()))
        return ts.create_cold_observable(msgs)

    src = cold(scn["src"])
    table = {}
    for i, f in enumerate(scn["fmap"]):
        table[i + 1] = None if f["raise"] else cold(f["tl"])

    silent = ts.create_cold_observable([])

    def mapper(x):
        v = tok(x)
        if sabotage and v == len(table):      # binding self-test: the mapper answers the largest element with a silent source
            return silent
        if table[v] is None:
            raise Boom(v)
        return table[v]

    out: List[List[Any]] = []
    state = {"done": ""}

    def tick():
        return int((ts.clock - S) // U)

    def on_next(x):
        out.append([tick(), "N", tok(x)])

    def on_error(ex):
        out.append([tick(), "E", ex.v if isinstance(ex, Boom) else 0 if isinstance(ex, TlErr) else -1])
        state["done"] = "E"

    def on_completed():
        out.append([tick(), "C", 0])
        state["done"] = "C"

    handle: List[Any] = []
    ts.schedule_absolute(S, lambda *_: handle.append(
        src.pipe(ops.expand(mapper)).subscribe(on_next, on_error, on_completed, scheduler=ts)))
    if scn["dsp"] != NEVER:
        def dispose(*_):
            if state["done"] == "":
                state["done"] = "D"
            handle[0].dispose()
        ts.schedule_absolute(S + U * scn["dsp"] + U // 2, dispose)
    ts.start()
    subs = []
    for v, ob in [(0, src)] + [(v, ob) for v, ob in table.items() if ob is not None]:
        for s in ob.subscriptions:
            closed = NEVER if s.unsubscribe > 10 ** 9 else int((s.unsubscribe - S) // U)
            subs.append([v, int((s.subscribe - S) // U), closed])
    return {"out": out, "subs": sorted(subs), "done": state["done"]}


def real_obs(scn, profile) -> str:
    return json.dumps(perform(scn, profile), sort_keys=True)


def _job(item) -> List[Tuple[str, str, str]]:
    scn, allowed = item
    bad = []
    for prof in PROFILES:
        try:
            got = real_obs(scn, prof)
        except Exception as ex:  # the harness itself failed: reported, never judged
            bad.append(("crash", prof, f"{type(ex).__name__}: {ex}"))
            continue
        if got not in allowed:
            bad.append(("mismatch", prof, got))
    return [(json.dumps(scn, sort_keys=True), k, p, g) for k, p, g in bad]


def run_growth(ck: core.Check, tier: str) -> Dict[str, Any]:
    """Explore Expand.tla, replay every exported scenario on the real operator.  expand is not one of the
    operators the listed properties name, so a mismatch is reported as model drift (never a VIOLATION)."""
    lines = export(ck, QUICK if tier == "quick" else THOROUGH)
    groups = core.group_allowed(lines)
    items = [(g[0], {norm_obs(o) for o in g[1]}) for g in groups]
    res = core.parallel_map(_job, items, procs=8, chunk=200)
    bad = [b for r in res for b in r]
    ck.impl += len(items) * len(PROFILES)
    for scn, kind, prof, got in bad[:5]:
        ck.drift(f"expand ({kind}, {prof}): scenario {scn} gave {got}")
    # binding self-test: with a mapper that answers for the wrong element the comparison must reject
    probes = [(scn, al) for scn, al in items
              if scn["dsp"] == NEVER and any(e["k"] == "N" and e["v"] == len(scn["fmap"]) for e in scn["src"]) and scn["fmap"][-1]["tl"]]
    probes = probes[::max(1, len(probes) // 300)][:300]
    rejected = sum(1 for scn, al in probes if json.dumps(perform(scn, "plain", sabotage=True), sort_keys=True) not in al)
    if probes and rejected == 0:
        raise RuntimeError("expand binding self-test: a sabotaged mapper was accepted on every probe")
    info = {"selftest_probes": len(probes), "selftest_rejected": rejected, "scenarios": len(items), "runs": len(items) * len(PROFILES), "mismatches": len(bad),
            "with_tie_choice": sum(1 for _, a in items if len(a) > 1), "invariants": INVS}
    ck.note("growth_expand", info)
    return info
