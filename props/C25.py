"""C25 - a disposable action runs at most once (Disposables.tla: sequential histories replayed stepwise, all interleavings of the
abstract object checked by TLC, real executions under controlled schedules validated as traces)."""
from props import disp_common as dc

META = {
    "technique": "TLA+ abstract objects with linearization steps (Disposables.tla): TLC-enumerated sequential histories replayed stepwise + DetSched-controlled thread schedules of the real classes validated by TLC trace checking (DisposablesTrace.tla)",
    "level": "TLC checks AtMostOnce/NeverWhileHeld/ExactlyOnce/RefCountInv on every interleaving of Call/Lin/Effect/Ret of the abstract object for 2 threads; every single-thread call history up to the budget is exported with per-call results, dispose counts and is_disposed and performed on the real class; scripts for 2-3 threads are run on the real class for every schedule up to the preemption bound (plus seeded random schedules) and each recorded call/dispose/return trace must be explainable by some placement of linearization points that satisfies all invariants.",
    "note": "TLC 1.8; DetSched switch points = GIL-realisable points in reactivex/disposable/*.py; RLock replaced by a cooperative re-entrant lock",
    "ref": "DESIGN.md 6 C25, D.1-D.3",
}

RULE = 'every call history of <= 4-5 calls (dispose, is_disposed reads) on Disposable and BooleanDisposable; 2-3 threads each running a short script of dispose/read calls under every schedule up to the preemption bound; non-trivial = histories in which the action ran, plus distinct concurrent traces'
ASSUME = ['ScheduledDisposable is exercised on virtual time by the sequential part (its disposal is an action of the scheduler)']


def run(tier):
    return dc.run_property("C25", dc.KINDS_C25, tier, RULE, ASSUME)


replay = dc.replay
