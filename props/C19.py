"""C19 - grouping routes each element to exactly one live group (OpsGroup.tla, Binding A)."""
import collections
import json
import random
import zlib

from harness import core
from props import window_common as wc

ALL = ["group_by", "group_by_until", "partition", "partition_indexed"]


def _bits(scn):
    return zlib.crc32(json.dumps(scn, sort_keys=True).encode())


def variants_quick(scn):
    """quick tier: two of the three runs, rotating over the scenarios"""
    v = variants(scn)
    drop = _bits(scn) % 3
    return [x for n, x in enumerate(v) if n != drop]


def variants(scn):
    """3 runs per scenario: plain values and keys on TestScheduler (hot source); falsy values AND falsy keys
    (None, 0, '', ()) with a cold source; HistoricalScheduler (datetime clock) with falsy keys; the call form
    (pipe / fluent / short argument list) and hot/cold are spread deterministically over the scenarios.
    Predicate result profile (partition*): `pres="bool"` - the predicate returns True / False; `pres="obj"` - it
    returns truthy / falsy values that are not bools (1, '0', [0] ... / 0, None, '', (), [], {}, 0.0): its truth
    value decides the output, like for filter."""
    b = _bits(scn)
    bit = lambda n: bool((b >> n) & 1)
    return [
        dict(clock="test", scale=10, profile="plain", kprofile="plain", salt=b % 2, hot=True, form="pipe", short=bit(0),
             twice=bit(7), pres="obj" if bit(9) else "bool"),
        dict(clock="test", scale=2, profile="falsy", kprofile="falsy", salt=b % 8, hot=False,
             form="fluent" if bit(1) else "pipe", short=bit(2), twice=bit(8), pres="obj"),
        dict(clock="hist", scale=3, profile="falsy" if bit(3) else "plain", kprofile="falsy", salt=(b >> 4) % 8, hot=bit(5),
             form="fluent" if bit(6) else "pipe", short=False, pres="obj" if bit(3) else "bool"),
    ]


def nontrivial(scn, allowed):
    """at least two groups (partition: both outputs) received an element"""
    o = allowed[0]
    return sum(1 for g in o["grps"] if any(e["k"] == "N" for e in g["out"])) >= 2


def runs_for(tier):
    base = dict(NVals=2, NKeys=2, Terms={"C", "E", "U"}, Durs={1, 2}, DKinds={"N"}, KeyMode="some", ElemMode="some",
                Faults=False, Disposes=False, OuterOnly=True, DCounts=set(), RxG={0}, LongLen=4)

    def c(ops, ml, mt, **kw):
        d = dict(base, Ops=set(ops), MaxLen=ml, MaxT=mt, H=mt + 1)
        d.update(kw)
        return d
    if tier == "quick":
        return [("group_by, partition*", c(["group_by", "partition", "partition_indexed"], 2, 3, LongLen=3)),
                # timed durations, and durations derived from the group itself (a group expires right after its n-th
                # element)
                # (durations notify by on_next or complete WITHOUT emitting - both expire the group)
                ("group_by_until", c(["group_by_until"], 2, 3, ElemMode="none", Terms={"C", "U"}, Durs={1}, DCounts={1, 2},
                                     DKinds={"N", "C"})),
                # fault dimension (C09): key / element mapper / predicate raises ...
                ("faults group_by, partition*", c(["group_by", "partition", "partition_indexed"], 2, 2, LongLen=3, Faults=True,
                                                  Terms={"C", "U"})),
                # ... duration selector raises at its k-th call, duration observable errors
                ("faults group_by_until", c(["group_by_until"], 2, 1, H=3, Durs={1}, DKinds={"N", "E"}, ElemMode="none",
                                            Faults=True, Terms={"U"})),
                # dispose dimension (C03): the subscriber disposes the result and every group subscription at any instant,
                # or ONLY the result and keeps its group subscriptions (the source must stay until the last of them ends)
                ("dispose group_by_until, partition", c(["group_by_until", "partition"], 2, 2, LongLen=2, Durs={1},
                                                        ElemMode="none", Terms={"C", "U"}, Disposes=True)),
                # re-entrant feedback: a subscriber of the 1st / 2nd group pushes one more element into the source from
                # inside that group's completion (expiry) callback - the key is seen again right after its group expired
                ("feedback group_by_until", c(["group_by_until"], 2, 2, H=4, Durs={1}, ElemMode="none", Terms={"U"},
                                              RxG={1, 2}))]
    return [("group_by, partition* (every table)", c(["group_by", "partition", "partition_indexed"], 2, 3, LongLen=5,
                                                    KeyMode="all", ElemMode="all")),
            ("group_by 3 values, 3 keys", c(["group_by"], 2, 3, NVals=3, NKeys=3, LongLen=4)),
            ("partition* 3 values", c(["partition", "partition_indexed"], 2, 3, NVals=3, LongLen=4)),
            ("group_by_until", c(["group_by_until"], 3, 3, H=5)),
            ("group_by_until long", c(["group_by_until"], 2, 5, H=7, Durs={0, 1, 3}, DKinds={"N", "C"}, ElemMode="none",
                                      KeyMode="some3")),
            ("group_by_until 3 keys", c(["group_by_until"], 3, 3, NVals=3, NKeys=3, KeyMode="some", ElemMode="none", Durs={1},
                                        Terms={"C", "U"})),
            ("faults group_by, partition*", c(["group_by", "partition", "partition_indexed"], 2, 2, LongLen=4, Faults=True,
                                              KeyMode="all", ElemMode="all")),
            ("faults group_by_until", c(["group_by_until"], 2, 2, H=4, Durs={1}, DKinds={"N", "E"}, Faults=True)),
            ("group_by_until content-dependent durations", c(["group_by_until"], 4, 3, Durs=set(), DCounts={1, 2, 3},
                                                             ElemMode="none")),
            ("dispose", c(ALL, 2, 3, LongLen=3, H=5, Disposes=True)),
            ("feedback group_by_until", c(["group_by_until"], 2, 3, H=6, Durs={1, 2}, ElemMode="none", Terms={"C", "U"},
                                          RxG={1, 2, 3}))]


def sampled_runs(tier):
    if tier == "quick":
        return []
    big = dict(NVals=4, NKeys=3, Terms={"C", "E", "U"}, Durs={1, 2, 3, 5}, DKinds={"N", "C"}, KeyMode="all", ElemMode="all",
               Faults=False, Disposes=True, OuterOnly=True, DCounts={1, 2, 3}, RxG={0, 0, 1, 2, 3}, LongLen=9, MaxLen=5, MaxT=9, H=11)
    out = [("sampled " + o, o, dict(big, Ops={o}), 1500) for o in ALL]
    out.append(("sampled faults group_by_until", "group_by_until", dict(big, Ops={"group_by_until"}, Faults=True,
                                                                       DKinds={"N", "E"}), 1500))
    return out


def run(tier):
    ck = core.Check("C19", tier)
    hist, per = collections.Counter(), collections.Counter()
    stats = {"nt": 0, "faulty": 0, "samples": []}
    vf = variants_quick if tier == "quick" else variants

    def digest(e):
        label, c, groups = e
        wc.replay_all(ck, "group", [e], vf, procs=8)
        for scn, allowed in groups:
            per[scn["op"]] += 1
            hist[min(len(allowed), 9)] += 1
            stats["nt"] += 1 if nontrivial(scn, allowed) else 0
            stats["faulty"] += 1 if wc._group_fault(scn) else 0
        if groups and len(stats["samples"]) < 5:
            g = groups[len(groups) // 2]
            stats["samples"].append({"scn": g[0], "allowed": g[1][:2]})

    for e in wc.export_runs(ck, "OpsGroup", wc.GROUP_INVS, runs_for(tier), par=5 if tier == "quick" else 4,
                            timeout=240 if tier == "quick" else 3000, light=tier == "quick"):
        digest(e)
    ck.exhaustive = True
    rng = random.Random(ck.seed + 19)
    before = ck.impl
    for label, op, c, n in sampled_runs(tier):
        digest(wc.export_sampled(ck, "OpsGroup", wc.GROUP_INVS, label, c, wc.sample_group_scns(rng, op, c, n)))
    if ck.impl > before:
        ck.note("sampled_large_instance_runs", ck.impl - before)
    nt, faulty = stats["nt"], stats["faulty"]
    ck.nontrivial = nt
    ck.rule = ("every source timeline over NVals value tokens (group_by_until: 0..MaxLen elements at instants 1..MaxT; "
               "group_by / partition*: 0..LongLen elements) ending in completion / error / nothing x key tables (few and "
               "many keys) x element mappers (none, rotate, all tables in thorough) x predicate tables x duration "
               "patterns (per created group, incl. never) enumerated by TLC on OpsGroup.tla with every same-instant tie "
               "order (element vs. expiry of its group); each scenario is run 3 times (quick: 2 of the 3, rotating) on the "
               "real operators (plain, falsy values + falsy keys, datetime clock); non-trivial = at least two groups / both outputs got an element")
    ck.note("scenarios", sum(per.values()))
    ck.note("scenarios_per_operator", dict(per))
    ck.note("scenarios_with_a_raising_function_or_failing_duration (C09 dimension)", faulty)
    ck.note("allowed_set_size_histogram(9=9+)", {str(k): v for k, v in sorted(hist.items())})
    ck.note("not_compared", ["partition: subscription instants of the two outputs (both subscribed at the start)",
                             "what open groups see when a user function raises or a duration observable errors: the error "
                             "at that instant OR nothing more (both allowed; the result itself must error)",
                             "whether a group whose creation fails (duration selector / element mapper raises on its first "
                             "element) was handed out before the failure (both allowed)",
                             "subject_mapper argument (not generated)",
                             "re-entrant feedback is generated for timed expiries only (not from inside the source's own "
                             "on_next, i.e. not with content-dependent durations)",
                             "source subscription interval, except in dispose scenarios (closed at the dispose instant)"])
    for x in stats["samples"]:
        ck.sample(x)
    ck.assumptions = [
        "TestScheduler / HistoricalScheduler run actions in due order, FIFO among equal due times (checked separately: C28)",
        "the sink subscribes to every group synchronously at hand-out",
        "user functions are total tables over the value tokens; group keys are compared by token (identity, then "
        "type-strict equality); falsy keys None, 0, '', () are pairwise non-equal and hashable",
        "the duration selector's g-th call returns a cold observable whose first notification comes d ticks later; "
        "it does not depend on the group's content",
        "the run is cut half a tick after the horizon H; sources that never terminate are observed up to H only"]
    return ck.finish()


replay = wc.generic_replay


META = {
    'technique': 'TLC-enumerated timelines x key/element/predicate tables x duration patterns x tie orders of OpsGroup.tla (writers-map transducer checked against routing/re-creation/expiry references in the model) replayed on the real group_by, group_by_until, partition and partition_indexed on TestScheduler and HistoricalScheduler',
    'level': 'OpsGroup.tla states grouping twice (handlers with a live map; reference predicates RouteOK: every element in exactly the group of its key, in order, with the mapped value; NewGroupOK: a group is created exactly when no group of that key is live, so a key seen again after expiry opens a NEW group; ExpiryOK; TermOK: open groups and the result end with the source terminal) and TLC checks them on every reachable state; every scenario is exported with the observations allowed over all tie orders, and the real operators (plain and falsy values, falsy keys None/0/\'\'/(), float and datetime clocks, pipe and fluent forms, raising key/element/duration/predicate functions) must produce one of them on group sequence, keys, opening instants, per-group timed streams and terminals. Exhaustive for the stated bounds; thorough adds sampled scenarios of a larger instance with complete allowed sets.',
    'note': 'TLC 1.8; codec of props/window_common.py; reactivex.testing Hot/ColdObservable and the virtual-time schedulers (C28)',
    'ref': 'DESIGN.md 6 C19, App. C',
}
