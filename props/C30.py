"""C30 - trampoline / current-thread scheduling is same-thread, FIFO, never nested, never early, and cancellable.
Spec: Trampoline.tla (+ TrampolineTrace.tla).  Binding A: TLC-enumerated one-thread programs replayed on
TrampolineScheduler, CurrentThreadScheduler and the singleton with a controlled clock.  Binding C+B: TLC-generated
and directed two/three-thread programs run under DetSched schedules, traces validated by TLC."""
from __future__ import annotations

import json
import multiprocessing as mp
import os
import time
import random
from concurrent.futures import ThreadPoolExecutor

from harness import core, tlc
from props import tramp_common as tc

META = {
    "technique": "TLA+ abstract trampolines with linearization / commit steps (Trampoline.tla): TLC-enumerated one-thread programs replayed on the real schedulers under a controlled clock + DetSched-controlled two/three-thread schedules validated by TLC trace checking (TrampolineTrace.tla)",
    "level": "TLC checks NoNesting, Serial, SameThread, OwnTrampoline, NotEarly, CancelledNeverRuns, Order (due time, then first-enqueued) and AllRun on every interleaving of Call/Lin/Commit/Start/End/Release/Ret of two threads on a shared and a per-thread trampoline with a freely ticking clock; every one-thread program of nested schedule / schedule_relative / schedule_absolute / cancel / sleep calls up to the command budget is exported with its run log (item, clock at start, nesting depth, return points) and must be reproduced exactly by TrampolineScheduler(), CurrentThreadScheduler() and CurrentThreadScheduler.singleton(); concurrent programs are run on the real schedulers for every schedule up to the preemption bound (plus seeded random schedules) and each recorded call/ret/start/end trace must be explainable by some placement of linearization, commit and release points satisfying all invariants.",
    "note": "TLC 1.8; DetSched switch points = GIL-realisable points in reactivex/scheduler/trampoline.py and currentthreadscheduler.py plus every lock/condition operation; threading.Condition/Lock of the trampoline and default_now replaced by cooperative shims on a controlled clock (nothing sleeps); tick = 1 s",
    "ref": "DESIGN.md 6 C30, D.5",
}

SOLO_Q = dict(Threads={1}, SharedS={1}, LocalS=set(), MaxItems=3, MaxCmds=3, MaxBody=2, RelD={1, 2}, AbsT={0, 2}, SleepD={1},
              NegRel=True, ClockMode="jump", MaxClock=0, Record=True, Req=False)
# deeper but narrower: four commands (e.g. an action cancelling a sibling that is already due), fewer kinds
DEEP_Q = dict(SOLO_Q, MaxCmds=4, MaxItems=3, RelD={1}, AbsT=set(), NegRel=False, SleepD=set())
# same-instant family: several TIMED items falling due at exactly the same instant (relative and absolute forms of
# one instant, so the due times are EQUAL, not merely close), scheduled from one action body of up to three commands
# together with the cancellation of any one of them (first / middle / last among the equals) before the drain reaches them
TIE_Q = dict(SOLO_Q, MaxCmds=4, MaxItems=3, MaxBody=3, RelD={1}, AbsT={1}, NegRel=False, SleepD=set())
TIE_T = dict(SOLO_Q, MaxCmds=5, MaxItems=4, MaxBody=4, RelD={1}, AbsT={1}, NegRel=False, SleepD=set())
DEEP_T = dict(SOLO_Q, MaxCmds=5, MaxItems=4, RelD={1}, AbsT=set(), NegRel=False, SleepD=set())
SOLO_T = dict(SOLO_Q, MaxItems=4, MaxCmds=4, NegRel=True, Req=True)
SOLO_SIM = dict(SOLO_Q, Req=True, MaxItems=6, MaxCmds=7, MaxBody=3, RelD={1, 2, 3}, AbsT={0, 1, 3})
MIXED_Q = dict(Threads={1}, SharedS={1}, LocalS={2}, MaxItems=3, MaxCmds=3, MaxBody=2, RelD={1}, AbsT=set(), SleepD={1},
               NegRel=False, ClockMode="jump", MaxClock=0, Record=True, Req=True)
MIXED_T = dict(MIXED_Q, LocalS={2, 3})
MIXED_SIM = dict(MIXED_T, MaxItems=6, MaxCmds=7, MaxBody=3, RelD={1, 2}, AbsT={0, 2}, NegRel=True)
DESIGN_Q = dict(Threads={1, 2}, SharedS={1}, LocalS={2}, MaxItems=2, MaxCmds=2, MaxBody=1, RelD={1}, AbsT=set(), SleepD=set(),
                NegRel=False, ClockMode="tick", MaxClock=0, Record=False, Req=False)
DESIGN_T = dict(DESIGN_Q, MaxItems=3, MaxCmds=3, MaxClock=1, Req=True)
CONC_GEN = dict(Threads={1, 2}, SharedS={1}, LocalS={2, 3}, MaxItems=4, MaxCmds=5, MaxBody=2, RelD={1, 2}, AbsT={0}, SleepD=set(),
                NegRel=False, ClockMode="tick", MaxClock=1, Record=True, Req=True)
CONC_GEN3 = dict(CONC_GEN, Threads={1, 2, 3}, MaxItems=5, MaxCmds=6)
DESIGN_NEED = ("Lin", "Commit", "Start", "End", "Release", "Ret", "Tick", "GenSched", "GenCancel")
SOLO_NEED = ("Lin", "Commit", "Start", "End", "Release", "Ret", "Jump", "Discard", "GenSched", "GenCancel", "GenSleep")


def _vacuous(res, need, label):
    never = [a for a in need if res.coverage.get(a, 0) == 0]
    if never:
        raise tlc.TLCFailure(f"vacuous run ({label}): actions never taken {never}")


def _export(consts, label, simulate=None, seed=0, need=None, timeout=2400):
    cfg = tlc.cfg_text(consts, invariants=tc.MODEL_INVS + ["Export"], properties=[] if simulate else ["Monotone"])
    res = tlc.run("Trampoline", cfg, workers=1, timeout=timeout, allow_violation=False, coverage=need is not None,
                  simulate=simulate, depth=120 if simulate else None, seed=seed if simulate else None, xmx="3g")
    if need:
        _vacuous(res, need, label)
    return res, label


def _design(consts, label, workers, timeout=2400):
    cfg = tlc.cfg_text(consts, invariants=tc.MODEL_INVS, view="DesignView", properties=["Monotone"])
    res = tlc.run("Trampoline", cfg, workers=workers, timeout=timeout, allow_violation=False, coverage=True, xmx="3g")
    _vacuous(res, DESIGN_NEED, label)
    return res, label


IMPL_INVS = ["Serial", "NotEarly", "RunOnce", "Fifo", "NoLoss"]


def _impl(consts, label, workers, liveness, timeout=2400):
    """PlusCal lock-granularity model of Trampoline.run/_run (TrampolineImpl.tla): design assurance only."""
    cfg = tlc.cfg_text(dict(consts, defaultInitValue=0), spec="Spec", invariants=IMPL_INVS, properties=["AllReturn"] if liveness else [])
    res = tlc.run("TrampolineImpl", cfg, workers=workers, timeout=timeout, allow_violation=True, coverage=True, xmx="3g")
    return res, label


def _solo_job(args):
    return tc.judge_solo(args)


def _solo_trace_job(args):
    return tc.trace_solo(args)


def _uniq_programs(lines):
    seen, out = set(), []
    for ln in lines:
        k = json.dumps(ln["scn"], sort_keys=True)
        if k not in seen:
            seen.add(k)
            out.append(ln["scn"])
    return out


def run(tier: str) -> int:
    ck = core.Check("C30", tier)
    quick = tier == "quick"
    ck.rule = ("one-thread programs (trees of nested schedule / schedule_relative(+,0,-) / schedule_absolute(past, now, future) / "
               "cancel / sleep) enumerated lazily by TLC on Trampoline.tla and performed on TrampolineScheduler, "
               "CurrentThreadScheduler() and the singleton (also two and three schedulers mixed on one thread); two/three-thread "
               "programs (TLC-generated + directed) on a shared TrampolineScheduler, a shared CurrentThreadScheduler() and the "
               "thread singletons under every DetSched schedule up to the preemption bound; non-trivial = programs in which an "
               "action ran nested-scheduled, timed or cancelled work, plus distinct concurrent traces with both threads active")
    # this box is shared: keep every JVM small (few GC / JIT threads); short runs are dominated by JIT warm-up
    os.environ["_JAVA_OPTIONS"] = ("-XX:TieredStopAtLevel=1 -XX:ParallelGCThreads=2 -XX:CICompilerCount=1" if quick
                                   else "-XX:ParallelGCThreads=2 -XX:CICompilerCount=2")
    pool = mp.get_context("fork").Pool(8)      # forked before any helper thread exists
    try:
        with ThreadPoolExecutor(7) as tp:
            f_solo = tp.submit(_export, SOLO_Q if quick else SOLO_T, "export one thread, one scheduler", None, 0, SOLO_NEED)
            f_mixed = tp.submit(_export, MIXED_Q if quick else MIXED_T, "export one thread, mixed schedulers", None, 0,
                                ("GenReq", "LinReq", "Commit", "Release", "Jump"))
            f_deep = tp.submit(_export, DEEP_Q if quick else DEEP_T, "export one thread, one scheduler, deeper / fewer kinds")
            f_tie = tp.submit(_export, TIE_Q if quick else TIE_T, "export one thread, one scheduler, equal due times / longer bodies")
            f_design = tp.submit(_design, DESIGN_Q if quick else DESIGN_T, "design: all interleavings, 2 threads, free clock", 3 if quick else 4)
            f_gen = tp.submit(_export, CONC_GEN, "generate 2-thread programs", f"num={20 if quick else 400}", ck.seed + 11)
            impl_c = dict(Threads={1, 2}, NTop=1, Nest=True, Delays={0} if quick else {0, 1}, MaxClock=1)
            f_impl_fixed = tp.submit(_impl, dict(impl_c, Fixed=True), "lock-granularity model, repaired algorithm, 2 threads", 2, True)
            f_impl_asis = None if quick else tp.submit(_impl, dict(impl_c, Fixed=False), "lock-granularity model, algorithm of the pinned tree, 2 threads", 2, False)
            f_impl3 = None if quick else tp.submit(_impl, dict(impl_c, Threads={1, 2, 3}, Nest=False, Fixed=True),
                                                   "lock-granularity model, repaired algorithm, 3 threads", 4, True)
            f_gen3 = None if quick else tp.submit(_export, CONC_GEN3, "generate 3-thread programs", "num=150", ck.seed + 12)
            f_sims = [] if quick else [tp.submit(_export, SOLO_SIM, "simulate deeper one-thread programs", "num=20000", ck.seed + 7),
                                       tp.submit(_export, MIXED_SIM, "simulate deeper mixed-scheduler programs", "num=10000", ck.seed + 8)]

            # ---- Binding C: concurrent programs under controlled schedules (starts as soon as the programs exist)
            res, label = f_gen.result()
            ck.add_tlc(res, label)
            progs2 = [p for p in _uniq_programs(res.lines) if sum(1 for t in p["top"] if t) >= 2]
            rnd = random.Random(ck.seed)
            rnd.shuffle(progs2)
            bound = 2 if quick else 3
            cap, nrand = (8, 2) if quick else (200, 40)
            def capof(p):      # cross-thread races live on the shared trampoline: spend the schedule budget there
                shared = any(c["s"] == 1 for t in p["top"] for c in t) or any(c["s"] == 1 for b in p["body"] for c in b)
                return cap * 2 if shared else max(4, cap // 2)
            jobs = [(p, "own", bound, capof(p), nrand, ck.seed) for p in tc.directed_programs(2)]
            jobs += [(p, "own", bound, capof(p), nrand, ck.seed) for p in progs2[: (6 if quick else 80)]]
            jobs += [(p, "passed", bound, cap, nrand, ck.seed) for p in tc.directed_programs(2)[:: (4 if quick else 1)]]
            if quick:   # the "passed" variant differs from "own" only where the thread singleton (scheduler 3) is used: the instance
                # obtained on the set-up thread and used on the workers - run every directed program that touches it
                d2 = tc.directed_programs(2)
                uses3 = lambda p: any(c["s"] == 3 for t in p["top"] for c in t) or any(c["s"] == 3 for b in p["body"] for c in b)
                jobs += [(p, "passed", bound, cap, nrand, ck.seed) for i, p in enumerate(d2) if uses3(p) and i % 4 != 0]
            jobs += [(p, "own", 2, cap, nrand, ck.seed) for p in tc.directed_programs(3)[-2:-1]]     # three threads, one shared trampoline
            if not quick:
                res3, label3 = f_gen3.result()
                ck.add_tlc(res3, label3)
                progs3 = [p for p in _uniq_programs(res3.lines) if sum(1 for t in p["top"] if t) >= 3]
                jobs += [(p, "own", 2, 150, 20, ck.seed) for p in tc.directed_programs(3)[-1:] + progs3[:20]]
            a_conc = pool.map_async(tc.explore_program, jobs, chunksize=1)

            # ---- Binding A: one-thread programs
            solo_lines = []
            for f in [f_solo, f_deep, f_tie, f_mixed] + f_sims:
                res, label = f.result()
                ck.add_tlc(res, label)
                kinds = ("mixed",) if "mixed" in label or "three schedulers" in label else tc.SOLO_KINDS
                solo_lines += [(ln, kinds) for ln in res.lines]
            strict = [(ln["scn"], ln["obs"], kinds) for ln, kinds in solo_lines if not ln["obs"]["amb"]]
            loose = [(ln["scn"], kinds) for ln, kinds in solo_lines if ln["obs"]["amb"]]
            ck.note("one_thread_programs_exact", len(strict))
            ck.note("one_thread_programs_with_model_choice_judged_as_traces", len(loose))
            a_strict = pool.map_async(_solo_job, strict, chunksize=100)
            a_loose = pool.map_async(_solo_trace_job, loose, chunksize=50)
            # a sample of the exact programs is ALSO judged as traces (ties the two bindings together)
            rnd.shuffle(strict)
            a_cross = pool.map_async(_solo_trace_job, [(s, k) for s, _, k in strict[: (60 if quick else 1500)]], chunksize=50)

            for fails in a_strict.get(timeout=1200 if quick else 10800):
                for f in fails:
                    ck.fail(f)
            ck.impl += sum(len(k) for _, _, k in strict)
            nontriv = sum(1 for s, o, _ in strict if any(b for b in s["body"]) or any(r["clk"] > 0 for r in o["ran"])
                          or any(c["c"] == "cancel" for c in s["top"][0]))
            solo_traces = []
            for lst, src in ((a_loose.get(), "one-thread program with model choice"), (a_cross.get(), "one-thread program")):
                for (scn, kinds), out in zip(loose if src.endswith("choice") else [(s, k) for s, _, k in strict], lst):
                    for kind, tr in out:
                        solo_traces.append((tr, {"sched": kind, "scn": scn, "source_kind": src}))
            ck.impl += sum(len(k) for _, k in loose)

            # ---- Binding B: traces
            conc_items = []
            n_exec = 0
            both = 0
            for job, r in zip(jobs, a_conc.get(timeout=1200 if quick else 10800)):   # a real (non-cooperative) block is a machinery failure
                n_exec += r["stats"]["executions"]
                for k in ("deadlocks", "steplimit", "thread_exc"):
                    ck.count("conc_" + k, r["stats"][k])
                ck.count("conc_executions_in_which_the_clock_moved", r["stats"]["clock_waits"])
                if r["truncated"]:
                    ck.count("programs_truncated_at_max_schedules")
                for (tr, mult, dec) in r["traces"]:
                    conc_items.append((tr, {"prog": r["prog"], "variant": r["variant"], "schedules_with_this_trace": mult, "decisions": dec}))
                    if len({e["th"] for e in tr if e["e"] == "start"}) >= 2:
                        both += 1
            ck.impl += n_exec
            ck.note("conc_programs", len(jobs))
            ck.note("conc_executions", n_exec)
            ck.note("conc_distinct_traces", len(conc_items))
            ck.note("preemption_bound", bound)
            seen = set()
            uniq_solo = []
            for tr, ctx in solo_traces:
                k = json.dumps(tr, sort_keys=True)
                if k not in seen:
                    seen.add(k)
                    uniq_solo.append((tr, ctx))
            ck.note("wall_s_until_traces_recorded", round(time.time() - ck.t0, 1))
            if quick:      # one JVM for everything: start-up dominates on a loaded box
                tc.validate_traces(ck, conc_items + uniq_solo, "concurrent + one-thread", 1000)
            else:
                f_v1 = tp.submit(tc.validate_traces, ck, conc_items, "concurrent", 400)
                f_v2 = tp.submit(tc.validate_traces, ck, uniq_solo, "one-thread", 800)
                f_v1.result()
                f_v2.result()
            ck.note("one_thread_traces_validated", len(uniq_solo))
            if not quick:
                # binding self-test: corrupted copies of accepted traces must be rejected (else the trace spec is vacuous)
                bad = tc.corrupt([t for t, _ in (conc_items + uniq_solo)[:: max(1, len(conc_items + uniq_solo) // 150)]], ck.seed)

                class _Sink:
                    def __init__(self):
                        self.n = 0

                    def add_tlc(self, r, label):
                        ck.add_tlc(r, label)

                    def fail(self, rec):
                        self.n += 1
                        self.hit.add(rec.get("corrupted_idx"))
                sink = _Sink()
                sink.hit = set()
                tc.validate_traces(sink, [(t, {"corrupted_idx": j, "corruption": k}) for j, (t, k) in enumerate(bad)],
                                   "self-test: corrupted traces", 800)
                accepted = [j for j in range(len(bad)) if j not in sink.hit]
                by_kind = {k: [sum(1 for j, (_, kk) in enumerate(bad) if kk == k and j in sink.hit), sum(1 for _, kk in bad if kk == k)]
                           for k in sorted({k for _, k in bad})}
                ck.note("selftest_corrupted_traces", {"made": len(bad), "rejected": len(sink.hit), "rejected_of_made_by_kind": by_kind,
                                                      "accepted_examples": [{"kind": bad[j][1], "trace": bad[j][0]} for j in accepted[:3]]})
                # the self-test guards against a vacuous trace spec.  A corrupted copy can coincide with a legal behaviour
                # (e.g. the dropped run of an item that another action of the same instant may cancel), so single
                # acceptances are recorded in the evidence, not fatal; a kind of corruption that is never rejected, or more
                # than 2% accepted, is a machinery failure
                if any(r == 0 for r, _ in by_kind.values()) or len(accepted) > max(1, len(bad) // 50):
                    raise tlc.TLCFailure(f"trace spec accepted {len(accepted)} of {len(bad)} corrupted traces: {by_kind}")
            res, label = f_design.result()
            ck.add_tlc(res, label)
            ck.note("design_coverage", {k: v for k, v in res.coverage.items() if k in DESIGN_NEED})
            # ---- lock-granularity design model (PlusCal): which variant of the algorithm is safe
            for f in [f_impl_fixed] + ([f_impl3] if f_impl3 else []):
                res, label = f.result()
                ck.add_tlc(res, label)
                if not res.ok:
                    raise tlc.TLCFailure(f"{label}: violates {res.violated}")
                dead = [a for a in ("r_enq", "r_branch", "r_drain", "d_collect", "d_invoke", "d_end", "d_check") if res.coverage.get(a, 0) == 0]
                if dead:
                    raise tlc.TLCFailure(f"{label}: labels never reached {dead}")
            lost = ck.known_hits.get("C30-shared-trampoline-lost-action", 0) + sum(
                1 for v in ck.violations if v.get("failure") in ("returned_with_work_pending", "lost_action"))
            ck.note("lock_granularity_variant_matching_the_observed_executions",
                    "pinned algorithm (Fixed=FALSE): an execution of the real code lost an action" if lost else
                    "repaired algorithm (Fixed=TRUE): no execution of the real code lost an action")
            if f_impl_asis is not None:
                res, label = f_impl_asis.result()
                ck.add_tlc(res, label)
                ck.note("lock_granularity_model_of_pinned_algorithm", "violates " + str(res.violated) if not res.ok else "holds")
            if f_impl_asis is not None and lost and res.ok:
                ck.drift("the real code lost an action but TrampolineImpl(Fixed=FALSE) does not: the design model no longer describes the code")
    finally:
        pool.terminate()
        pool.join()
    ck.nontrivial = nontriv + both
    ck.exhaustive = True
    if conc_items:
        ck.sample({"concurrent_trace": conc_items[len(conc_items) // 2][0]})
    for s, o, k in strict[:3]:
        ck.sample({"scn": s, "obs": o, "kinds": k})
    ck.assumptions = [
        "the statement does not say how an absolute due time already in the past at the scheduling instant is ordered relative to items due "
        "between it and that instant: either order is accepted (raw / effective due time); it does not say whether the runner still waits "
        "for a cancelled timed item: either is accepted; programs in which the model had such a choice are judged as traces, not by exact replay",
        "a cancellation counts as 'before the action started' when the cancel call linearized before the runner's commit point (DESIGN 3.3)",
        "for a TrampolineScheduler instance shared by threads SameThread is not asserted (documented: the thread that found it idle drains it); "
        "serial execution, order, NotEarly, cancellation and 'nothing scheduled is lost' are",
        "actions that raise are outside the statement and are not generated",
        "controlled schedules preempt only where the pinned GIL interpreter can; DFS is capped per program (see programs_truncated_at_max_schedules), then seeded random schedules",
    ]
    return ck.finish()


def replay(rec) -> int:
    if rec.get("engine") == "tramp-solo":
        fs = tc.judge_solo((rec["scn"], rec["expected"], (rec["sched"],)))
        print(json.dumps(fs[0], default=str)[:3000] if fs else "replay: observation is the one the spec exports")
        return 1 if fs else 0
    print("trace:", json.dumps(rec["trace"]), "\nrejected at event", rec["rejected_at"], rec.get("next_event"))

    class _Ck:
        def __init__(self):
            self.f = []

        def add_tlc(self, *a):
            pass

        def fail(self, r):
            self.f.append(r)
    c = _Ck()
    tc.validate_traces(c, [(rec["trace"], {})], "replay")
    print("recorded trace, trace spec verdict:", "rejected" if c.f else "accepted")
    if "prog" in rec and "decisions" in rec:
        # the same program under the same scheduling decisions on the tree under test (VERIF_REPO)
        tr = tc.rerun_schedule(rec["prog"], rec.get("variant", "own"), rec["decisions"])
        c2 = _Ck()
        tc.validate_traces(c2, [(tr, {})], "replay")
        print("re-executed under the recorded schedule:", json.dumps(tr))
        print("re-executed trace, trace spec verdict:", "rejected" if c2.f else "accepted")
        return 1 if c2.f else 0
    if "scn" in rec and "sched" in rec:
        tr = tc.perform_solo(rec["scn"], rec["sched"], trace=True)["trace"]
        c2 = _Ck()
        tc.validate_traces(c2, [(tr, {})], "replay")
        print("re-executed trace, trace spec verdict:", "rejected" if c2.f else "accepted")
        return 1 if c2.f else 0
    return 1 if c.f else 0
