"""A catalogue of (nearly) every operator of reactivex.operators with generic arguments, used to build
arbitrary pipelines over logged virtual-time sources.  It contains NO expected behaviour: executions are
judged by trace specifications (Lifecycle.tla: grammar, release, silence, fault containment) or compared
with each other (call forms, operator reuse, resubscription).

An entry is  name -> (input kind, builder(ctx) -> (args, kwargs), flags)
  input kinds: "num" numbers, "any" anything, "tuple", "dict", "obj", "notif", "obs" (observables)
  flags: "obs_out" emits observables (windows/groups), "recover" resubscribes after an error,
         "multi" returns a list of observables (partition), "conn" returns a connectable observable,
         "time" uses the scheduler clock."""
from __future__ import annotations

import random
from typing import Any, Callable, Dict, List, Optional, Tuple


class Fault(Exception):
    """raised by a catalogue callback when a fault is injected"""


class ObsRaise(Exception):
    """raised by an observing callback (a finally action, a do_action terminal callback): whoever it reaches, the pipeline's
    resources are released all the same"""


class FaultStop(Fault, StopIteration):
    """an injected fault that also is a StopIteration: a user function's exception must never be mistaken for the end of an
    iterator the operator happens to be advancing"""


class Ctx:
    """Per-run context: scheduler, random choices, event log, sources."""

    def __init__(self, seed: int, fault_at: Optional[int] = None, hot: bool = False, fault_kind: Optional[str] = None):
        self.fault_cls = FaultStop if fault_kind == "stop" else Fault
        self.fault_raised = False
        self.obs_raise_at: Optional[int] = None    # the k-th invocation of an observing callback (do_action terminal callbacks, finally action) raises
        self.nobs = 0
        from reactivex.testing import TestScheduler
        self.rnd = random.Random(seed)
        self.rnd2 = random.Random(seed * 31 + 7)
        self.s = TestScheduler()
        self.hot = hot
        self.events: List[Tuple[float, int, Dict[str, Any]]] = []   # (virtual time, seq, event)
        self.seq = 0
        self.sources: List[Any] = []          # every logged test observable (main, other, inner, trigger ...)
        self.fault_at = fault_at              # the k-th user-callback invocation raises
        self.ncb = 0
        self.sub_at = 200

    # ---- event log ---------------------------------------------------------------------------------------
    def ev(self, **e):
        self.events.append((self.s.clock, self.seq, e))
        self.seq += 1

    # ---- user callbacks -----------------------------------------------------------------------------------
    def cb(self, f: Callable, obs: bool = False) -> Callable:
        """obs: an observer of the notifications themselves (do_action's terminal callbacks, a finally action): it is not a
        fault-injection point and legitimately runs while an error travels downstream"""
        def w(*a):
            if not obs:
                self.ncb += 1
                if self.fault_at is not None and self.ncb == self.fault_at:
                    self.fault_raised = True
                    self.ev(e="cb", r=True, o=False)
                    raise self.fault_cls(f"injected at callback #{self.ncb}")
            self.ev(e="cb", r=False, o=obs)
            if obs:
                self.nobs += 1
                if self.obs_raise_at is not None and self.nobs == self.obs_raise_at:
                    raise ObsRaise(f"observing callback #{self.nobs} raises")
            return f(*a)
        return w

    # ---- sources -----------------------------------------------------------------------------------------
    def timeline(self, kind: str = "num", maxlen: int = 3, span: int = 60, term: Optional[str] = None) -> List[Any]:
        from reactivex.testing import ReactiveTest as R
        n = self.rnd.randint(0, maxlen)
        times = sorted(self.rnd.choice(range(5, span, 5)) for _ in range(n))
        msgs = [R.on_next(t, self.value(kind, j)) for j, t in enumerate(times)]
        term = term or self.rnd.choice(["C", "C", "C", "E", "U"])
        last = (times[-1] if times else 0) + self.rnd.choice([0, 5, 10])
        last = max(last, 5)
        if term == "C":
            msgs.append(R.on_completed(last))
        elif term == "E":
            msgs.append(R.on_error(last, Exception("src")))
        return msgs

    def value(self, kind: str, j: int) -> Any:
        from reactivex.notification import OnCompleted, OnNext
        v = self.rnd.choice([1, 2, 3])
        if kind in ("num", "any"):
            return v
        if kind == "tuple":
            return (v, j)
        if kind == "dict":
            return {"k": v, "j": j}
        if kind == "obj":
            return type("O", (), {"k": v})()
        if kind == "notif":
            return OnNext(v) if self.rnd.random() < 0.8 else OnCompleted()
        if kind == "obs":
            return self.inner()
        raise ValueError(kind)

    def source(self, kind: str = "num", role: str = "main", hot: Optional[bool] = None, **kw):
        hot = self.hot if hot is None else hot
        msgs = self.timeline(kind, **kw)
        if hot:
            msgs = [type(m)(m.time + 200, m.value) for m in msgs]
            xs = self.s.create_hot_observable(msgs)
        else:
            xs = self.s.create_cold_observable(msgs)
        xs._role = role
        xs._kind = kind
        self.sources.append(xs)
        return xs

    def inner(self):
        """a short cold inner observable (logged)"""
        return self.source("num", role="inner", hot=False, maxlen=2, span=30)

    def trigger(self):
        return self.source("num", role="trigger", hot=False, maxlen=2, span=50, term=self.rnd.choice(["C", "U", "U"]))

    def trigger_long(self):
        """a duration of another kind than trigger(): long, one late element, never completing on its own - drawn from a
        separate random stream, so that which callback asked for it matters (two duration mappers swapped show)"""
        keep = self.rnd
        self.rnd = self.rnd2
        try:
            return self.source("num", role="trigger", hot=False, maxlen=1, span=150, term="U")
        finally:
            self.rnd = keep

    def coin(self) -> bool:
        return self.rnd.random() < 0.5

    def memo(self, f: Callable) -> Callable:
        """deterministic version of a callback that builds observables: same arguments, same (cold) observable"""
        cache: Dict[str, Any] = {}

        def g(*a):
            k = repr([x if isinstance(x, (int, str, tuple, bool, type(None))) else type(x).__name__ for x in a])
            if k not in cache:
                cache[k] = f(*a)
            return cache[k]
        return g


def _i(x):
    try:
        return hash(repr(x)) % 2
    except Exception:
        return 0


CATALOGUE: Dict[str, Tuple[str, Callable[[Ctx], Tuple[tuple, dict]], Tuple[str, ...]]] = {}


REAL_NAME: Dict[str, str] = {}


def _reg(name, kind, builder, *flags, real: Optional[str] = None):
    CATALOGUE[name] = (kind, builder, tuple(flags))
    if real:
        REAL_NAME[name] = real


def _install():
    A = lambda *a, **k: (a, k)
    pred = lambda c: c.cb(lambda v: _i(v) == 0)
    predi = lambda c: c.cb(lambda v, i: (i + _i(v)) % 2 == 0)
    # ---- element-wise
    _reg("map", "any", lambda c: A(c.cb(lambda v: (v, "m"))))
    _reg("map_indexed", "any", lambda c: A(c.cb(lambda v, i: (v, i))))
    _reg("starmap", "tuple", lambda c: A(c.cb(lambda a, b: a + b)))
    _reg("starmap_indexed", "tuple", lambda c: A(c.cb(lambda a, b, i: a + b + i)))
    _reg("pluck", "dict", lambda c: A("k"))
    _reg("pluck_attr", "obj", lambda c: A("k"))
    _reg("filter", "any", lambda c: A(pred(c)))
    _reg("filter_indexed", "any", lambda c: A(predi(c)))
    _reg("take", "any", lambda c: A(c.rnd.randint(0, 3)))
    _reg("skip", "any", lambda c: A(c.rnd.randint(0, 3)))
    _reg("take_while", "any", lambda c: A(pred(c), c.coin()))
    _reg("take_while_indexed", "any", lambda c: A(predi(c), c.coin()))
    _reg("skip_while", "any", lambda c: A(pred(c)))
    _reg("skip_while_indexed", "any", lambda c: A(predi(c)))
    _reg("distinct", "any", lambda c: A(c.cb(lambda v: _i(v))))
    _reg("distinct_until_changed", "any", lambda c: A(c.cb(lambda v: _i(v))))
    _reg("pairwise", "any", lambda c: A())
    _reg("start_with", "any", lambda c: A(7, 8))
    _reg("default_if_empty", "any", lambda c: A(9))
    _reg("ignore_elements", "any", lambda c: A())
    _reg("take_last", "any", lambda c: A(c.rnd.randint(0, 2)))
    _reg("skip_last", "any", lambda c: A(c.rnd.randint(0, 2)))
    _reg("take_last_buffer", "any", lambda c: A(c.rnd.randint(0, 2)))
    _reg("element_at", "any", lambda c: A(c.rnd.randint(0, 2)))
    _reg("element_at_or_default", "any", lambda c: A(c.rnd.randint(0, 2), 9))
    _reg("find", "any", lambda c: A(c.cb(lambda v, i, s: _i(v) == 0)))
    _reg("find_index", "any", lambda c: A(c.cb(lambda v, i, s: _i(v) == 0)))
    _reg("materialize", "any", lambda c: A(), "recover")      # turns an upstream error into an element: the pipeline goes on
    _reg("dematerialize", "notif", lambda c: A())
    _reg("as_observable", "any", lambda c: A())
    _reg("slice", "any", lambda c: A(c.rnd.choice([None, 0, 1, -1]), c.rnd.choice([None, 1, 2, -1]), c.rnd.choice([None, 1, 2])))
    # ---- aggregates
    _reg("reduce", "any", lambda c: A(c.cb(lambda a, b: b)))
    _reg("scan", "any", lambda c: A(c.cb(lambda a, b: b), 0))
    _reg("count", "any", lambda c: A(pred(c)) if c.coin() else A())
    _reg("sum", "num", lambda c: A(c.cb(lambda v: v * 2)) if c.coin() else A())
    _reg("average", "num", lambda c: A(c.cb(lambda v: v * 2)) if c.coin() else A())
    _reg("min", "num", lambda c: A())
    _reg("max", "num", lambda c: A(c.cb(lambda a, b: a - b)) if c.coin() else A())
    _reg("min_by", "any", lambda c: A(c.cb(lambda v: _i(v))))
    _reg("max_by", "any", lambda c: A(c.cb(lambda v: _i(v))))
    _reg("to_list", "any", lambda c: A())
    _reg("to_iterable", "any", lambda c: A())
    _reg("to_set", "num", lambda c: A())
    _reg("to_dict", "any", lambda c: A(c.cb(lambda v: _i(v))))
    _reg("first", "any", lambda c: A(pred(c)) if c.coin() else A())
    _reg("first_or_default", "any", lambda c: A(pred(c) if c.coin() else None, 9))
    _reg("last", "any", lambda c: A(pred(c)) if c.coin() else A())
    _reg("last_or_default", "any", lambda c: A(9, pred(c) if c.coin() else None))
    _reg("single", "any", lambda c: A(pred(c)) if c.coin() else A())
    _reg("single_or_default", "any", lambda c: A(pred(c) if c.coin() else None, 9))
    _reg("all", "any", lambda c: A(pred(c)))
    _reg("some", "any", lambda c: A(pred(c)) if c.coin() else A())
    _reg("contains", "num", lambda c: A(2))
    _reg("is_empty", "any", lambda c: A())
    _reg("sequence_equal", "num", lambda c: A(c.source("num", "other")) if c.coin() else A([1, 2]))
    # ---- sequential
    _reg("concat", "any", lambda c: A(c.source("num", "other")))
    _reg("catch", "any", lambda c: A(c.source("num", "other")) if c.coin() else A(c.cb(c.memo(lambda e, src: c.inner()))), "recover")
    _reg("on_error_resume_next", "any", lambda c: A(c.source("num", "other")), "recover")
    # the continuation given as a factory (called with the error, or None): the factory is a user function - when it raises,
    # the pipeline fails with that exception (nothing is left to resume with); it does resume after a failure of an operator
    # UPSTREAM of it ("recover_upstream": the pipeline is strict only when this entry comes first)
    _reg("on_error_resume_next_factory", "any", lambda c: (lambda src: A(c.cb(lambda e=None: src)))(c.source("num", "other")),
         "recover_upstream", real="on_error_resume_next")
    _reg("repeat", "any", lambda c: A(c.rnd.randint(0, 2)), "recover")
    _reg("retry", "any", lambda c: A(c.rnd.randint(1, 2)), "recover")
    _reg("retry_zero", "any", lambda c: A(0), "recover", real="retry")      # a count of exactly 0 is not "no count"
    _reg("repeat_zero", "any", lambda c: A(0), "recover", real="repeat")
    _reg("while_do", "any", lambda c: A(c.cb(lambda _: c.rnd.random() < 0.4)), "recover")
    _reg("do_while", "any", lambda c: A(c.cb(lambda _: c.rnd.random() < 0.4)), "recover")
    # ---- merging / switching (higher order)
    _reg("merge", "any", lambda c: A(c.source("num", "other")))
    _reg("merge_all", "obs", lambda c: A())
    _reg("flat_map", "any", lambda c: A(c.cb(c.memo(lambda v: c.inner()))))
    _reg("flat_map_indexed", "any", lambda c: A(c.cb(c.memo(lambda v, i: c.inner()))))
    _reg("concat_map", "any", lambda c: A(c.cb(c.memo(lambda v: c.inner()))))
    _reg("flat_map_latest", "any", lambda c: A(c.cb(c.memo(lambda v: c.inner()))))
    _reg("switch_map", "any", lambda c: A(c.cb(c.memo(lambda v: c.inner()))))
    _reg("switch_map_indexed", "any", lambda c: A(c.cb(c.memo(lambda v, i: c.inner()))))
    _reg("switch_latest", "obs", lambda c: A())
    _reg("exclusive", "obs", lambda c: A())
    _reg("expand", "num", lambda c: A(c.cb(c.memo(lambda v: c.inner() if v < 2 else __import__("reactivex").empty()))))
    # ---- combinators
    _reg("zip", "any", lambda c: A(c.source("num", "other")))
    _reg("zip_with_iterable", "any", lambda c: A([10, 20]))
    _reg("zip_with_list", "any", lambda c: A([10, 20, 30]))
    _reg("single_or_default_async", "any", lambda c: A(c.coin(), 9))
    _reg("to_marbles", "any", lambda c: A(10))
    _reg("tap", "any", lambda c: A(c.cb(lambda v: None), c.cb(lambda e: None, obs=True), c.cb(lambda: None, obs=True)))
    _reg("combine_latest", "any", lambda c: A(c.source("num", "other")))
    _reg("with_latest_from", "any", lambda c: A(c.source("num", "other")))
    _reg("fork_join", "any", lambda c: A(c.source("num", "other")))
    _reg("amb", "any", lambda c: A(c.source("num", "other")))
    _reg("take_until", "any", lambda c: A(c.trigger()))
    _reg("skip_until", "any", lambda c: A(c.trigger()))
    # ---- time
    _reg("delay", "any", lambda c: A(c.rnd.choice([0, 5, 12])), "time")
    _reg("delay_subscription", "any", lambda c: A(c.rnd.choice([0, 5, 12])), "time")
    _reg("delay_with_mapper", "any", lambda c: A(None, c.cb(c.memo(lambda v: c.trigger()))), "time")
    _reg("delay_with_mapper_subdelay", "any", lambda c: A(c.trigger(), c.cb(c.memo(lambda v: c.trigger()))), "time", real="delay_with_mapper")
    _reg("timestamp", "any", lambda c: A(), "time")
    _reg("time_interval", "any", lambda c: A(), "time")
    _reg("debounce", "any", lambda c: A(c.rnd.choice([5, 12])), "time")
    _reg("throttle_with_timeout", "any", lambda c: A(c.rnd.choice([5, 12])), "time")
    _reg("throttle_first", "any", lambda c: A(c.rnd.choice([5, 12])), "time")
    _reg("throttle_with_mapper", "any", lambda c: A(c.cb(c.memo(lambda v: c.trigger()))), "time")
    _reg("sample", "any", lambda c: A(c.rnd.choice([10, 15])) if c.coin() else A(c.trigger()), "time")
    _reg("take_with_time", "any", lambda c: A(c.rnd.choice([5, 20])), "time")
    _reg("skip_with_time", "any", lambda c: A(c.rnd.choice([5, 20])), "time")
    _reg("take_until_with_time", "any", lambda c: A(c.rnd.choice([5, 20])), "time")
    _reg("skip_until_with_time", "any", lambda c: A(c.rnd.choice([5, 20])), "time")
    _reg("take_last_with_time", "any", lambda c: A(c.rnd.choice([5, 20])), "time")
    _reg("skip_last_with_time", "any", lambda c: A(c.rnd.choice([5, 20])), "time")
    _reg("timeout", "any", lambda c: A(c.rnd.choice([7, 20]), c.source("num", "other") if c.coin() else None), "time")
    _reg("timeout_with_mapper", "any", lambda c: A(c.trigger(), c.cb(c.memo(lambda v: c.trigger()))), "time")
    _reg("timeout_with_mapper_other", "any", lambda c: A(c.trigger(), c.cb(c.memo(lambda v: c.trigger())), c.source("num", "other")), "time",
         real="timeout_with_mapper")      # with a fallback sequence (a logged source: it must be released like any other)
    # ---- windows / buffers / groups
    _reg("window_with_count", "any", lambda c: A(c.rnd.randint(1, 3), c.rnd.randint(1, 3)), "obs_out")
    _reg("buffer_with_count", "any", lambda c: A(c.rnd.randint(1, 3), c.rnd.randint(1, 3)))
    _reg("window_with_time", "any", lambda c: A(c.rnd.choice([10, 20]), c.rnd.choice([None, 10, 15])), "obs_out", "time")
    _reg("buffer_with_time", "any", lambda c: A(c.rnd.choice([10, 20]), c.rnd.choice([None, 10, 15])), "time")
    _reg("window_with_time_or_count", "any", lambda c: A(c.rnd.choice([10, 20]), c.rnd.randint(1, 3)), "obs_out", "time")
    _reg("buffer_with_time_or_count", "any", lambda c: A(c.rnd.choice([10, 20]), c.rnd.randint(1, 3)), "time")
    _reg("window", "any", lambda c: A(c.trigger()), "obs_out")
    _reg("buffer", "any", lambda c: A(c.trigger()))
    _reg("window_when", "any", lambda c: A(c.cb(lambda: c.trigger())), "obs_out")
    _reg("buffer_when", "any", lambda c: A(c.cb(lambda: c.trigger())))
    _reg("window_toggle", "any", lambda c: A(c.trigger(), c.cb(c.memo(lambda v: c.trigger()))), "obs_out")
    _reg("buffer_toggle", "any", lambda c: A(c.trigger(), c.cb(c.memo(lambda v: c.trigger()))))
    _reg("group_by", "any", lambda c: A(c.cb(lambda v: _i(v)), c.cb(lambda v: (v,)) if c.coin() else None), "obs_out")
    _reg("group_by_subject_mapper", "any", lambda c: A(c.cb(lambda v: _i(v)), None, c.cb(lambda: __import__("reactivex").subject.Subject())),
         "obs_out", real="group_by")      # the group factory is a user function too
    _reg("group_by_until", "any", lambda c: A(c.cb(lambda v: _i(v)), None, c.cb(c.memo(lambda g: c.trigger()))), "obs_out")
    # the duration of a group derived from the group itself - what the duration_mapper(group) signature exists for
    def _gbu_self(c):
        n = c.rnd.randint(0, 2)      # chosen once per pipeline: the duration selector itself is deterministic
        return A(c.cb(lambda v: _i(v)), None, c.cb(lambda g: g.pipe(__import__("reactivex").operators.skip(n))))
    _reg("group_by_until_self", "any", _gbu_self, "obs_out", real="group_by_until")
    _reg("partition", "any", lambda c: A(pred(c)), "multi")
    _reg("partition_indexed", "any", lambda c: A(predi(c)), "multi")
    _reg("join", "any", lambda c: A(c.source("num", "other"), c.cb(c.memo(lambda v: c.trigger())), c.cb(c.memo(lambda v: c.trigger_long()))))
    _reg("group_join", "any", lambda c: A(c.source("num", "other"), c.cb(c.memo(lambda v: c.trigger())), c.cb(c.memo(lambda v: c.trigger_long()))), "obs_out")
    # ---- side effects / resources
    _reg("do", "any", lambda c: A(__import__("reactivex").Observer(c.cb(lambda v: None), c.cb(lambda e: None, obs=True), c.cb(lambda: None, obs=True))))
    _reg("do_action", "any", lambda c: A(c.cb(lambda v: None), c.cb(lambda e: None, obs=True), c.cb(lambda: None, obs=True)))
    _reg("finally_action", "any", lambda c: A(c.cb(lambda: None, obs=True)))
    # ---- multicasting (connectable results are connected through ref_count in pipelines)
    _reg("share", "any", lambda c: A())
    _reg("publish", "any", lambda c: A(c.cb(lambda shared: shared)))
    _reg("replay", "any", lambda c: A(c.rnd.choice([None, 1, 2]), None, mapper=c.cb(lambda shared: shared)))
    _reg("publish_value", "any", lambda c: A(0, c.cb(lambda shared: shared)))
    # ---- the same operators with None where a value / seed / default is expected (None is an ordinary value: C08, C39)
    _reg("reduce_seed_none", "any", lambda c: A(c.cb(lambda a, b: (a, b)), None), real="reduce")
    _reg("scan_seed_none", "any", lambda c: A(c.cb(lambda a, b: (a, b)), None), real="scan")
    _reg("default_if_empty_none", "any", lambda c: A(None), real="default_if_empty")
    _reg("first_or_default_none", "any", lambda c: A(pred(c), None), real="first_or_default")
    _reg("last_or_default_none", "any", lambda c: A(None, pred(c)), real="last_or_default")
    _reg("single_or_default_none", "any", lambda c: A(pred(c), None), real="single_or_default")
    _reg("element_at_or_default_none", "any", lambda c: A(c.rnd.randint(0, 3), None), real="element_at_or_default")
    _reg("start_with_none", "any", lambda c: A(None, 0, ""), real="start_with")
    _reg("contains_none", "any", lambda c: A(None), real="contains")
    # ---- schedulers
    _reg("observe_on", "any", lambda c: A(c.s), "time")
    _reg("subscribe_on", "any", lambda c: A(c.s), "time")


_install()

# operators whose callbacks must not be type-checked against upstream values can follow anything
SAFE_SECOND = sorted(n for n, (k, b, f) in CATALOGUE.items() if k == "any" and "multi" not in f)


def build_pipeline(ctx: Ctx, names: List[str], form: str = "pipe"):
    """main source of the right element kind, then the operators in order. Returns (observable, flags)."""
    from reactivex import operators as ops
    kind0 = CATALOGUE[names[0]][0]
    xs = ctx.source(kind0, "main")
    flags = set()
    ys = xs
    for n in names:
        kind, b, f = CATALOGUE[n]
        args, kwargs = b(ctx)
        flags |= set(f)
        rn = REAL_NAME.get(n, n)
        if form == "fluent":
            ys = getattr(ys, rn)(*args, **kwargs)
        else:
            ys = ys.pipe(getattr(ops, rn)(*args, **kwargs))
        if "multi" in f:
            import reactivex
            ys = reactivex.merge(*ys)
    return ys, flags
