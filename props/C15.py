"""C15 - time-shifting operators move notifications by the requested time (OpsTime.tla, Binding A).
delay (relative / absolute datetime), delay_subscription (relative / absolute), delay_with_mapper (with and without
a subscription delay), timestamp, time_interval - on TestScheduler (float clock) and HistoricalScheduler (datetime
clock), with numeric, float, timedelta and datetime arguments, None and other falsy values as elements."""
from harness import core
from props import time_common as tc

BASE = dict(MaxLen=3, MaxT=4, Lo=1, Small=set(), MaxLenS=2, MaxTS=3, Ds={0, 1, 2}, AbsLo=1, Terms={"C", "E", "U"}, AuxLen=0,
            SpecKs={"N", "C", "E", "U", "X"}, SpecTs={0, 1, 2}, Hz=7, DispOps=set(), DispLen=1, EchoOps=set(), EchoKs=set())

# quick: two TLC runs side by side; operators in Small use the smaller timeline bounds; for the operators in DispOps the
# subscriber also disposes between two instants (timelines of at most DispLen elements)
QUICK = [(["delay", "delay_abs", "timestamp", "time_interval", "delay_subscription", "delay_subscription_abs"],
          dict(MaxT=3, Small={"delay_subscription", "delay_subscription_abs"}, Hz=6, DispOps={"delay"},
               # feedback: the sink, inside the delivery of its k-th element, fails / completes the source it consumes
               EchoOps={"delay", "delay_abs"}, EchoKs={1, 2})),
         (["delay_with_mapper", "delay_with_mapper_sub"],
          dict(MaxLen=2, MaxT=3, Small={"delay_with_mapper_sub"}, MaxLenS=1, MaxTS=2, SpecTs={0, 2}, Terms={"C", "E"}, Hz=6))]

THOROUGH = [(["delay", "delay_abs", "timestamp", "time_interval"], dict(MaxLen=4, MaxT=5, Ds={0, 1, 2, 3}, AbsLo=2, Hz=9)),
            (["delay_subscription", "delay_subscription_abs"], dict(MaxLen=3, MaxT=5, Ds={0, 1, 2, 3}, AbsLo=2, Hz=9)),
            (["delay_with_mapper"], dict(MaxLen=3, MaxT=3, SpecTs={0, 2}, Hz=7)),
            (["delay_with_mapper_sub"], dict(MaxLen=2, MaxT=3, SpecTs={0, 2}, Hz=7)),
            (["delay", "delay_abs", "delay_subscription", "delay_subscription_abs", "delay_with_mapper", "delay_with_mapper_sub"],
             dict(MaxLen=2, MaxT=2, Ds={0, 1, 2}, SpecTs={0, 2}, Hz=6, DispLen=2, Small={"delay_with_mapper_sub"}, MaxLenS=1, MaxTS=2,
                  DispOps={"delay", "delay_abs", "delay_subscription", "delay_subscription_abs", "delay_with_mapper", "delay_with_mapper_sub"})),
            # a cold source that notifies at its very subscription instant
            (["delay", "delay_abs", "timestamp", "time_interval", "delay_subscription", "delay_subscription_abs", "delay_with_mapper",
              "delay_with_mapper_sub"], dict(Lo=0, MaxLen=2, MaxT=2, SpecTs={0, 1}, Hz=6, Small={"delay_with_mapper_sub"}, MaxLenS=1, MaxTS=2))]

# beyond the exhaustive bounds: sampled timelines (one resolution of the ties per sample - only tie-free samples are judged)
SIM = (["delay", "delay_abs", "delay_subscription", "delay_subscription_abs", "timestamp", "time_interval"],
       dict(MaxLen=5, MaxT=7, Ds={0, 1, 3, 5}, AbsLo=2, Hz=13))


def run(tier):
    ck = core.Check("C15", tier)
    groups = tc.run_groups(ck, QUICK if tier == "quick" else THOROUGH, BASE, tier)
    ck.exhaustive = True
    if tier == "thorough":
        nsim = tc.simulate_and_replay(ck, SIM[0], dict(BASE, **SIM[1]), 20000, tier)
        ck.note("simulated_tie_free_scenarios", nsim)
    ck.rule = ("every source timeline (element times 1..MaxT non-decreasing, 0..MaxLen elements, ending in completion, error or "
               "nothing) x every duration / absolute target / per-element delay-observable table, enumerated by TLC on "
               "OpsTime.tla with every order of same-instant events; each scenario run on the real operator with 3-5 source "
               "scripts that resolve same-instant ties differently, on TestScheduler and HistoricalScheduler; non-trivial = the "
               "expected output is not the input unchanged, or the scenario has a same-instant tie")
    ck.nontrivial = sum(1 for g in groups if tc.nontrivial(*g))
    ck.note("scenarios", len(groups))
    ck.note("scenarios_with_ties", sum(1 for g in groups if tc.has_tie(*g)))
    ck.note("operators", sorted({g[0]["op"] for g in groups}))
    ck.note("not_compared", ["instant at which the source subscription is released (recorded as model_drift only)"])
    for g in groups[:: max(1, len(groups) // 5)][:5]:
        ck.sample({"scn": g[0], "allowed": g[1]})
    ck.assumptions = ["TestScheduler/HistoricalScheduler run actions in due order, FIFO among equals (checked separately: C28)",
                      "same-instant events of independent lanes (source, timers, per-element delay observables) may be observed in "
                      "either order; an element delivered through a scheduler hop at the instant of a source error may be dropped",
                      "delay(datetime) is the relative delay max(0, target - subscription instant) (Rx semantics of an absolute delay)",
                      "1 model tick = 1, 7 or 60 virtual seconds"]
    return ck.finish()


replay = tc.generic_replay


META = {
    'technique': 'TLC-enumerated timed scenarios of OpsTime.tla (lane/tie runner, transducer checked against a time-level reference) replayed on the real operators on TestScheduler and HistoricalScheduler',
    'level': 'OpsTime.tla states delay, delay_subscription, delay_with_mapper, timestamp and time_interval twice (timer-lane transducer and a reference over the timeline\'s times; TLC checks agreement, grammar, causality, not-early and release invariants on every enumerated timeline and every order of same-instant events) and exports each scenario with its allowed observations; each is run on the real operator with several source scripts that drive same-instant ties differently, on a float and on a datetime virtual clock, with number / float / timedelta / absolute-datetime arguments and falsy element values, and must match on values, instants, terminal kind and (delay_subscription) the subscription instant. Exhaustive for the stated bounds, sampled beyond them in the thorough tier.',
    'note': 'TLC 1.8; codec of props/time_common.py (scripted sources, spec observables); virtual-time schedulers (verified by C28)',
    'ref': 'DESIGN.md 6 C15, 3.2, App. A.1/A.6/C',
}
