"""C27 - RefCountDisposable releases its resource only after all dependents (Disposables.tla: sequential histories replayed stepwise, all interleavings of the
abstract object checked by TLC, real executions under controlled schedules validated as traces)."""
from props import disp_common as dc

META = {
    "technique": "TLA+ abstract objects with linearization steps (Disposables.tla): TLC-enumerated sequential histories replayed stepwise + DetSched-controlled thread schedules of the real classes validated by TLC trace checking (DisposablesTrace.tla)",
    "level": "TLC checks AtMostOnce/NeverWhileHeld/ExactlyOnce/RefCountInv on every interleaving of Call/Lin/Effect/Ret of the abstract object for 2 threads; every single-thread call history up to the budget is exported with per-call results, dispose counts and is_disposed and performed on the real class; scripts for 2-3 threads are run on the real class for every schedule up to the preemption bound (plus seeded random schedules) and each recorded call/dispose/return trace must be explainable by some placement of linearization points that satisfies all invariants.",
    "note": "TLC 1.8; DetSched switch points = GIL-realisable points in reactivex/disposable/*.py; RLock replaced by a cooperative re-entrant lock",
    "ref": "DESIGN.md 6 C27, D.1-D.3",
}

RULE = 'every history of <= 5-6 calls (get dependent, dispose dependent, dispose primary, read) over 3 handles; 2-3 threads x short scripts x prologues under every schedule up to the preemption bound; non-trivial = histories in which the resource was released, plus distinct concurrent traces'
ASSUME = ['dependents are disposed only by the thread that obtained them or after a sequential prologue obtained them']


def run(tier):
    return dc.run_property("C27", dc.KINDS_C27, tier, RULE, ASSUME)


replay = dc.replay
