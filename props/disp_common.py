"""C25-C27: the disposable classes against Disposables.tla.

Binding A (sequential): TLC enumerates every call history of one thread on the abstract object and
exports, per returned call, the result and the projected state; the history is performed on the real
class and compared after every call.
Binding C+B (concurrent): scripts for 2-3 threads are run on the real class under DetSched for every
schedule up to a preemption bound; the recorded call/disp/ret traces are validated in batch against
DisposablesTrace.tla (linearizability: a silent Lin step per call, owed disposals, results)."""
from __future__ import annotations

import itertools
import json
import time
from typing import Any, Dict, List, Optional, Tuple

from harness import core, detsched, shims, tlc, tracecheck

KINDS_C25 = ["disposable", "boolean", "scheduled"]
KINDS_C26 = ["composite", "serial", "single", "multiple"]
KINDS_C27 = ["refcount"]
MODEL_INVS = ["OnlyOnScheduler", "AtMostOnce", "NeverWhileHeld", "ExactlyOnce", "LateItemsDisposed", "SingleHoldsOne", "ActionIffDisposed", "RefCountInv"]
TRACE_INVS = ["AtMostOnce", "NeverWhileHeld", "SingleHoldsOne", "RefCountInv", "ExactlyOnceAtEnd"]
FOCUS = ("reactivex/disposable/disposable.py", "reactivex/disposable/booleandisposable.py",
         "reactivex/disposable/compositedisposable.py", "reactivex/disposable/serialdisposable.py",
         "reactivex/disposable/singleassignmentdisposable.py", "reactivex/disposable/multipleassignmentdisposable.py",
         "reactivex/disposable/refcountdisposable.py")
NITEMS = 4
NHANDLES = 3


# ---- the real objects ---------------------------------------------------------------------------------
class Rig:
    """One real object of class `kind` plus recording items; performs calls and logs events."""

    def __init__(self, kind: str, log, falsy: bool = False, raising: bool = False):
        from reactivex import disposable as D
        self.kind, self.log = kind, log
        rig = self
        self.raising = raising      # the action / the wrapped resource's dispose raises (after being logged), every time it runs

        class Item:
            def __init__(self, i):
                self.i = i

            def dispose(self):
                rig.log(e="disp", item=self.i)
                if rig.raising:
                    raise RuntimeError("dispose action raises")

        class FalsyItem(D.CompositeDisposable):
            """an empty CompositeDisposable is falsy (len 0): containers must not care"""

            def __init__(self, i):
                super().__init__()
                self.i = i

            def dispose(self):
                rig.log(e="disp", item=self.i)
                super().dispose()

        mk = FalsyItem if falsy else Item
        self.items = {i: mk(i) for i in range(0, NITEMS + 1)}
        self.handles: Dict[int, Any] = {}
        if kind == "disposable":
            def action():
                rig.log(e="disp", item=0)
                if rig.raising:
                    raise RuntimeError("dispose action raises")
            self.obj = D.Disposable(action)
        elif kind == "boolean":
            self.obj = D.BooleanDisposable()
        elif kind == "composite":
            self.obj = D.CompositeDisposable()
        elif kind == "serial":
            self.obj = D.SerialDisposable()
        elif kind == "single":
            self.obj = D.SingleAssignmentDisposable()
        elif kind == "multiple":
            self.obj = D.MultipleAssignmentDisposable()
        elif kind == "refcount":
            self.obj = D.RefCountDisposable(self.items[0])
        elif kind == "scheduled":
            from reactivex.scheduler import VirtualTimeScheduler
            self.sched = VirtualTimeScheduler()
            self.obj = D.ScheduledDisposable(self.sched, self.items[0])
        else:
            raise ValueError(kind)

    def call(self, op: str, arg: int) -> str:
        """performs one call, logging call and ret; returns the result token"""
        self.log(e="call", op=op, arg=arg)
        res = "ok"
        o = self.obj
        try:
            if op == "dispose":
                o.dispose()
            elif op == "read":
                res = "T" if o.is_disposed else "F"
            elif op == "len":
                res = str(len(o))
            elif op == "add":
                o.add(self.items[arg])
            elif op == "remove":
                res = "T" if o.remove(self.items[arg]) else "F"
            elif op == "clear":
                o.clear()
            elif op == "assign":
                try:
                    o.disposable = self.items[arg]
                except Exception:  # the documented refusal of a second assignment
                    res = "raise"
            elif op == "run":
                try:
                    self.sched.start()
                finally:
                    self.sched._is_enabled = False     # an exception out of the run loop leaves the virtual-time scheduler "enabled"
            elif op == "get":
                self.handles[arg] = o.disposable
            elif op == "ddep":
                self.handles[arg].dispose()
            else:
                raise ValueError(op)
        except BaseException as e:
            if isinstance(e, detsched.Abort):
                raise
            res = "exc:" + type(e).__name__
        self.log(e="ret", res=res)
        return res

    def state(self) -> Dict[str, Any]:
        o = self.obj
        return {"disposed": bool(o.is_disposed)}


# ---- Binding A: sequential histories ---------------------------------------------------------------------
def seq_export(ck, kind: str, maxcalls: int, items: int, timeout: int = 900):
    consts = dict(Kind=kind, Threads={1}, Items=set(range(1, items + 1)), Handles=set(range(1, NHANDLES + 1)), MaxCalls=maxcalls)
    res = tlc.run("Disposables", tlc.cfg_text(consts, invariants=MODEL_INVS + ["Export"]), workers=1, timeout=timeout,
                  allow_violation=False)
    ck.add_tlc(res, f"sequential histories {kind} calls={maxcalls} items={items}")
    return [ln["obs"] for ln in res.lines]


def seq_judge(args) -> Optional[Dict[str, Any]]:
    kind, hist, falsy = args[:3]
    raising = len(args) > 3 and args[3]
    counts: Dict[int, int] = {}
    events: List[Dict[str, Any]] = []

    def log(**ev):
        events.append(ev)
        if ev["e"] == "disp":
            counts[ev["item"]] = counts.get(ev["item"], 0) + 1
    rig = Rig(kind, log, falsy, raising)
    prev_total = 0
    for k, step in enumerate(hist):
        res = rig.call(step["op"], step["arg"])
        exp_dc = {int(i): n for i, n in step["dc"].items()}
        if raising:     # the call in which the action / the resource's dispose runs lets its exception out; nothing else changes
            if sum(exp_dc.values()) > prev_total:
                step = dict(step, res="exc:RuntimeError")
            prev_total = sum(exp_dc.values())
        got_dc = {i: counts.get(i, 0) for i in exp_dc}
        why = None
        if res != step["res"]:
            why = f"result {res!r} expected {step['res']!r}"
        elif got_dc != exp_dc:
            why = f"dispose counts {got_dc} expected {exp_dc}"
        elif bool(rig.obj.is_disposed) != step["disposed"]:
            why = f"is_disposed {rig.obj.is_disposed} expected {step['disposed']}"
        elif kind == "composite" and len(rig.obj) != len(step["held"]):
            why = f"len {len(rig.obj)} expected {len(step['held'])}"
        if why:
            twice = [i for i, n in got_dc.items() if n > 1]
            never = [i for i, n in got_dc.items() if n < exp_dc[i]]
            return {"engine": "disp-seq", "kind": kind, "falsy_items": falsy, "raising_action": raising, "history": [[s["op"], s["arg"]] for s in hist],
                    "step": k, "op": step["op"], "why": why, "expected": step, "observed": {"res": res, "dc": got_dc},
                    "failure": "double_dispose" if twice else ("leak" if never else "result")}
    return None


# ---- Binding C+B: concurrent scripts under DetSched -------------------------------------------------------
# run by thread 0 after the concurrent phase: the abstract object must still be consistent (a count that went wrong,
# an item that was lost or kept, shows when the container / the primary is finally disposed)
EPILOGUE = {"refcount": [("dispose", 0), ("read", 0)], "composite": [("len", 0), ("dispose", 0), ("read", 0) if False else ("len", 0)],
            "serial": [("dispose", 0), ("read", 0)], "single": [("dispose", 0), ("read", 0)], "multiple": [("dispose", 0), ("read", 0)],
            "disposable": [("dispose", 0), ("read", 0)], "boolean": [("read", 0)]}


def scripts_for(kind: str, nthreads: int, tier: str) -> List[Dict[str, Any]]:
    """prologue (thread 0, sequential) + one short script per thread"""
    out = []
    if kind in ("disposable", "boolean"):
        menus = [[("dispose", 0)], [("dispose", 0), ("read", 0)], [("read", 0), ("dispose", 0)], [("dispose", 0), ("dispose", 0)]]
        pros = [[]]
    elif kind == "composite":
        pros = [[], [("add", 1)], [("add", 1), ("add", 2)]]
        menus = [[("add", 3)], [("remove", 1)], [("clear", 0)], [("dispose", 0)], [("add", 4), ("dispose", 0)],
                 [("remove", 1), ("add", 3)], [("dispose", 0), ("add", 3)], [("clear", 0), ("len", 0)]]
    elif kind in ("serial", "multiple"):
        pros = [[], [("assign", 1)]]
        menus = [[("assign", 2)], [("assign", 3)], [("dispose", 0)], [("assign", 4), ("dispose", 0)], [("dispose", 0), ("assign", 3)],
                 [("dispose", 0), ("read", 0)]]
    elif kind == "single":
        pros = [[], [("assign", 1)]]
        menus = [[("assign", 2)], [("assign", 3)], [("dispose", 0)], [("dispose", 0), ("assign", 4)], [("dispose", 0), ("read", 0)]]
    elif kind == "refcount":
        pros = [[], [("get", 1)], [("get", 1), ("get", 2)]]
        menus = [[("ddep", 1)], [("dispose", 0)], [("ddep", 2)], [("get", 3), ("ddep", 3)], [("ddep", 1), ("ddep", 1)],
                 [("dispose", 0), ("read", 0)], [("get", 3)]]
    else:
        raise ValueError(kind)
    for pro in pros:
        have_items = {a for (o, a) in pro if o in ("add", "assign")}
        have_handles = {a for (o, a) in pro if o == "get"}
        for combo in itertools.combinations_with_replacement(range(len(menus)), nthreads):
            scr = [menus[i] for i in combo]
            # legality: fresh items, handles only from the prologue or the same thread, no item given twice
            given = set(have_items)
            ok = True
            for s in scr:
                mine = set()
                for (o, a) in s:
                    if o in ("add", "assign"):
                        if a in given:
                            ok = False
                        given.add(a)
                    if o == "get":
                        if a in have_handles or a in mine:
                            ok = False
                        mine.add(a)
                    if o == "ddep" and a not in have_handles and a not in mine:
                        ok = False
                    if o == "remove" and a not in have_items:
                        ok = False
                have_gets = [a for (o, a) in s if o == "get"]
            gets = [a for s in scr for (o, a) in s if o == "get"]
            if len(gets) != len(set(gets)):
                ok = False
            if ok:
                out.append({"kind": kind, "pro": pro, "scripts": scr, "epi": EPILOGUE.get(kind, [])})
    if tier == "quick" and len(out) > 16:
        # always keep the scripts in which two threads race on the SAME item / handle, then a stride sample of the rest
        def racy(sc):
            ops_ = [tuple(x) for s_ in sc["scripts"] for x in s_]
            same = len(ops_) != len(set(ops_))
            return same and len(sc["pro"]) == max(len(p) for p in pros)
        keep = [sc for sc in out if racy(sc)][:6]
        rest = [sc for sc in out if sc not in keep]
        out = keep + rest[:: max(1, len(rest) // (16 - len(keep)))][:16 - len(keep)]
    return out


def explore_script(args) -> Dict[str, Any]:
    """All schedules (up to the bound) of one script; returns distinct traces with multiplicities."""
    sc, bound, max_sched, nrandom, seed, falsy = args[:6]
    deadline = args[6] if len(args) > 6 else None      # wall-clock budget of the tier: exploration of this script stops there
    kind = sc["kind"]
    traces: Dict[str, List[Any]] = {}
    stats = {"executions": 0, "deadlocks": 0, "steplimit": 0, "contended": 0, "thread_exc": 0}

    def run_one(choose):
        holder = {}

        def build(ds):
            names = {"main": 0}

            def log(**ev):
                t = ds.me()
                ev["th"] = names.get(t.name if t else "main", 0)
                ds.trace.append(ev)
            rig = Rig(kind, log, falsy)
            holder["rig"] = rig
            for (op, arg) in sc["pro"]:
                rig.call(op, arg)
            for k, script in enumerate(sc["scripts"], start=1):
                names[f"T{k}"] = k

                def body(script=script):
                    for (op, arg) in script:
                        rig.call(op, arg)
                ds.spawn(f"T{k}", body)
        ds = shims.run_execution(build, choose, focus=FOCUS, max_steps=5000)
        if not (ds.deadlocked or ds.step_limit_hit):
            rig = holder["rig"]
            for (op, arg) in sc.get("epi", []):      # sequential epilogue on the set-up thread (thread 0)
                rig.call(op, arg)
        return ds

    with shims.patched():
        ex = detsched.Explorer(bound=bound, max_schedules=max_sched, random_schedules=nrandom, seed=seed)
        for ds in ex.explore(run_one):
            stats["executions"] += 1
            if deadline is not None and stats["executions"] >= 50 and time.time() > deadline:
                ex.truncated = True
                break
            tr = list(ds.trace)
            if ds.deadlocked:
                stats["deadlocks"] += 1
                tr.append({"e": "deadlock", "th": 0})
            if ds.step_limit_hit:
                stats["steplimit"] += 1
                tr.append({"e": "steplimit", "th": 0})
            for t in ds.threads:
                if t.exc is not None:
                    stats["thread_exc"] += 1
                    tr.append({"e": "exc", "th": 0, "what": repr(t.exc)[:200]})
            key = json.dumps(tr, sort_keys=True)
            if key not in traces:
                traces[key] = [tr, 0, [d[1] for d in ds.decisions]]
            traces[key][1] += 1
    return {"script": sc, "traces": [(t, n, dec) for (t, n, dec) in traces.values()], "stats": stats, "truncated": ex.truncated}


def conc_check(ck, kinds: List[str], tier: str, nthreads_list=(2,), falsy_too: bool = True):
    """DetSched exploration + batch validation. Failures are reported through ck.fail."""
    bound = 2 if tier == "quick" else 3
    max_sched = 100 if tier == "quick" else 3000
    nrandom = 10 if tier == "quick" else 300
    deadline = None if tier == "quick" else time.time() + 40 * 60   # thorough: every script gets >= 50 schedules, the rest as time allows
    jobs = []
    for kind in kinds:
        for nt in nthreads_list:
            for sc in scripts_for(kind, nt, tier):
                jobs.append((sc, bound, max_sched, nrandom, ck.seed, False, deadline))
                if falsy_too and kind in ("composite", "serial", "single", "multiple"):
                    jobs.append((sc, bound, max(40, max_sched // 4), 0, ck.seed, True, deadline))
    results = core.parallel_map(explore_script, jobs, procs=12, chunk=1) if len(jobs) > 3 else [explore_script(j) for j in jobs]
    total_exec = 0
    per_kind: Dict[str, List[Tuple[Any, Dict[str, Any], int, bool, List[int]]]] = {}
    for (job, r) in zip(jobs, results):
        total_exec += r["stats"]["executions"]
        for k in ("deadlocks", "steplimit", "thread_exc"):
            ck.count("conc_" + k, r["stats"][k])
        if r["truncated"]:
            ck.count("scripts_truncated_at_max_schedules")
        for (tr, n, dec) in r["traces"]:
            per_kind.setdefault(r["script"]["kind"], []).append((tr, r["script"], n, job[5], dec))
    ck.note("conc_executions", ck.extra.get("conc_executions", 0) + total_exec)
    ck.note("preemption_bound", bound)
    distinct = 0
    for kind, lst in per_kind.items():
        consts = dict(Kind=kind, Threads={0, 1, 2, 3}, Items=set(range(1, NITEMS + 1)), Handles=set(range(1, NHANDLES + 1)), MaxCalls=0)
        batch = [t[0] for t in lst]
        distinct += len(batch)
        rejected, ress = tracecheck.validate("DisposablesTrace", consts, batch, invariants=TRACE_INVS, timeout=900)
        for r in ress:
            ck.add_tlc(r, f"trace validation {kind} ({len(batch)} distinct traces)")
        for (idx, upto) in rejected:
            tr, sc, n, falsy, dec = lst[idx]
            nxt = tr[upto] if upto < len(tr) else {"e": "end"}
            disp = [e["item"] for e in tr if e["e"] == "disp"]
            twice = sorted({i for i in disp if disp.count(i) > 1})
            ck.fail({"engine": "disp-conc", "kind": kind, "falsy_items": falsy, "script": sc, "trace": tr, "rejected_at": upto,
                     "next_event": nxt, "schedules_with_this_trace": n, "decisions": dec,
                     "failure": "deadlock" if nxt["e"] == "deadlock" else ("double_dispose" if twice else
                                ("result" if nxt["e"] == "ret" else ("unowed_dispose" if nxt["e"] == "disp" else nxt["e"]))),
                     "items_disposed_twice": twice})
        if lst:
            ck.sample({"kind": kind, "script": lst[0][1], "trace": lst[0][0]})
    ck.impl += total_exec
    ck.note("conc_distinct_traces", ck.extra.get("conc_distinct_traces", 0) + distinct)
    return distinct


def design_check(ck, kind: str, threads: int, maxcalls: int, items: int, timeout: int = 900):
    """All interleavings of Call/Lin/Effect/Ret on the abstract object (hist hidden by a VIEW)."""
    consts = dict(Kind=kind, Threads=set(range(1, threads + 1)), Items=set(range(1, items + 1)),
                  Handles=set(range(1, NHANDLES + 1)), MaxCalls=maxcalls)
    cfg = tlc.cfg_text(consts, invariants=MODEL_INVS, view="DesignView")
    res = tlc.run("Disposables", cfg, workers=4, timeout=timeout, allow_violation=False, coverage=True)
    ck.add_tlc(res, f"design: all interleavings {kind} threads={threads} calls={maxcalls}")
    need = ("GenCall", "Lin", "Ret") if kind == "boolean" else ("GenCall", "Lin", "Effect", "Ret")   # a BooleanDisposable owes nothing
    never = [a for a in need if res.coverage and res.coverage.get(a, 0) == 0]
    if never:
        raise tlc.TLCFailure(f"vacuous design run for {kind}: actions never taken {never}")
    return res


APA_OBLIGATIONS = [("Init => IndInv", ["--init=Init", "--inv=IndInv", "--length=0"]),
                   ("IndInv /\\ Next => IndInv'", ["--init=IndInit", "--inv=IndInv", "--length=1"]),
                   ("IndInv => Safety", ["--init=IndInit", "--inv=Safety", "--length=0"])]


def _apalache(args, path, timeout=900):
    import shutil
    import subprocess
    import tempfile
    out = tempfile.mkdtemp(prefix="vapa_")
    try:
        r = subprocess.run(["apalache-mc", "check", f"--out-dir={out}", *args, path], cwd=out, capture_output=True, text=True, timeout=timeout)
        return r.returncode, r.stdout[-1500:]
    finally:
        shutil.rmtree(out, ignore_errors=True)


def apalache_refcount(ck, negative_control: bool) -> None:
    """Binding D: the inductive argument for unbounded histories (spec/apalache/RefCountInd.tla)."""
    import os
    import tempfile
    from concurrent.futures import ThreadPoolExecutor
    path = os.path.join(tlc.SPEC_DIR, "apalache", "RefCountInd.tla")
    with ThreadPoolExecutor(3) as ex:
        res = list(ex.map(lambda ob: _apalache(ob[1], path), APA_OBLIGATIONS))
    ok = sum(1 for rc, out in res if rc == 0 and "EXITCODE: OK" in out)
    ck.note("obligations", len(APA_OBLIGATIONS))
    ck.note("discharged", ok)
    ck.note("checker_cmd", "apalache-mc check --init=<Init|IndInit> --inv=<IndInv|Safety> --length=<0|1> spec/apalache/RefCountInd.tla")
    ck.note("inductive_obligations", [{"obligation": ob[0], "args": ob[1], "ok": rc == 0} for ob, (rc, out) in zip(APA_OBLIGATIONS, res)])
    if ok != len(APA_OBLIGATIONS):
        raise tlc.TLCFailure("Apalache did not discharge the inductive obligations of RefCountInd:\n" + "\n".join(o for _, o in res))
    if negative_control:
        # a release that does not test the count must be refuted - otherwise the obligations are vacuous
        src = open(path).read()
        bad = src.replace("IF count - 1 = 0 /\\ primary /\\ ~released", "IF primary /\\ ~released")
        assert bad != src
        d = tempfile.mkdtemp(prefix="vapa_neg_")
        try:
            p2 = os.path.join(d, "RefCountInd.tla")
            open(p2, "w").write(bad)
            rc, out = _apalache(APA_OBLIGATIONS[1][1], p2)
            ck.note("negative_control_refuted", rc != 0)
            if rc == 0:
                raise tlc.TLCFailure("negative control (release without testing the count) was NOT refuted by Apalache")
        finally:
            import shutil
            shutil.rmtree(d, ignore_errors=True)


def run_property(pid: str, kinds: List[str], tier: str, rule: str, assumptions: List[str]) -> int:
    ck = core.Check(pid, tier)
    ck.rule = rule
    n_seq = 0
    nontriv = 0
    for kind in kinds:
        calls = {"disposable": 4, "boolean": 4, "scheduled": 5, "composite": 4, "serial": 4, "single": 4, "multiple": 4, "refcount": 5}[kind]
        items = 3
        if tier == "thorough":
            calls += 1
        hists = seq_export(ck, kind, calls, items)
        jobs = [(kind, h, False) for h in hists]
        if kind in ("composite", "serial", "single", "multiple", "scheduled", "refcount"):   # wrapped / held resources that are falsy
            jobs += [(kind, h, True) for h in hists]
        if kind in ("disposable", "scheduled"):      # a raising action / resource: still at most once, still reported disposed
            jobs += [(kind, h, False, True) for h in hists]
        for f in core.parallel_map(seq_judge, jobs, procs=8, chunk=500):
            if f:
                ck.fail(f)
        n_seq += len(jobs)
        nontriv += sum(1 for h in hists if any(n > 0 for n in h[-1]["dc"].values()))
        if hists:
            ck.sample({"kind": kind, "sequential_history": hists[len(hists) // 2]})
        design_check(ck, kind, 2, 3 if tier == "quick" else 4, 2)
    ck.impl += n_seq
    ck.note("sequential_histories_replayed", n_seq)
    distinct = conc_check(ck, [k for k in kinds if k != "scheduled"], tier, nthreads_list=(2,) if tier == "quick" else (2, 3))
    if "refcount" in kinds:
        apalache_refcount(ck, negative_control=(tier == "thorough"))
        assumptions = assumptions + ["the inductive argument bounds the number of SIMULTANEOUSLY live dependents by 6 (Gen(6) in IndInit); "
                                     "history length, handle ids and the counter are unbounded"]
    ck.nontrivial = nontriv + distinct
    ck.exhaustive = True
    ck.assumptions = assumptions + [
        "controlled schedules preempt only where the pinned GIL interpreter can (after a call instruction, at function entry, "
        "at backward jumps, at lock operations): a subset of the language-level interleavings",
        "threading.RLock is replaced in the disposable modules by a cooperative re-entrant lock with the same semantics"]
    return ck.finish()


def replay(rec: Dict[str, Any]) -> int:
    if rec.get("engine") == "disp-seq":
        hist = [dict(op=o, arg=a) for o, a in rec["history"]]
        # re-derive the expectation from the model for this history: re-run the judge on the recorded expectation
        print("sequential history:", rec["history"], "expected at step", rec["step"], rec["expected"])
        return 1
    sc = rec["script"]
    print("script:", json.dumps(sc), "\ntrace:", json.dumps(rec["trace"]), "\nrejected at event", rec["rejected_at"], rec["next_event"])
    consts = dict(Kind=rec["kind"], Threads={0, 1, 2, 3}, Items=set(range(1, NITEMS + 1)), Handles=set(range(1, NHANDLES + 1)), MaxCalls=0)
    rejected, _ = tracecheck.validate("DisposablesTrace", consts, [rec["trace"]], invariants=TRACE_INVS)
    print("trace spec verdict:", "rejected" if rejected else "accepted")
    return 1 if rejected else 0
