"""Binding A for OpsMerge.tla (C11 merging, C12 switching; growth: exclusive).

Python holds the codec only: the scenario exported by TLC (operator, max_concurrent, table of
inner timelines, flavour of the inner sources, outer timeline, mapper table, dispose instant) is
built on the real library - TestScheduler, cold / hot / synchronously-emitting test sources that
log their subscription intervals, the real operator, a recording observer - run, projected to
the record the model exports (timed output stream, terminal, per-inner subscription intervals,
outer subscription interval) and required to be one of the observations the model allows for
that scenario.  No operator semantics here."""
from __future__ import annotations

import json
import sys
from typing import Any, Dict, List, Optional, Tuple

NEVER = 999            # OpsMerge!NEVER
HOT_OFF = 2            # OpsMerge!HotOff (half ticks)
SUB_AT = 200           # virtual time of subscribe()
HALF = 5               # virtual-time units per model half tick
NEVER_T = sys.maxsize  # reactivex.testing.Subscription's "still subscribed"

MERGE_OPS = ["merge_all", "merge_mc", "merge_srcs", "flat_map", "flat_map_indexed", "concat_map"]
SWITCH_OPS = ["switch_latest", "switch_map", "switch_map_indexed", "flat_map_latest"]
MAPPED = {"flat_map", "concat_map", "switch_map", "flat_map_latest"}
INDEXED = {"flat_map_indexed", "switch_map_indexed"}

MODEL_INVS = ["Grammar", "Released", "ActiveOpen", "Concurrency", "NoIdleSlot", "Causal", "RefOut", "RefSubs",
              "ConcatOrdered"]
MODEL_PROPS = ["LatestOnly"]


class FnErr(Exception):
    """raised by a scenario's mapper"""


class OuterErr(Exception):
    """the outer source's on_error value"""


class InnerErr(Exception):
    """an inner source's on_error value"""

    def __init__(self, idx: int):
        super().__init__(f"inner{idx}")
        self.idx = idx


def T(h: int) -> int:
    """model instant (half ticks after subscription) -> virtual time"""
    return SUB_AT + HALF * h


# ---- values ------------------------------------------------------------------------------------
# falsy profile (C08 dimension): pairwise distinguishable by (type, value), all falsy
FALSY = [None, 0, "", (), [], {}, 0.0, False, b"", set(), frozenset(), range(0), 0j]


def same(a: Any, b: Any) -> bool:
    return a is b or (type(a) is type(b) and a == b)


class Codec:
    """tokens <-> Python values. Element j of inner i is one value; outer tokens (mapped operators) are values too."""

    def __init__(self, tab: List[List[Dict[str, Any]]], profile: str, salt: int = 0):
        self.elem: Dict[Tuple[int, int], Any] = {}
        self.tok: Dict[int, Any] = {}
        n = 0
        for i, tl in enumerate(tab, start=1):
            for j, ev in enumerate(tl, start=1):
                if ev["k"] == "N":
                    if profile == "falsy":
                        self.elem[(i, j)] = FALSY[(n + salt) % len(FALSY)] if n < len(FALSY) else ("", n)
                    elif profile == "str":
                        self.elem[(i, j)] = f"i{i}e{j}"
                    else:
                        self.elem[(i, j)] = 100 * i + j
                    n += 1
        for v in range(1, len(tab) + 1):
            if profile == "falsy":
                self.tok[v] = FALSY[(v - 1 + salt) % len(FALSY)]
            elif profile == "str":
                self.tok[v] = f"tok{v}"
            else:
                self.tok[v] = 1000 + v
        self.outer_err = OuterErr("outer")
        self.inner_err = {i: InnerErr(i) for i in range(1, len(tab) + 1)}

    def elem_of(self, x: Any) -> Any:
        for key, v in self.elem.items():
            if same(v, x):
                return list(key)
        return ["?", repr(x)]

    def token_of(self, x: Any) -> int:
        for v, val in self.tok.items():
            if same(val, x):
                return v
        raise AssertionError(f"mapper called with a value that is not an outer element: {x!r}")

    def err_of(self, e: Any) -> Any:
        if e is self.outer_err:
            return ["outer", 0]
        if isinstance(e, FnErr):
            return ["fn", 0]
        for i, v in self.inner_err.items():
            if e is v:
                return ["inner", i]
        return ["?", repr(e)]


# ---- logging test sources of the codec -------------------------------------------------------------
# The library's own ColdObservable / HotObservable are used on TestScheduler.  Two things they cannot do are done by
# these equivalents: delivering the relative-time-0 messages inside subscribe() ("sync" flavour), and logging on a
# datetime clock (HistoricalScheduler).  `clock()` reads the scheduler's time in virtual-time units.
def make_log_cold(scheduler, messages, sync0: bool, clock):
    from reactivex import Observable
    from reactivex.disposable import CompositeDisposable, Disposable

    class LogColdObservable(Observable):
        def __init__(self):
            super().__init__()
            self.subscriptions: List[Any] = []

        def _subscribe_core(self, observer=None, scheduler_=None):
            entry = _Sub(clock())
            self.subscriptions.append(entry)
            disp = CompositeDisposable()

            def dispose() -> None:
                entry.unsubscribe = clock()
                disp.dispose()

            def later(notification):
                def action(_s, _st=None):
                    notification.accept(observer)
                    return Disposable()
                return action

            for (t, is_zero, n) in messages:
                if sync0 and is_zero:
                    n.accept(observer)
                else:
                    disp.add(scheduler.schedule_relative(t, later(n)))
            return Disposable(dispose)

    return LogColdObservable()


def make_log_hot(scheduler, messages, clock):
    from reactivex import Observable
    from reactivex.disposable import Disposable

    class LogHotObservable(Observable):
        def __init__(self):
            super().__init__()
            self.subscriptions: List[Any] = []
            self.observers: List[Any] = []

            def fire(notification):
                def action(_s, _st=None):
                    for o in self.observers[:]:
                        notification.accept(o)
                    return Disposable()
                return action

            for (t, _z, n) in messages:
                scheduler.schedule_absolute(t, fire(n))

        def _subscribe_core(self, observer=None, scheduler_=None):
            self.observers.append(observer)
            entry = _Sub(clock())
            self.subscriptions.append(entry)

            def dispose() -> None:
                self.observers.remove(observer)
                entry.unsubscribe = clock()

            return Disposable(dispose)

    return LogHotObservable()


class _Sub:
    def __init__(self, start):
        self.subscribe, self.unsubscribe = start, NEVER_T


# ---- build + run -----------------------------------------------------------------------------------
RESUB_OFFSET = 1000


def run_scenario(scn: Dict[str, Any], *, outer: str, profile: str, inner_first: bool = True, form: str = "pipe",
                 salt: int = 0, resub: bool = False) -> Optional[Dict[str, Any]]:
    """One real run. Returns None when the variant does not apply to the scenario.
    outer: "hot" | "cold" | "sync" - the kind of test source the outer timeline is played from.
    resub: the same pipeline object is subscribed a first time at 200 and - long after that run is over - a second
    time at 1200; the observation is the second subscriber's (all sources cold: it must see the same thing again)."""
    import reactivex
    from reactivex import operators as ops
    from reactivex.scheduler import VirtualTimeScheduler
    from reactivex.testing import ReactiveTest, TestScheduler

    outer_kind = outer
    outer_hot = outer_kind == "hot"
    op, tab, fl, outer, fmap, dsp, mc = scn["op"], scn["tab"], scn["fl"], scn["outer"], scn["fmap"], scn["dsp"], scn["mc"]
    if outer_hot and any(ev["t"] == 0 for ev in outer):
        return None  # a hot event at the very subscription instant is a tie with subscribe(); the model has it delivered
    if resub and (outer_hot or fl == "hot"):
        return None
    off = RESUB_OFFSET if resub else 0
    ni = len(tab)
    cod = Codec(tab, profile, salt)
    ts = TestScheduler()

    def inner_msgs(i: int, tl, absolute: bool):
        ms = []
        for j, ev in enumerate(tl, start=1):
            t = T(HOT_OFF + ev["t"]) if absolute else HALF * ev["t"]
            if ev["k"] == "N":
                ms.append(ReactiveTest.on_next(t, cod.elem[(i, j)]))
            elif ev["k"] == "C":
                ms.append(ReactiveTest.on_completed(t))
            else:
                ms.append(ReactiveTest.on_error(t, cod.inner_err[i]))
        return ms

    def make_inners():
        out = {}
        for i, tl in enumerate(tab, start=1):
            if fl == "hot":
                out[i] = ts.create_hot_observable(inner_msgs(i, tl, True))
            elif fl == "sync":
                out[i] = make_sync_cold(ts, inner_msgs(i, tl, False))
            else:
                out[i] = ts.create_cold_observable(inner_msgs(i, tl, False))
        return out

    inners: Dict[int, Any] = {}
    if inner_first:
        inners.update(make_inners())
    mapped = op in MAPPED or op in INDEXED
    xs = None
    if op == "merge_srcs":
        if outer_hot:
            return None  # there is no outer test source: the outer is from_iterable(sources)
        if not inner_first:
            inners.update(make_inners())
    else:
        ms = []
        for ev in outer:
            t = T(ev["t"]) if outer_hot else HALF * ev["t"]
            if ev["k"] == "N":
                # unmapped operators get the inner sources themselves; late-created inners go through a proxy
                val = cod.tok[ev["v"]] if mapped else _Late(inners, ev["v"])
                ms.append(ReactiveTest.on_next(t, val))
            elif ev["k"] == "C":
                ms.append(ReactiveTest.on_completed(t))
            else:
                ms.append(ReactiveTest.on_error(t, cod.outer_err))
        if not mapped:
            if not inner_first:
                inners.update(make_inners())
            # replace the proxies by the real inner sources now that they exist
            for m in ms:
                if isinstance(m.value.value if hasattr(m.value, "value") else None, _Late):
                    m.value.value = inners[m.value.value.idx]
        xs = (ts.create_hot_observable(ms) if outer_hot else make_sync_cold(ts, ms) if outer_kind == "sync"
              else ts.create_cold_observable(ms))
        if mapped and not inner_first:
            inners.update(make_inners())

    calls: List[Any] = []

    def mapper(x):
        v = cod.token_of(x)
        calls.append(v)
        tg = fmap[v - 1]
        if tg == 0:
            raise FnErr("fn")
        return inners[tg]

    def mapper_indexed(x, i):
        v = cod.token_of(x)
        calls.append((v, i))
        tg = fmap[(v - 1 + i) % ni]
        if tg == 0:
            raise FnErr("fn")
        return inners[tg]

    if op == "merge_srcs":
        srcs = [inners[ev["v"]] for ev in outer if ev["k"] == "N"]
        if form == "pipe":
            if not srcs:
                return None
            ys = srcs[0].pipe(ops.merge(*srcs[1:]))
        else:
            ys = reactivex.merge(*srcs)
    else:
        if op == "merge_all":
            o = ops.merge_all()
        elif op == "merge_mc":
            o = ops.merge(max_concurrent=mc)
        elif op == "flat_map":
            o = ops.flat_map(mapper)
        elif op == "flat_map_indexed":
            o = ops.flat_map_indexed(mapper_indexed)
        elif op == "concat_map":
            o = ops.concat_map(mapper)
        elif op == "switch_latest":
            o = ops.switch_latest()
        elif op == "switch_map":
            o = ops.switch_map(mapper)
        elif op == "switch_map_indexed":
            o = ops.switch_map_indexed(mapper_indexed)
        elif op == "flat_map_latest":
            o = ops.flat_map_latest(mapper)
        elif op == "exclusive":
            o = ops.exclusive()
        else:
            raise ValueError(op)
        if form == "pipe":
            ys = xs.pipe(o)
        else:
            return None

    rec: List[Tuple[float, str, Any]] = []
    holder: Dict[str, Any] = {}

    def subscribe(_s=None, _st=None):
        holder["d"] = ys.subscribe(on_next=lambda v: rec.append((ts.clock, "N", v)),
                                   on_error=lambda e: rec.append((ts.clock, "E", e)),
                                   on_completed=lambda: rec.append((ts.clock, "C", None)), scheduler=ts)

    if resub:
        first: Dict[str, Any] = {}
        ts.schedule_absolute(SUB_AT, lambda *_: first.update(d=ys.subscribe(on_next=lambda v: None, on_error=lambda e: None,
                                                                            scheduler=ts)))
        if dsp != NEVER:
            ts.schedule_absolute(T(dsp), lambda *_: first["d"].dispose())
    ts.schedule_absolute(SUB_AT + off, subscribe)
    if dsp != NEVER:
        ts.schedule_absolute(T(dsp) + off, lambda *_: holder["d"].dispose())
    escaped = None
    try:
        VirtualTimeScheduler.start(ts)
    except Exception as e:  # an exception that escaped into the scheduler / the emitter
        escaped = e
    out = []
    unshift = lambda x: x if x == NEVER_T else x - off
    for (t, k, v) in rec:
        t = t - off
        if k == "N":
            out.append([t, "N", cod.elem_of(v)])
        elif k == "E":
            out.append([t, "E", cod.err_of(v)])
        else:
            out.append([t, "C", None])
    subs = {str(i): [[s.subscribe - off, unshift(s.unsubscribe)] for s in inners[i].subscriptions if s.subscribe >= SUB_AT + off]
            for i in sorted(inners)}
    osub = None if xs is None else [[s.subscribe - off, unshift(s.unsubscribe)] for s in xs.subscriptions
                                    if s.subscribe >= SUB_AT + off]
    return {"out": out, "subs": subs, "osub": osub, "escaped": None if escaped is None else repr(escaped), "calls": calls}


class _Late:
    def __init__(self, table, idx):
        self.table, self.idx = table, idx


# ---- the model's observation in the same shape -------------------------------------------------------
def _ct(h: int) -> int:
    return NEVER_T if h == NEVER else T(h)


def expected(scn: Dict[str, Any], obs: Dict[str, Any]) -> Dict[str, Any]:
    out = []
    for r in obs["out"]:
        if r["k"] == "N":
            out.append([T(r["t"]), "N", [r["i"], r["j"]]])
        elif r["k"] == "E":
            out.append([T(r["t"]), "E", [r["e"], r["i"]]])
        else:
            out.append([T(r["t"]), "C", None])
    subs: Dict[str, List[List[int]]] = {str(i): [] for i in range(1, len(scn["tab"]) + 1)}
    for s in obs["subs"]:
        subs[str(s["idx"])].append([T(s["open"]), _ct(s["close"])])
    osub = None if scn["op"] == "merge_srcs" else [[SUB_AT, _ct(obs["osub"])]]
    return {"out": out, "subs": subs, "osub": osub}


def _eq_out(a, b) -> bool:
    return len(a) == len(b) and all(x[0] == y[0] and x[1] == y[1] and x[2] == y[2] for x, y in zip(a, b))


def diff(exp: Dict[str, Any], got: Dict[str, Any]) -> Optional[str]:
    """None when the real run equals this allowed observation on the asserted projection."""
    if got["escaped"] is not None:
        return "escaped"
    if not _eq_out(exp["out"], got["out"]):
        return "out"
    if exp["subs"] != got["subs"]:
        return "subs"
    if exp["osub"] is not None and exp["osub"] != got["osub"]:
        return "osub"
    return None


def witness(scn, exps, got) -> Dict[str, Any]:
    """Facts about a failing run that known-finding entries may refer to (kept narrow on purpose)."""
    w: Dict[str, Any] = {}
    kinds = sorted({diff(e, got) for e in exps})
    w["reason_kinds"] = kinds
    # the output stream is allowed and only subscription intervals differ
    w["out_allowed"] = any(_eq_out(e["out"], got["out"]) for e in exps) and got["escaped"] is None
    leaks = []
    for e in exps:
        if _eq_out(e["out"], got["out"]):
            for i, lst in got["subs"].items():
                for n, iv in enumerate(lst):
                    ev = e["subs"].get(i, [])
                    if n < len(ev) and ev[n][0] == iv[0] and iv[1] > ev[n][1]:
                        leaks.append(i)
    w["late_unsubscribe"] = bool(leaks)
    got_k = [x[1] for x in got["out"]]
    w["observed_terminal"] = got_k[-1] if got_k and got_k[-1] != "N" else "none"
    w["expected_terminals"] = sorted({(e["out"][-1][1] if e["out"] and e["out"][-1][1] != "N" else "none") for e in exps})
    return w


def judge(scn: Dict[str, Any], allowed: List[Dict[str, Any]], variant: Dict[str, Any]):
    """'n/a' | None (allowed) | failure record"""
    got = run_scenario(scn, **variant)
    if got is None:
        return "n/a"
    exps = [expected(scn, o) for o in allowed]
    reasons = []
    for e in exps:
        r = diff(e, got)
        if r is None:
            return None
        reasons.append(r)
    rk = "escaped" if "escaped" in reasons else ("out" if all(r == "out" for r in reasons) else
                                                  ("subs" if "subs" in reasons else reasons[0]))
    rec = {"engine": "opsmerge", "op": scn["op"], "mc": scn["mc"], "fl": scn["fl"], "reason_kind": rk, "scn": scn,
           "expected": allowed, "expected_decoded": exps[:4], "observed": got, "variant": variant,
           "has_fault": 0 in scn["fmap"], "disposed": scn["dsp"] != NEVER}
    rec.update(witness(scn, exps, got))
    return rec


# ---- drivers shared by C11 / C12 -------------------------------------------------------------------
BASE = dict(MCs={1, 2}, Tabs={"plain"}, Flavours={"cold"}, MaxOuter=3, OTimes={1, 2, 3}, OTermTimes={1, 2, 3, 5},
            OTerms={"C", "E", "U"}, DspTicks=set(), Faults=False, FAll=False, RG=True, GenN=2, GenLen=2, GenTimes={0, 1},
            Lazy=False)


def export_runs(ck, runs, timeout=1500, par=4, named=False):
    """runs: list of (label, constants-overrides[, simulate spec]). One TLC process each (workers=1),
    model invariants + export in the same run (a violated model invariant is a machinery failure).
    named=False lists the single conjunction AllInv (cheaper: Final is evaluated once per state);
    named=True lists its parts separately so that a violated one is named."""
    from concurrent.futures import ThreadPoolExecutor
    from harness import tlc

    invs = (MODEL_INVS + ["Export"]) if named else ["AllInv"]

    def one(r):
        label, over = r[0], r[1]
        c = dict(BASE)
        c.update(over)
        if len(r) > 2 and r[2]:
            num, depth, seed = r[2]
            c["Lazy"] = True
            c["Tabs"] = {"gen"}
            return tlc.run("OpsMerge", tlc.cfg_text(c, invariants=invs), workers=1, timeout=timeout, xmx="2g",
                           allow_violation=False, simulate=f"num={num}", depth=depth, seed=seed)
        return tlc.run("OpsMerge", tlc.cfg_text(c, invariants=invs, properties=MODEL_PROPS), workers=1,
                       timeout=timeout, xmx="2g", allow_violation=False)

    lines = []
    with ThreadPoolExecutor(par) as ex:
        for r, res in zip(runs, ex.map(one, runs)):
            ck.add_tlc(res, r[0])
            lines += res.lines
    return lines


def variants_for(scn, profiles=("plain",)):
    vs = []
    s = len(json.dumps(scn, sort_keys=True))
    zero = any(ev["t"] == 0 for ev in scn["outer"])
    if scn["op"] == "merge_srcs":
        return [dict(outer="cold", profile=profiles[s % len(profiles)], inner_first=True, form="pipe", salt=s % 7),
                dict(outer="cold", profile=profiles[(s + 1) % len(profiles)], inner_first=True, form="factory", salt=s % 5,
                     resub=(scn["fl"] != "hot" and s % 2 == 0))]
    for n, ok in enumerate(("sync", "cold") if zero else ("hot", "cold")):
        prof = profiles[(s + n) % len(profiles)]
        if scn["fl"] == "hot":
            vs.append(dict(outer=ok, profile=prof, inner_first=True, form="pipe", salt=s % 7))
            vs.append(dict(outer=ok, profile=prof, inner_first=False, form="pipe", salt=s % 5))
        else:
            vs.append(dict(outer=ok, profile=prof, inner_first=bool((s + n) % 2), form="pipe", salt=s % 7))
    if scn["fl"] != "hot" and s % 2 == 0:
        vs.append(dict(outer="cold", profile=profiles[s % len(profiles)], inner_first=True, form="pipe", salt=s % 3, resub=True))
    return vs


def _job(args):
    scn, allowed, vs = args
    n, fails = 0, []
    for v in vs:
        f = judge(scn, allowed, v)
        if f == "n/a":
            continue
        n += 1
        if f:
            fails.append(f)
    return n, fails


def replay_groups(ck, groups, profiles=("plain",), procs=8):
    from harness import core
    jobs = [(scn, allowed, variants_for(scn, profiles)) for scn, allowed in groups]
    total = 0
    for n, fails in core.parallel_map(_job, jobs, procs=procs, chunk=100):
        total += n
        for f in fails:
            ck.fail(f)
    ck.impl += total
    return total


def deterministic_only(lines):
    """simulated behaviours: keep the scenarios in which no two lanes were ever due at the same instant (obs.amb = FALSE),
    i.e. whose single simulated outcome is the whole allowed set"""
    return [ln for ln in lines if not ln["obs"]["amb"]]


def nontrivial(scn, allowed) -> bool:
    """at least two inner subscriptions whose lifetimes overlap or queue, or an inner cut short"""
    o = allowed[0]
    subs = o["subs"]
    if len(subs) < 2:
        return False
    for a in range(len(subs)):
        for b in range(a + 1, len(subs)):
            if subs[b]["open"] < subs[a]["close"] or subs[b]["open"] == subs[a]["close"]:
                return True
    return False


def generic_replay(rec) -> int:
    f = judge(rec["scn"], rec["expected"], rec["variant"])
    print(json.dumps(f, default=str)[:3000] if f else "replay: observation allowed by the spec")
    return 1 if f else 0
