"""Binding A for OpsMerge.tla (C11 merging, C12 switching; growth: exclusive).

Python holds the codec only: the scenario exported by TLC (operator, max_concurrent, table of
inner timelines, flavour of the inner sources, outer timeline, mapper table, dispose instant) is
built on the real library - TestScheduler, cold / hot / synchronously-emitting test sources that
log their subscription intervals, the real operator, a recording observer - run, projected to
the record the model exports (timed output stream, terminal, per-inner subscription intervals,
outer subscription interval) and required to be one of the observations the model allows for
that scenario.  No operator semantics here."""
from __future__ import annotations

import json
import sys
from typing import Any, Dict, List, Optional, Tuple

NEVER = 999            # OpsMerge!NEVER
HOT_OFF = 2            # OpsMerge!HotOff (half ticks)
SUB_AT = 200           # virtual time of subscribe()
HALF = 5               # virtual-time units per model half tick
NEVER_T = sys.maxsize  # reactivex.testing.Subscription's "still subscribed"

MERGE_OPS = ["merge_all", "merge_mc", "merge_srcs", "flat_map", "flat_map_indexed", "concat_map"]
SWITCH_OPS = ["switch_latest", "switch_map", "switch_map_indexed", "flat_map_latest"]
MAPPED = {"flat_map", "concat_map", "switch_map", "flat_map_latest"}
INDEXED = {"flat_map_indexed", "switch_map_indexed"}

MODEL_INVS = ["Grammar", "Released", "ActiveOpen", "Concurrency", "NoIdleSlot", "Causal", "RefOut", "RefSubs",
              "ConcatOrdered", "OutVsSubs"]
MODEL_PROPS = ["LatestOnly"]


class FnErr(Exception):
    """raised by a scenario's mapper"""


class OuterErr(Exception):
    """the outer source's on_error value"""


class InnerErr(Exception):
    """an inner source's on_error value"""

    def __init__(self, idx: int):
        super().__init__(f"inner{idx}")
        self.idx = idx


def T(h: int) -> int:
    """model instant (half ticks after subscription) -> virtual time"""
    return SUB_AT + HALF * h


# ---- values ------------------------------------------------------------------------------------
# falsy profile (C08 dimension): pairwise distinguishable by (type, value), all falsy
FALSY = [None, 0, "", (), [], {}, 0.0, False, b"", set(), frozenset(), range(0), 0j]


def same(a: Any, b: Any) -> bool:
    return a is b or (type(a) is type(b) and a == b)


class Codec:
    """tokens <-> Python values. Element j of inner i is one value; outer tokens (mapped operators) are values too."""

    def __init__(self, tab: List[List[Dict[str, Any]]], profile: str, salt: int = 0):
        self.elem: Dict[Tuple[int, int], Any] = {}
        self.tok: Dict[int, Any] = {}
        n = 0
        for i, tl in enumerate(tab, start=1):
            for j, ev in enumerate(tl, start=1):
                if ev["k"] == "N":
                    if profile == "falsy":
                        self.elem[(i, j)] = FALSY[(n + salt) % len(FALSY)] if n < len(FALSY) else ("", n)
                    elif profile == "str":
                        self.elem[(i, j)] = f"i{i}e{j}"
                    else:
                        self.elem[(i, j)] = 100 * i + j
                    n += 1
        for v in range(1, len(tab) + 1):
            if profile == "falsy":
                self.tok[v] = FALSY[(v - 1 + salt) % len(FALSY)]
            elif profile == "str":
                self.tok[v] = f"tok{v}"
            else:
                self.tok[v] = 1000 + v
        self.outer_err = OuterErr("outer")
        self.inner_err = {i: InnerErr(i) for i in range(1, len(tab) + 1)}

    def elem_of(self, x: Any) -> Any:
        for key, v in self.elem.items():
            if same(v, x):
                return list(key)
        return ["?", repr(x)]

    def token_of(self, x: Any) -> int:
        for v, val in self.tok.items():
            if same(val, x):
                return v
        raise AssertionError(f"mapper called with a value that is not an outer element: {x!r}")

    def err_of(self, e: Any) -> Any:
        if e is self.outer_err:
            return ["outer", 0]
        if isinstance(e, FnErr):
            return ["fn", 0]
        for i, v in self.inner_err.items():
            if e is v:
                return ["inner", i]
        return ["?", repr(e)]


# ---- logging test sources of the codec -------------------------------------------------------------
# The library's own ColdObservable / HotObservable are used on TestScheduler.  Two things they cannot do are done by
# these equivalents: delivering the relative-time-0 messages inside subscribe() ("sync" flavour), and logging on a
# datetime clock (HistoricalScheduler).  `clock()` reads the scheduler's time in virtual-time units.
class Meter:
    """How many inner subscriptions are open at the same moment, at sub-instant resolution: an inner counts from its
    subscribe() until it is unsubscribed (dispose() of what subscribe() returned) - or, when it delivers its terminal
    notification while still inside its own subscribe() call (nothing to dispose exists yet), until that notification."""

    def __init__(self):
        self.cur = 0
        self.peak = 0

    def open(self):
        self.cur += 1
        self.peak = max(self.peak, self.cur)
        return [True]

    def close(self, token):
        if token[0]:
            token[0] = False
            self.cur -= 1


def make_log_cold(scheduler, messages, sync0: bool, clock, meter=None, handed: bool = False):
    """handed: the source has NO scheduler of its own (like reactivex.timer / delay / interval built without one): it
    schedules its events on the scheduler handed to subscribe(observer, scheduler=...). When none is handed it falls
    back to a default like the library's time-based sources do - here ImmediateScheduler instead of real timers, so
    the run stays deterministic: time-0 events are still delivered, a later event cannot be (WouldBlockException),
    i.e. a dropped subscribe-time scheduler shows up as missing/wrong virtual times."""
    from reactivex import Observable
    from reactivex.disposable import CompositeDisposable, Disposable
    from reactivex.scheduler import ImmediateScheduler

    class LogColdObservable(Observable):
        def __init__(self):
            super().__init__()
            self.subscriptions: List[Any] = []

        def _subscribe_core(self, observer=None, scheduler_=None):
            entry = _Sub(clock())
            self.subscriptions.append(entry)
            disp = CompositeDisposable()
            tok = meter.open() if meter else None
            inside = [True]     # still inside this subscribe() call

            def dispose() -> None:
                entry.unsubscribe = clock()
                if meter:
                    meter.close(tok)
                disp.dispose()

            def deliver(notification):
                if meter and notification.kind != "N" and inside[0]:
                    meter.close(tok)    # over before subscribe() returned: there is nothing the subscriber could dispose yet
                notification.accept(observer)

            def later(notification):
                def action(_s, _st=None):
                    deliver(notification)
                    return Disposable()
                return action

            sch = scheduler if not handed else (scheduler_ if scheduler_ is not None else ImmediateScheduler.singleton())
            for (t, is_zero, n) in messages:
                if sync0 and is_zero:
                    deliver(n)
                else:
                    disp.add(sch.schedule_relative(t, later(n)))
            inside[0] = False
            return Disposable(dispose)

    return LogColdObservable()


def make_log_hot(scheduler, messages, clock, meter=None):
    from reactivex import Observable
    from reactivex.disposable import Disposable

    class LogHotObservable(Observable):
        def __init__(self):
            super().__init__()
            self.subscriptions: List[Any] = []
            self.observers: List[Any] = []

            def fire(notification):
                def action(_s, _st=None):
                    for o in self.observers[:]:
                        notification.accept(o)
                    return Disposable()
                return action

            for (t, _z, n) in messages:
                scheduler.schedule_absolute(t, fire(n))

        def _subscribe_core(self, observer=None, scheduler_=None):
            self.observers.append(observer)
            entry = _Sub(clock())
            self.subscriptions.append(entry)
            tok = meter.open() if meter else None

            def dispose() -> None:
                self.observers.remove(observer)
                entry.unsubscribe = clock()
                if meter:
                    meter.close(tok)

            return Disposable(dispose)

    return LogHotObservable()


class _Sub:
    def __init__(self, start):
        self.subscribe, self.unsubscribe = start, NEVER_T


# ---- build + run -----------------------------------------------------------------------------------
RESUB_OFFSET = 1000
OVERLAP_OFFSET = 3


class World:
    """One virtual-time scheduler and the test sources on it. clock = "test": TestScheduler (float ticks) with the
    library's ColdObservable / HotObservable; clock = "hist": HistoricalScheduler (aware datetimes / timedeltas,
    1 virtual-time unit = 1 s) with the codec's logging sources."""

    def __init__(self, clock: str, own: bool = False):
        """own: use the codec's logging sources (metered) also where the library's test sources would do"""
        from datetime import datetime, timedelta, timezone
        self.own = own
        self.meter = Meter()
        self.metered = True   # stays True while every inner source created here is a metered one
        from reactivex.scheduler import HistoricalScheduler
        from reactivex.testing import TestScheduler
        self.kind = clock
        if clock == "hist":
            self.epoch = datetime(2021, 3, 4, 5, 6, 7, tzinfo=timezone.utc)
            self.s = HistoricalScheduler(self.epoch)
            self.abs = lambda t: self.epoch + timedelta(seconds=t)
            self.rel = lambda d: timedelta(seconds=d)
            self.now = lambda: round((self.s.now - self.epoch).total_seconds())
        else:
            self.s = TestScheduler()
            self.abs = lambda t: t
            self.rel = lambda d: d
            self.now = lambda: self.s.clock

    def _notes(self, msgs):
        from reactivex.notification import OnCompleted, OnError, OnNext
        return [(t, x if k == "raw" else OnNext(x) if k == "N" else OnCompleted() if k == "C" else OnError(x)) for (t, k, x) in msgs]

    def cold(self, msgs, sync0=False, inner=False, handed=False):
        from reactivex.testing.recorded import Recorded
        if handed:
            return make_log_cold(self.s, [(self.rel(t), t == 0, n) for t, n in self._notes(msgs)], sync0, self.now,
                                 self.meter if inner else None, handed=True)
        if self.kind == "test" and not sync0 and not self.own:
            if inner:
                self.metered = False
            return self.s.create_cold_observable([Recorded(t, n) for t, n in self._notes(msgs)])
        return make_log_cold(self.s, [(self.rel(t), t == 0, n) for t, n in self._notes(msgs)], sync0, self.now,
                             self.meter if inner else None)

    def hot(self, msgs, inner=False):
        from reactivex.testing.recorded import Recorded
        if self.kind == "test" and not self.own:
            if inner:
                self.metered = False
            return self.s.create_hot_observable([Recorded(t, n) for t, n in self._notes(msgs)])
        return make_log_hot(self.s, [(self.abs(t), False, n) for t, n in self._notes(msgs)], self.now,
                            self.meter if inner else None)

    def at(self, t, fn):
        self.s.schedule_absolute(self.abs(t), lambda *_: fn())

    def run(self):
        from reactivex.scheduler import VirtualTimeScheduler
        VirtualTimeScheduler.start(self.s)


def zero_time_complete(tl) -> bool:
    return bool(tl) and tl[-1]["k"] == "C" and all(ev["t"] == 0 for ev in tl)


def run_scenario(scn: Dict[str, Any], *, outer: str, profile: str, inner_first: bool = True, form: str = "pipe",
                 salt: int = 0, resub: bool = False, clock: str = "test", own: bool = False,
                 handed: bool = False) -> Optional[Dict[str, Any]]:
    """One real run. Returns None when the variant does not apply to the scenario.
    outer: "hot" | "cold" | "sync" - the kind of test source the outer timeline is played from.
    form:  "pipe"; merge(sources...): "factory" = reactivex.merge(...); flat_map family: "const" = the mapper argument is
           the inner observable itself (applies when the mapper table is constant), "iterable" = the mapper returns a
           list (applies when every inner is its elements at relative time 0 followed by completion).
    resub: two subscriptions of the same pipeline object (all sources cold, so each subscriber has its own replay of the
           scenario and must see an allowed observation of it; the returned observation is the second subscriber's, the
           first one's is under "first"):
           "seq"      second subscriber 1000 units later, long after the first run is over; both dispose at the
                      scenario's dispose instant (relative to their own subscription);
           "overlap"  second subscriber 3 units later - the two runs interleave, subscription logs are told apart by
                      the instants modulo 5 (all instants of a run are multiples of 5 after its subscription);
           "seq_free2" / "overlap_free2"  the scenario has a dispose instant: only the FIRST subscriber disposes there
                      (possibly with inners still queued), the second one is never disposed and must see an allowed
                      observation of the same scenario without dispose.
    clock: "test" (TestScheduler) | "hist" (HistoricalScheduler, datetime clock).
    handed: the cold / synchronously-emitting inner sources have no scheduler of their own: they run on the scheduler
           handed down to their subscribe() (the subscriber subscribes with scheduler=<the virtual-time scheduler>, so
           the operator has to pass it on to every inner subscription); same expectations as the cold flavour.
    own:   use the codec's metered logging sources instead of the library's test sources (then the observation has
           "peak": the largest number of inner subscriptions open at the same moment, at sub-instant resolution)."""
    import reactivex
    from reactivex import operators as ops

    outer_kind = outer
    outer_hot = outer_kind == "hot"
    op, tab, fl, outer, fmap, dsp, mc = scn["op"], scn["tab"], scn["fl"], scn["outer"], scn["fmap"], scn["dsp"], scn["mc"]
    if outer_hot and any(ev["t"] == 0 for ev in outer):
        return None  # a hot event at the very subscription instant is a tie with subscribe(); the model has it delivered
    if resub is True:
        resub = "seq"
    if resub and (outer_hot or fl == "hot"):
        return None
    if resub and resub.endswith("free2") and dsp == NEVER:
        return None
    fb = scn.get("fb", 0)
    if fb and (not outer_hot or resub or form != "pipe"):
        return None  # the fed-back inner is pushed through the subscribers of a hot outer source
    off = 0 if not resub else (OVERLAP_OFFSET if resub.startswith("overlap") else RESUB_OFFSET)
    ni = len(tab)
    cod = Codec(tab, profile, salt)
    w = World(clock, own)
    mapped = op in MAPPED or op in INDEXED
    logged = True       # the inner sources log their subscriptions
    if handed and (fl == "hot" or form != "pipe"):
        return None
    if form == "iterable":
        if not (mapped and fl == "cold" and all(zero_time_complete(tl) for tl in tab)):
            return None
        logged = False
    if form == "const":
        # every arrival is mapped to the same inner: flat_map(that_observable) must behave the same
        toks = [ev["v"] for ev in outer if ev["k"] == "N"]
        tgs = {fmap[(v - 1 + (i if op in INDEXED else 0)) % ni] for i, v in enumerate(toks)}
        if not (op in ("flat_map", "flat_map_indexed") and len(tgs) == 1 and 0 not in tgs):
            return None
        const_target = next(iter(tgs))

    def inner_msgs(i: int, tl, absolute: bool):
        ms = []
        for j, ev in enumerate(tl, start=1):
            t = T(HOT_OFF + ev["t"]) if absolute else HALF * ev["t"]
            ms.append((t, ev["k"], cod.elem[(i, j)] if ev["k"] == "N" else cod.inner_err[i] if ev["k"] == "E" else None))
        return ms

    def make_inners():
        out = {}
        for i, tl in enumerate(tab, start=1):
            if form == "iterable":
                out[i] = [cod.elem[(i, j)] for j, ev in enumerate(tl, start=1) if ev["k"] == "N"]
            elif fl == "hot":
                out[i] = w.hot(inner_msgs(i, tl, True), inner=True)
            else:
                out[i] = w.cold(inner_msgs(i, tl, False), sync0=(fl == "sync"), inner=True, handed=handed)
        return out

    inners: Dict[int, Any] = {}
    if inner_first:
        inners.update(make_inners())
    xs = None
    if op == "merge_srcs":
        if outer_kind != "cold":
            return None  # there is no outer test source: the outer is from_iterable(sources)
        if not inner_first:
            inners.update(make_inners())
    else:
        from reactivex.notification import OnNext
        ms = []
        cells = []
        for ev in outer:
            t = T(ev["t"]) if outer_hot else HALF * ev["t"]
            if ev["k"] == "N" and mapped:
                ms.append((t, "N", cod.tok[ev["v"]]))
            elif ev["k"] == "N":
                # unmapped operators get the inner sources themselves; when the inners are created after the outer
                # source the notification's value is filled in once they exist
                n = OnNext(inners.get(ev["v"]))
                cells.append((n, ev["v"]))
                ms.append((t, "raw", n))
            else:
                ms.append((t, ev["k"], cod.outer_err if ev["k"] == "E" else None))
        xs = w.hot(ms) if outer_hot else w.cold(ms, sync0=(outer_kind == "sync"))
        if not inner_first:
            inners.update(make_inners())
            for n, v in cells:
                n.value = inners[v]

    calls: List[Any] = []

    def mapper(x):
        v = cod.token_of(x)
        calls.append(v)
        tg = fmap[v - 1]
        if tg == 0:
            raise FnErr("fn")
        return inners[tg]

    def mapper_indexed(x, i):
        v = cod.token_of(x)
        calls.append((v, i))
        tg = fmap[(v - 1 + i) % ni]
        if tg == 0:
            raise FnErr("fn")
        return inners[tg]

    if op == "merge_srcs":
        srcs = [inners[ev["v"]] for ev in outer if ev["k"] == "N"]
        if form == "pipe":
            if not srcs:
                return None
            ys = srcs[0].pipe(ops.merge(*srcs[1:]))
        elif form == "factory":
            ys = reactivex.merge(*srcs)
        else:
            return None
    else:
        if form == "const":
            o = ops.flat_map(inners[const_target]) if op == "flat_map" else ops.flat_map_indexed(inners[const_target])
        elif form not in ("pipe", "iterable"):
            return None
        elif op == "merge_all":
            o = ops.merge_all()
        elif op == "merge_mc":
            o = ops.merge(max_concurrent=mc)
        elif op == "flat_map":
            o = ops.flat_map(mapper)
        elif op == "flat_map_indexed":
            o = ops.flat_map_indexed(mapper_indexed)
        elif op == "concat_map":
            o = ops.concat_map(mapper)
        elif op == "switch_latest":
            o = ops.switch_latest()
        elif op == "switch_map":
            o = ops.switch_map(mapper)
        elif op == "switch_map_indexed":
            o = ops.switch_map_indexed(mapper_indexed)
        elif op == "flat_map_latest":
            o = ops.flat_map_latest(mapper)
        elif op == "exclusive":
            o = ops.exclusive()
        else:
            raise ValueError(op)
        if form == "iterable" and op in ("concat_map", "switch_map", "switch_map_indexed", "flat_map_latest"):
            # these take observables only; the list goes through from_iterable in the mapper
            base, base_i = mapper, mapper_indexed
            if op == "switch_map_indexed":
                o = ops.switch_map_indexed(lambda x, i: reactivex.from_iterable(base_i(x, i)))
            else:
                o = getattr(ops, op)(lambda x: reactivex.from_iterable(base(x)))
        ys = xs.pipe(o)
    if scn.get("take"):
        ys = ys.pipe(ops.take(scn["take"]))

    rec: List[Tuple[float, str, Any]] = []
    rec1: List[Tuple[float, str, Any]] = []
    holder: Dict[str, Any] = {}

    def sink_next(into):
        def on_next(v):
            into.append((w.now(), "N", v))
            if fb and sum(1 for r in into if r[1] == "N") == fb:
                # feedback: from inside this notification the outer delivers one more inner to whoever listens to it
                val = cod.tok[scn["fbv"]] if mapped else inners[scn["fbv"]]
                for o in list(xs.observers):
                    o.on_next(val)
        return on_next

    def subscriber(into, key):
        def go():
            holder[key] = ys.subscribe(on_next=sink_next(into),
                                       on_error=lambda e: into.append((w.now(), "E", e)),
                                       on_completed=lambda: into.append((w.now(), "C", None)), scheduler=w.s)
        return go

    if resub:
        w.at(SUB_AT, subscriber(rec1, "d1"))
        if dsp != NEVER:
            w.at(T(dsp), lambda: holder["d1"].dispose())
    w.at(SUB_AT + off, subscriber(rec, "d"))
    if dsp != NEVER and not (resub and resub.endswith("free2")):
        w.at(T(dsp) + off, lambda: holder["d"].dispose())
    escaped = None
    try:
        w.run()
    except Exception as e:  # an exception that escaped into the scheduler / the emitter
        escaped = e

    def decode(records, shift):
        res = []
        for (t, k, v) in records:
            t = t - shift
            res.append([t, "N", cod.elem_of(v)] if k == "N" else [t, "E", cod.err_of(v)] if k == "E" else [t, "C", None])
        return res

    def mine(sub, second: bool) -> bool:
        """does this logged subscription belong to the second (True) / first (False) subscriber?"""
        if not resub:
            return second
        if off == RESUB_OFFSET:
            return (sub.subscribe >= SUB_AT + off) == second
        return ((round(sub.subscribe) - SUB_AT) % HALF == OVERLAP_OFFSET) == second

    def logs(second: bool):
        shift = off if second else 0
        unshift = lambda x: x if x == NEVER_T else x - shift
        sb = None
        if logged:
            sb = {str(i): [[s_.subscribe - shift, unshift(s_.unsubscribe)] for s_ in inners[i].subscriptions if mine(s_, second)]
                  for i in sorted(inners)}
        ob = None if xs is None else [[s_.subscribe - shift, unshift(s_.unsubscribe)] for s_ in xs.subscriptions if mine(s_, second)]
        return sb, ob

    out = decode(rec, off)
    subs, osub = logs(True)
    first = None
    if resub:
        s1, o1 = logs(False)
        first = {"out": decode(rec1, 0), "subs": s1, "osub": o1, "escaped": None if escaped is None else repr(escaped)}
    # fed-back arrivals can replace an inner that is still inside its own subscribe(): what "open" means then is not
    # something the sources can observe - peak not compared there
    peak = w.meter.peak if (w.metered and logged and not resub and not fb) else None
    return {"out": out, "subs": subs, "osub": osub, "escaped": None if escaped is None else repr(escaped), "calls": calls,
            "first": first, "peak": peak}


# ---- the model's observation in the same shape -------------------------------------------------------
def _ct(h: int) -> int:
    return NEVER_T if h == NEVER else T(h)


def expected(scn: Dict[str, Any], obs: Dict[str, Any]) -> Dict[str, Any]:
    out = []
    for r in obs["out"]:
        if r["k"] == "N":
            out.append([T(r["t"]), "N", [r["i"], r["j"]]])
        elif r["k"] == "E":
            out.append([T(r["t"]), "E", [r["e"], r["i"]]])
        else:
            out.append([T(r["t"]), "C", None])
    subs: Dict[str, List[List[int]]] = {str(i): [] for i in range(1, len(scn["tab"]) + 1)}
    for s in obs["subs"]:
        subs[str(s["idx"])].append([T(s["open"]), _ct(s["close"])])
    osub = None if scn["op"] == "merge_srcs" else [[SUB_AT, _ct(obs["osub"])]]
    return {"out": out, "subs": subs, "osub": osub, "peak": obs.get("peak")}


def _eq_out(a, b) -> bool:
    return len(a) == len(b) and all(x[0] == y[0] and x[1] == y[1] and x[2] == y[2] for x, y in zip(a, b))


def diff(exp: Dict[str, Any], got: Dict[str, Any]) -> Optional[str]:
    """None when the real run equals this allowed observation on the asserted projection."""
    if got["escaped"] is not None:
        return "escaped"
    if not _eq_out(exp["out"], got["out"]):
        return "out"
    if got["subs"] is not None and exp["subs"] != got["subs"]:
        return "subs"
    if exp["osub"] is not None and exp["osub"] != got["osub"]:
        return "osub"
    if got.get("peak") is not None and exp.get("peak") is not None and exp["peak"] != got["peak"]:
        return "peak"   # more (or fewer) inner subscriptions open at the same moment than the model has for this outcome
    return None


def witness(scn, exps, got) -> Dict[str, Any]:
    """Facts about a failing run that known-finding entries may refer to (kept narrow on purpose)."""
    w: Dict[str, Any] = {}
    kinds = sorted({diff(e, got) for e in exps})
    w["reason_kinds"] = kinds
    # the output stream is allowed and only subscription intervals differ
    w["out_allowed"] = any(_eq_out(e["out"], got["out"]) for e in exps) and got["escaped"] is None
    leaks = []
    for e in exps:
        if _eq_out(e["out"], got["out"]):
            for i, lst in (got["subs"] or {}).items():
                for n, iv in enumerate(lst):
                    ev = e["subs"].get(i, [])
                    if n < len(ev) and ev[n][0] == iv[0] and iv[1] > ev[n][1]:
                        leaks.append(i)
    w["late_unsubscribe"] = bool(leaks)
    # inner sources subscribed (and unsubscribed in the same instant) after the result had already ended: the real log is
    # an allowed log plus entries [Tend, Tend], Tend = instant of the terminal notification
    after = False
    if got["out"] and got["out"][-1][1] != "N" and got["subs"] is not None:
        tend = got["out"][-1][0]
        for e in exps:
            if not _eq_out(e["out"], got["out"]) or (e["osub"] is not None and e["osub"] != got["osub"]):
                continue
            extra = 0
            ok = True
            for i, lst in got["subs"].items():
                ev = e["subs"].get(i, [])
                if lst[:len(ev)] != ev or any(iv != [tend, tend] for iv in lst[len(ev):]):
                    ok = False
                extra += len(lst) - len(ev)
            after = after or (ok and extra > 0)
    w["subscribed_after_end"] = after
    w["ended_at_subscription_instant"] = bool(got["out"]) and got["out"][-1][1] != "N" and got["out"][-1][0] == SUB_AT
    got_k = [x[1] for x in got["out"]]
    w["observed_terminal"] = got_k[-1] if got_k and got_k[-1] != "N" else "none"
    w["expected_terminals"] = sorted({(e["out"][-1][1] if e["out"] and e["out"][-1][1] != "N" else "none") for e in exps})
    return w


def _judge_one(scn, allowed, got, variant, who):
    exps = [expected(scn, o) for o in allowed]
    reasons = []
    for e in exps:
        r = diff(e, got)
        if r is None:
            return None
        reasons.append(r)
    rk = "escaped" if "escaped" in reasons else ("out" if all(r == "out" for r in reasons) else
                                                  ("subs" if "subs" in reasons else reasons[0]))
    rec = {"engine": "opsmerge", "op": scn["op"], "mc": scn["mc"], "fl": scn["fl"], "reason_kind": rk, "scn": scn,
           "expected": allowed, "expected_decoded": exps[:4], "observed": {k: v for k, v in got.items() if k != "first"},
           "variant": variant, "subscriber": who,
           "has_fault": 0 in scn["fmap"], "disposed": scn["dsp"] != NEVER, "take": scn.get("take", 0)}
    rec.update(witness(scn, exps, got))
    if variant.get("outer") == "sync" and rec["subscribed_after_end"] and rec["ended_at_subscription_instant"]:
        # The sync outer source emits its whole time-0 timeline inside subscribe(), before anybody holds a handle on the
        # subscription. When the result ends in the middle of that (an inner erroring at subscription, take(k)), the rest
        # of the timeline still reaches the operator and is subscribed and dropped at once; no operator can prevent it.
        # Harness-induced (DESIGN 3.5): tolerated for this variant only; the same scenario is also run with a cold outer.
        return "tolerated"
    return rec


def judge(scn: Dict[str, Any], allowed: List[Dict[str, Any]], variant: Dict[str, Any], allowed_free=None):
    """'n/a' | None (allowed) | 'tolerated' | failure record.
    allowed_free: the allowed observations of the same scenario without dispose (needed by the *_free2 protocols, where
    the second subscriber is never disposed)."""
    mode = variant.get("resub")
    free2 = isinstance(mode, str) and mode.endswith("free2")
    if free2 and allowed_free is None:
        return "n/a"
    got = run_scenario(scn, **variant)
    if got is None:
        return "n/a"
    verdicts = []
    if got.get("first") is not None:
        verdicts.append(_judge_one(scn, allowed, got["first"], variant, "first"))
    if free2:
        scn2 = dict(scn, dsp=NEVER)
        verdicts.append(_judge_one(scn2, allowed_free, got, variant, "second (never disposed)"))
    else:
        verdicts.append(_judge_one(scn, allowed, got, variant, "second" if got.get("first") is not None else "only"))
    for v in verdicts:
        if isinstance(v, dict):
            # what --replay needs to repeat exactly this run (the record's own scn/expected describe the failing subscriber)
            v["replay"] = {"scn": scn, "expected": allowed, "expected_free": allowed_free, "variant": variant}
            return v
    return "tolerated" if "tolerated" in verdicts else None


# ---- drivers shared by C11 / C12 -------------------------------------------------------------------
BASE = dict(Ops=set(), MCs={1, 2}, Tabs={"plain"}, Flavours={"cold"}, MaxOuter=3, OTimes={1, 2, 3}, OTermTimes={1, 2, 3, 5},
            OTerms={"C", "E", "U"}, DspTicks=set(), Takes=set(), Fbs=set(), Faults=False, FAll=False, RG=True, GenN=2, GenLen=2, GenTimes={0, 1},
            Lazy=False, Slices={"cfg"})


def export_runs(ck, runs, timeout=1500, par=4, named=False):
    """runs: list of (label, constants-overrides[, simulate spec]). One TLC process each (workers=1),
    model invariants + export in the same run (a violated model invariant is a machinery failure).
    named=False lists the single conjunction AllInv (cheaper: Final is evaluated once per state);
    named=True lists its parts separately so that a violated one is named."""
    from concurrent.futures import ThreadPoolExecutor
    from harness import tlc

    invs = (MODEL_INVS + ["Export"]) if named else ["AllInv"]

    def one(r):
        label, over = r[0], r[1]
        c = dict(BASE)
        c.update(over)
        if len(r) > 2 and r[2]:
            num, depth, seed = r[2]
            c["Lazy"] = True
            c["Tabs"] = {"gen"}
            return tlc.run("OpsMerge", tlc.cfg_text(c, invariants=invs), workers=1, timeout=timeout, xmx="2g",
                           allow_violation=False, simulate=f"num={num}", depth=depth, seed=seed)
        return tlc.run("OpsMerge", tlc.cfg_text(c, invariants=invs, properties=MODEL_PROPS), workers=1,
                       timeout=timeout, xmx="2g", allow_violation=False)

    lines = []
    with ThreadPoolExecutor(par) as ex:
        for r, res in zip(runs, ex.map(one, runs)):
            ck.add_tlc(res, r[0])
            lines += res.lines
    return lines


def variants_for(scn, profiles=("plain",), light=False):
    """The real runs made for one scenario. light (thorough tier, where scenarios are many): one base run plus the
    special protocols on a hash-selected fraction."""
    vs = []
    s = len(json.dumps(scn, sort_keys=True))
    zero = any(ev["t"] == 0 for ev in scn["outer"])
    prof = lambda n: profiles[(s + n) % len(profiles)]
    if scn.get("fb"):
        return [dict(outer="hot", profile=prof(0), inner_first=True, form="pipe", salt=s % 7),
                dict(outer="hot", profile=prof(1), inner_first=False, form="pipe", salt=s % 5, own=True)][:(1 if light else 2)]
    if scn["op"] == "merge_srcs":
        vs = [dict(outer="cold", profile=prof(0), inner_first=True, form="pipe", salt=s % 7),
              dict(outer="cold", profile=prof(1), inner_first=True, form="factory", salt=s % 5,
                   resub=("seq" if scn["fl"] != "hot" and s % 2 == 0 else False))]
        if light or scn["fl"] == "hot":
            return vs[s % 2:][:1] if light else vs
        return [dict(outer="cold", profile=prof(1), inner_first=True, form="pipe", salt=s % 3, handed=True)] + vs
    kinds = ("sync", "cold") if zero else ("hot", "cold")
    if light:
        kinds = kinds[s % 2:][:1]
    for n, ok in enumerate(kinds):
        if scn["fl"] == "hot":
            vs.append(dict(outer=ok, profile=prof(n), inner_first=True, form="pipe", salt=s % 7))
            if not light or s % 3 == 0:
                vs.append(dict(outer=ok, profile=prof(n), inner_first=False, form="pipe", salt=s % 5))
        else:
            vs.append(dict(outer=ok, profile=prof(n), inner_first=bool((s + n) % 2), form="pipe", salt=s % 7))
    k = 4 if light else 1
    if scn["fl"] != "hot" and (not light or s % 2 == 0):
        # inner sources without a scheduler of their own: they run on the scheduler handed to their subscribe()
        vs.append(dict(outer=kinds[-1], profile=prof(1), inner_first=bool(s % 2), form="pipe", salt=s % 3, handed=True))
    if scn["fl"] != "sync" and (not light or s % 3 == 2):
        # metered sources: how many inner subscriptions are open at the same moment (sync flavour is always metered)
        vs.append(dict(outer=kinds[-1], profile=prof(2), inner_first=bool(s % 2), form="pipe", salt=s % 3, own=True))
    if scn["fl"] != "hot":
        # a second subscription of the same pipeline object
        if s % (2 * k) == 0:
            vs.append(dict(outer="cold", profile=prof(0), inner_first=True, form="pipe", salt=s % 3, resub="seq"))
        if s % (2 * k) == 1 or scn["op"] in ("merge_mc", "concat_map"):
            if not light or s % 3 == 1:
                vs.append(dict(outer="cold", profile=prof(1), inner_first=True, form="pipe", salt=s % 3, resub="overlap"))
        if scn["dsp"] != NEVER and (not light or s % 2 == 0):
            # the first subscriber disposes (maybe with inners queued), the second one runs on
            vs.append(dict(outer="cold", profile=prof(0), inner_first=True, form="pipe", salt=s % 3,
                           resub=("overlap_free2" if s % 2 else "seq_free2")))
            if scn["op"] in ("merge_mc", "concat_map") and not light:
                vs.append(dict(outer="cold", profile=prof(0), inner_first=True, form="pipe", salt=s % 3,
                               resub=("seq_free2" if s % 2 else "overlap_free2")))
    if s % (3 * k) == 0:   # the same on a datetime clock
        vs.append(dict(outer=("cold" if zero or s % 2 else "hot"), profile=prof(0), inner_first=bool(s % 2),
                       form="pipe", salt=s % 3, clock="hist"))
    if scn["op"] in MAPPED or scn["op"] in INDEXED:
        # other call forms of the flat_map family (run_scenario says "n/a" where they do not apply)
        vs.append(dict(outer="cold", profile=prof(0), inner_first=True, form="iterable", salt=s % 3))
        vs.append(dict(outer="hot", profile=prof(0), inner_first=True, form="const", salt=s % 3))
    return vs


def _job(args):
    scn, allowed, vs, allowed_free = args
    n, fails = 0, []
    for v in vs:
        f = judge(scn, allowed, v, allowed_free)
        if f == "n/a":
            continue
        n += 1
        if f == "tolerated":
            fails.append("tolerated")
        elif f:
            fails.append(f)
    return n, fails


def make_jobs(groups, profiles=("plain",), light=False):
    """pairs every scenario that has a dispose instant with the allowed set of its twin without dispose"""
    free = {}
    for scn, allowed in groups:
        if scn["dsp"] == NEVER:
            free[json.dumps(scn, sort_keys=True)] = allowed
    jobs = []
    for scn, allowed in groups:
        twin = None
        if scn["dsp"] != NEVER:
            twin = free.get(json.dumps(dict(scn, dsp=NEVER), sort_keys=True))
        jobs.append((scn, allowed, variants_for(scn, profiles, light), twin))
    return jobs


def replay_groups(ck, groups, profiles=("plain",), procs=8, light=False):
    from harness import core
    jobs = make_jobs(groups, profiles, light)
    total = 0
    tolerated = 0
    for n, fails in core.parallel_map(_job, jobs, procs=procs, chunk=100):
        total += n
        for f in fails:
            if f == "tolerated":
                tolerated += 1
            else:
                ck.fail(f)
    ck.impl += total
    ck.note("sync_outer_subscribed_after_end_tolerated", tolerated)
    return total


def deterministic_only(lines):
    """simulated behaviours: keep the scenarios in which no two lanes were ever due at the same instant (obs.amb = FALSE),
    i.e. whose single simulated outcome is the whole allowed set"""
    return [ln for ln in lines if not ln["obs"]["amb"]]


def binding_selftest(ck, groups, n=25):
    """The comparator must reject a corrupted observation: for a few scenarios the real observation is altered (last
    notification dropped / an unsubscription instant moved / an element re-attributed) and must then be outside the
    allowed set. A comparator that accepts one is a machinery failure."""
    import copy
    done = 0
    for scn, allowed in groups:
        if done >= n:
            break
        if not allowed[0]["out"] or not allowed[0]["subs"]:
            continue
        v = variants_for(scn)[-1] if scn["op"] == "merge_srcs" else dict(outer="cold", profile="plain")
        got = run_scenario(scn, **v)
        if got is None:
            continue
        exps = [expected(scn, o) for o in allowed]
        if any(diff(e, got) is None for e in exps) is False:
            continue  # a real failure: reported by the replay itself
        muts = []
        g1 = copy.deepcopy(got); g1["out"].pop(); muts.append(g1)
        g2 = copy.deepcopy(got)
        for lst in g2["subs"].values():
            if lst:
                lst[0][1] = lst[0][1] + 1 if lst[0][1] != NEVER_T else lst[0][0]
                break
        muts.append(g2)
        g3 = copy.deepcopy(got)
        for r in g3["out"]:
            if r[1] == "N":
                r[2] = [r[2][0], r[2][1] + 1]
                break
        else:
            g3["out"].append([g3["out"][-1][0], "C", None])
        muts.append(g3)
        for m in muts:
            if any(diff(e, m) is None for e in exps):
                raise AssertionError(f"binding self-test: corrupted observation accepted for {json.dumps(scn)[:300]}")
        done += 1
    ck.note("binding_selftest_scenarios", done)
    if done == 0:
        raise AssertionError("binding self-test found no scenario to corrupt")


def nontrivial(scn, allowed) -> bool:
    """at least two inner subscriptions whose lifetimes overlap or queue, or an inner cut short"""
    o = allowed[0]
    subs = o["subs"]
    if len(subs) < 2:
        return False
    for a in range(len(subs)):
        for b in range(a + 1, len(subs)):
            if subs[b]["open"] < subs[a]["close"] or subs[b]["open"] == subs[a]["close"]:
                return True
    return False


def generic_replay(rec) -> int:
    r = rec.get("replay") or {"scn": rec["scn"], "expected": rec["expected"], "expected_free": None, "variant": rec["variant"]}
    f = judge(r["scn"], r["expected"], r["variant"], r.get("expected_free"))
    if f == "tolerated":
        f = None
    if f:
        f.pop("replay", None)
    print(json.dumps(f, default=str)[:3000] if f else "replay: observation allowed by the spec")
    return 1 if f else 0
