"""C22 - see META.  Spec: spec/SubjectsReplay.tla; Binding A on virtual time (props/subjects_common.py)."""
from props import subjects_common as sc


def run(tier):
    return sc.run_replay("C22", tier)


replay = sc.replay_replay

META = {'technique': 'TLC-enumerated timed call histories x (buffer_size, window) of SubjectsReplay.tla (incremental trim checked against the retained-values reference in the model) replayed on the real ReplaySubject on TestScheduler and HistoricalScheduler',
        'level': 'SubjectsReplay.tla keeps the trimmed queue the way the code does (count trim at a write, pop-from-head age trim at write and subscription) next to the full write history, and TLC checks on every state that the queue holds exactly the last buffer_size values whose age is within the window (RetainedOK), that delivered + pending of every subscriber is exactly retained-at-subscription, then the terminal if one had occurred, then every later notification (FedOK, ReplayThenLive, Complete, NoDuplicates), silence after unsubscription and DisposedRaises; deliveries go through a per-subscriber scheduled queue whose interleaving across subscribers is left open. Every enumerated history (writes, subscriptions, unsubscriptions, scheduler runs and clock advances, including subscription at the instant of a write and ages equal to the window; buffer_size 0..3 and None; windows 0..2 and None; callbacks that unsubscribe, emit, complete or subscribe) is performed on a real ReplaySubject on both clock kinds and the per-subscriber logs must be accepted wherever the scheduler has run. Exhaustive up to the stated call budget, simulated beyond it.',
        'note': 'TLC 1.8; the codec of props/subjects_common.py; TestScheduler / HistoricalScheduler (verified by C28)',
        'ref': 'DESIGN.md 6 C22, D.8'}
