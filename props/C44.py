"""C44 - an operator function object applied to many sources behaves as fresh operators per source.
Model-checked parts:
  (1) Connectable.tla with NApps >= 2: ONE multicasting operator object (publish, publish_value,
      replay, ref_count, share, mapper forms; auto_connect on a shared publish) applied to several
      sources whose subscribe/unsubscribe/connect/disconnect commands interleave; TLC checks the
      C24 invariants per application and Independent (combined run == run of each application's own
      commands alone); every history is performed with one real operator object.
  (2) Reuse.tla: one element-wise / aggregate operator object (65 factories of Ops1.tla) applied to
      several sources subscribed at staggered instants; TLC checks Ops1's invariants per application
      and Independent; every scenario is performed with one real operator object.
Differential part (labelled as such, no operator model): (3) further factories - one operator object
shared by all sources versus a fresh operator per source on the same scenario, observations equal."""
from __future__ import annotations

import json
import random
import time
from concurrent.futures import ThreadPoolExecutor

from harness import core, tlc
from props import connect_common as cc
from props import ops1_common as oc

CINVS = ["Grammar", "OnePerConnection", "OnlyWhileConnected", "RefCountEdges", "AutoRule", "MapperRule", "RefOK", "Independent"]
RINVS = ["PerApp", "Independent"]
JVM = None   # harness/tlc.py keeps the JVM thread count low itself
ALLSK = {"plain", "behavior", "replay"}
OPS1 = [o for g in oc.ELEMENTWISE + oc.AGGREGATES for o in g]


def _cc(**kw):
    base = dict(NApps=2, NSubs=2, MaxSteps=2, TEnd=4, MaxGap=1, SKs=ALLSK, Bs={99}, Ws={99}, Wrs={"none", "ref_count", "auto"},
                Ns={0, 1, 2}, Mps={"none", "id", "take1"}, SrcIds={1}, GenLen=0, Hots={False}, Ties={"src", "cmd"}, ReUnsub=False,
                StaleDisc=False, Modes={"all"}, MinLen=0)
    base.update(kw)
    return base


def _rc(ops, **kw):
    base = dict(NVals=2, MaxLen=3, Ops=set(ops), Terms={"C", "E", "U"}, Faults=False, NApps=2, SrcIds={1, 2}, TermRows={2},
                StartRows={2})
    base.update(kw)
    return base


def plan(tier):
    """[(module, label, constants, invariants, properties, simulate, depth)]"""
    third, half = len(OPS1) // 3, len(OPS1) // 2
    if tier == "quick":
        return [("Connectable", "2 applications, 2 steps", _cc(), CINVS, [], None, None),
                ("Connectable", "2 applications, simulate", _cc(NSubs=3, MaxSteps=5, MinLen=3, MaxGap=2, Bs={1, 99}, Ws={2, 99},
                                                               Ns={0, 1, 2}, Mps={"none", "id", "dup", "take1"}, SrcIds={1, 3, 7},
                                                               Hots={True, False}, ReUnsub=True, Modes={"all", "once"}), CINVS, [], "num=400", 7),
                ("Reuse", "2 applications, operators A", _rc(OPS1[:half]), RINVS, ["Monotone"], None, None),
                ("Reuse", "2 applications, operators B", _rc(OPS1[half:]), RINVS, ["Monotone"], None, None)]
    n = 5000
    deep = dict(NSubs=3, MaxSteps=7, MinLen=4, MaxGap=2, Bs={0, 1, 2, 99}, Ws={1, 2, 99}, Ns={0, 1, 2, 3},
                Mps={"none", "id", "dup", "take1"}, SrcIds={1, 3, 5, 7, 8}, Hots={True, False}, ReUnsub=True, StaleDisc=True, Modes={"all", "once"})
    rk = dict(TermRows={1, 2, 3}, StartRows={1, 2, 3})
    return [("Connectable", "2 applications, 3 steps", _cc(MaxSteps=3, MaxGap=1, Bs={1, 99}), CINVS, [], None, None),
            ("Connectable", "2 applications, simulate", _cc(**deep), CINVS, [], f"num={n}", 9),
            ("Connectable", "3 applications, simulate", _cc(NApps=3, **dict(deep, SrcIds={1, 3, 7})), CINVS, [], f"num={n}", 9),
            ("Reuse", "2 applications, operators A", _rc(OPS1[:third], **rk), RINVS, ["Monotone"], None, None),
            ("Reuse", "2 applications, operators B", _rc(OPS1[third:2 * third], **rk), RINVS, ["Monotone"], None, None),
            ("Reuse", "2 applications, operators C", _rc(OPS1[2 * third:], **rk), RINVS, ["Monotone"], None, None),
            ("Reuse", "3 applications", _rc(OPS1, NApps=3, SrcIds={1, 3}, TermRows={2, 4}, StartRows={2, 5}), RINVS, ["Monotone"],
             None, None),
            ("Reuse", "2 applications, raising user functions", _rc(OPS1, Faults=True, TermRows={1}), RINVS, ["Monotone"], None, None)]


# ---- (1) multicasting operators ---------------------------------------------------------------------------
def _cjob(args):
    idx, scn, allowed = args
    napps = len(cc.seq(scn["src"]))
    out, n, other = [], 0, []
    forms = cc.forms_for(scn["kind"], scn["tie"], napps, cc.has_once(scn))
    vs = [dict(form=f, profile="plain", salt=idx % 2, stride=10) for f in forms]
    if idx % 2:
        vs.append(dict(form=forms[idx % len(forms)], profile="falsy", salt=idx % 5, stride=3))
    for v in vs:
        n += 1
        f = cc.judge(scn, allowed, shared=True, **v)
        if f:
            # C44 is about leaks between applications: a deviation from the model that every application
            # shows identically when it runs alone on the real library belongs to C24, not here
            if not cc.leaks(scn, f["observed"], **v):
                other.append({k: f[k] for k in ("sk", "wr", "mp", "n", "form", "reason_kind")})
                continue
            # witness for known findings: does a fresh operator object per source behave as the model says?
            f["fresh_ok"] = cc.judge(scn, allowed, shared=False, **v) is None
            f["property"] = "C44"
            out.append(f)
    return n, out, other


# ---- (2) element-wise / aggregate operators -------------------------------------------------------------------
def _rjob(args):
    idx, scn, allowed = args
    out, n, other = [], 0, []
    vs = [dict(order="fwd", hot=False, profile="plain", salt=idx % 2), dict(order="rev", hot=bool(idx % 2), profile="falsy", salt=idx % 3)]
    for v in vs:
        f = cc.reuse_judge(scn, allowed, k=2, **v)
        if f == "n/a":
            continue
        n += 1
        if f and not f["leaks"]:
            other.append({"op": f["op"], "reason_kind": f["reason_kind"]})    # every application alone deviates the same way
        elif f:
            out.append(f)
    return n, out, other


# ---- (3) differential: factories without a model here ----------------------------------------------------------
def diff_factories():
    """name -> (thunk making the operator under test, optional fresh post-processing operator)."""
    import reactivex
    from reactivex import operators as ops

    def other(ts):
        from reactivex.testing import ReactiveTest as R
        return ts.create_cold_observable(R.on_next(12, "o1"), R.on_next(34, "o2"), R.on_completed(47))

    flat_lists = lambda: ops.flat_map(lambda w: w.pipe(ops.to_list()))
    F = {
        "delay": lambda ts: ops.delay(7), "delay_subscription": lambda ts: ops.delay_subscription(5),
        "debounce": lambda ts: ops.debounce(6), "throttle_first": lambda ts: ops.throttle_first(15),
        "throttle_with_mapper": lambda ts: ops.throttle_with_mapper(lambda v: reactivex.timer(4)),
        "sample": lambda ts: ops.sample(12), "sample_obs": lambda ts: ops.sample(other(ts)),
        "timestamp": lambda ts: ops.timestamp(), "time_interval": lambda ts: ops.time_interval(),
        "timeout": lambda ts: ops.timeout(25), "timeout_other": lambda ts: ops.timeout(15, other(ts)),
        "take_with_time": lambda ts: ops.take_with_time(25), "skip_with_time": lambda ts: ops.skip_with_time(15),
        "take_last_with_time": lambda ts: ops.take_last_with_time(25), "skip_last_with_time": lambda ts: ops.skip_last_with_time(15),
        "take_until_with_time": lambda ts: ops.take_until_with_time(25), "skip_until_with_time": lambda ts: ops.skip_until_with_time(15),
        "buffer_with_count": lambda ts: ops.buffer_with_count(2), "buffer_with_count_skip": lambda ts: ops.buffer_with_count(2, 1),
        "buffer_with_time": lambda ts: ops.buffer_with_time(20), "buffer_with_time_or_count": lambda ts: ops.buffer_with_time_or_count(25, 2),
        "buffer_boundaries": lambda ts: ops.buffer(other(ts)),
        "window_with_count": lambda ts: (ops.window_with_count(2), flat_lists()),
        "window_with_time": lambda ts: (ops.window_with_time(20), flat_lists()),
        "window_boundaries": lambda ts: (ops.window(other(ts)), flat_lists()),
        "group_by": lambda ts: (ops.group_by(lambda v: str(v)[-1] in "02468"),
                                ops.flat_map(lambda g: g.pipe(ops.to_list(), ops.map(lambda l: (g.key, l))))),
        "do_action": lambda ts: ops.do_action(lambda v: None), "finally_action": lambda ts: ops.finally_action(lambda: None),
        "retry": lambda ts: ops.retry(2), "repeat": lambda ts: ops.repeat(2),
        "catch": lambda ts: ops.catch(other(ts)), "catch_handler": lambda ts: ops.catch(lambda e, s: other(ts)),
        "on_error_resume_next": lambda ts: ops.on_error_resume_next(other(ts)),
        "concat": lambda ts: ops.concat(other(ts)), "merge": lambda ts: ops.merge(other(ts)), "zip": lambda ts: ops.zip(other(ts)),
        "zip_with_iterable": lambda ts: ops.zip_with_iterable(["i1", "i2", "i3"]),
        "combine_latest": lambda ts: ops.combine_latest(other(ts)), "with_latest_from": lambda ts: ops.with_latest_from(other(ts)),
        "amb": lambda ts: ops.amb(other(ts)), "take_until": lambda ts: ops.take_until(other(ts)),
        "skip_until": lambda ts: ops.skip_until(other(ts)), "sequence_equal": lambda ts: ops.sequence_equal(other(ts)),
        "flat_map": lambda ts: ops.flat_map(lambda v: reactivex.of(v, v)), "concat_map": lambda ts: ops.concat_map(lambda v: reactivex.of(v, v)),
        "switch_map": lambda ts: ops.flat_map_latest(lambda v: reactivex.timer(3).pipe(ops.map(lambda _: v))),
        "flat_map_indexed": lambda ts: ops.flat_map_indexed(lambda v, i: reactivex.of((i, v))),
        "merge_all": lambda ts: (ops.map(lambda v: reactivex.of(v)), ops.merge_all()),
        "switch_latest": lambda ts: (ops.map(lambda v: reactivex.of(v)), ops.switch_latest()),
        "exclusive": lambda ts: (ops.map(lambda v: reactivex.of(v)), ops.exclusive()),
        "merge_max": lambda ts: (ops.map(lambda v: reactivex.of(v)), ops.merge(max_concurrent=1)),
        "observe_on": lambda ts: ops.observe_on(ts), "subscribe_on": lambda ts: ops.subscribe_on(ts),
        "expand": lambda ts: ops.expand(lambda v: reactivex.empty()),
        "partition_first": lambda ts: (lambda xs: xs.pipe(ops.partition(lambda v: str(v)[-1] in "02468"))[0]),
        "to_iterable": lambda ts: ops.to_iterable(), "to_marbles": lambda ts: ops.to_marbles(scheduler=ts),
        "slice": lambda ts: ops.slice(1, 3), "some": lambda ts: ops.some(), "average": lambda ts: ops.average(lambda v: len(str(v))),
        "compose": lambda ts: reactivex.compose(ops.map(lambda v: (v, v)), ops.take(2), ops.scan(lambda a, b: a + b)),
        "delay_with_mapper": lambda ts: ops.delay_with_mapper(lambda v: reactivex.timer(4)),
        "timeout_with_mapper": lambda ts: ops.timeout_with_mapper(reactivex.timer(30), lambda v: reactivex.timer(30)),
        "join": lambda ts: ops.join(other(ts), lambda v: reactivex.timer(8), lambda v: reactivex.timer(8)),
        "group_by_until": lambda ts: (ops.group_by_until(lambda v: str(v)[-1] in "02468", None, lambda g: reactivex.timer(18)),
                                      ops.flat_map(lambda g: g.pipe(ops.to_list(), ops.map(lambda l: (g.key, l))))),
        "buffer_toggle": lambda ts: ops.buffer_toggle(reactivex.interval(15), lambda _: reactivex.timer(10)),
        "buffer_when": lambda ts: ops.buffer_when(lambda: reactivex.timer(17)),
        "publish_mapper_zip": lambda ts: ops.publish(lambda s: s.pipe(ops.zip(s.pipe(ops.skip(1))))),
        "last": lambda ts: ops.last(), "min": lambda ts: ops.min(), "reduce_seed": lambda ts: ops.reduce(lambda a, v: a + [v], []),
    }
    return F


DIFF_SRCS = [([0, 1, 2], "C"), ([0, 1], "E"), ([0, 1, 2, 3], "U"), ([], "C")]
DIFF_STARTS = [(0, 0, 0), (0, 5, 11), (0, 40, 80)]


# factories of the differential part that take no scheduler, no other source and no mapper: these are also run with one
# scheduler PER APPLICATION (clocks that do not move in lockstep: the first application's scheduler runs to its end before
# the second one's starts) - an operator object must not keep the scheduler of an earlier subscription
MULTI_SCHED = ["delay", "delay_subscription", "debounce", "throttle_first", "sample", "timestamp", "time_interval", "timeout",
               "take_with_time", "skip_with_time", "take_last_with_time", "skip_last_with_time", "take_until_with_time",
               "skip_until_with_time", "buffer_with_time", "buffer_with_time_or_count", "window_with_time"]


def diff_run(name, sidx, stidx, napps, shared, dispose_at=None, multi=False):
    """Observation (per application: timed notifications, source subscriptions) of one scenario."""
    from reactivex.scheduler import VirtualTimeScheduler
    from reactivex.testing import ReactiveTest as R
    from reactivex.testing import TestScheduler
    ts = TestScheduler()
    tss = [TestScheduler() for _ in range(napps)] if multi else [ts] * napps
    errs = [cc.SrcErr(f"src{a}") for a in range(napps)]
    xs = []
    for a in range(napps):
        vals, term = DIFF_SRCS[(sidx + a) % len(DIFF_SRCS)]
        ms = [R.on_next(10 * (j + 1), f"a{a}v{v}" if (sidx + a) % 2 else 100 * (a + 1) + v) for j, v in enumerate(vals)]
        if term == "C":
            ms.append(R.on_completed(10 * (len(vals) + 1)))
        elif term == "E":
            ms.append(R.on_error(10 * (len(vals) + 1), errs[a]))
        xs.append(tss[a].create_cold_observable(ms))
    make = diff_factories()[name]

    def built():
        r = make(ts)
        return r if isinstance(r, tuple) else (r,)
    one = built() if shared else None
    ys = []
    for a in range(napps):
        chain = one if shared else built()
        y = xs[a]
        for i, o in enumerate(chain):
            # only the operator under test is shared; helper operators around it are fresh per source
            y = y.pipe(o)
        ys.append(y)
    recs = [[] for _ in range(napps)]
    handles = {}
    for a in range(napps):
        def sub(_s=None, _st=None, a=a):
            r = recs[a]
            t = tss[a]
            handles[a] = ys[a].subscribe(on_next=lambda v: r.append((t.clock, "N", _norm(v))),
                                         on_error=lambda e: r.append((t.clock, "E", type(e).__name__ + ":" + str(e))),
                                         on_completed=lambda: r.append((t.clock, "C", None)), scheduler=t)
        tss[a].schedule_absolute(200 + DIFF_STARTS[stidx][a], sub)
    escaped = None
    for t in (tss if multi else [ts]):
        mine = [a for a in range(napps) if tss[a] is t]
        if dispose_at is not None:
            t.schedule_absolute(dispose_at, lambda *_, mine=mine: [handles[a].dispose() for a in mine if a in handles])
        # infinite helpers (interval) end here
        t.schedule_absolute(900, lambda *_, mine=mine: [handles[a].dispose() for a in mine if a in handles])
        try:
            VirtualTimeScheduler.start(t)
        except Exception as ex:
            escaped = type(ex).__name__ + ":" + str(ex)[:80]
    return {"rec": recs, "subs": [[(s.subscribe, s.unsubscribe) for s in x.subscriptions] for x in xs], "escaped": escaped}


def _norm(v):
    if isinstance(v, (list, tuple)):
        return type(v).__name__ + "(" + ",".join(_norm(x) for x in v) + ")"
    if isinstance(v, dict):
        return "{" + ",".join(f"{_norm(k)}:{_norm(x)}" for k, x in v.items()) + "}"
    if hasattr(v, "_fields"):   # Timestamp / TimeInterval named tuples
        return type(v).__name__ + "(" + ",".join(_norm(x) for x in v) + ")"
    return type(v).__name__ + ":" + repr(v)


def _djob(args):
    name, sidx, stidx, napps = args[:4]
    multi = len(args) > 4 and bool(args[4])
    try:
        a = diff_run(name, sidx, stidx, napps, True, multi=multi)
        b = diff_run(name, sidx, stidx, napps, False, multi=multi)
    except Exception as ex:   # a factory this version of the library does not have / accepts differently
        return ("skip", name, type(ex).__name__ + ":" + str(ex)[:100])
    if a == b:
        return ("ok", name, sum(len(r) for r in a["rec"]))
    for i in range(napps):
        if a["rec"][i] != b["rec"][i] or a["subs"][i] != b["subs"][i]:
            break
    return ("fail", name, {"engine": "diff", "op": name, "sidx": sidx, "stidx": stidx, "napps": napps, "multi": multi, "reason_kind": "differs",
                           "fresh_ok": True, "app": i, "shared": {"rec": a["rec"][i], "subs": a["subs"][i], "escaped": a["escaped"]},
                           "fresh": {"rec": b["rec"][i], "subs": b["subs"][i], "escaped": b["escaped"]}})


def run(tier: str) -> int:
    ck = core.Check("C44", tier)
    ck.rule = ("ONE operator object applied to 2-3 independent sources with interleaved subscriptions/connections: (1) multicasting "
               "operators on Connectable.tla with NApps >= 2, (2) 65 element-wise/aggregate factories on Reuse.tla (Ops1 transducers "
               "per application, staggered subscription instants); expected = independent per-application runs (invariant "
               "Independent in both modules); (3) differential part for further factories: shared operator object vs fresh "
               "operator per source; non-trivial = at least two applications receive notifications")
    jobs = plan(tier)
    procs = cc.pool_procs(tier)

    def one(j):
        mod, label, consts, invs, props, sim, depth = j
        return tlc.run(mod, tlc.cfg_text(consts, invariants=invs + ["Export"], properties=props), workers=1,
                       timeout=900 if tier == "quick" else 3000, simulate=sim, depth=depth, seed=(ck.seed + 5) if sim else None,
                       xmx="2g", env_extra=JVM, allow_violation=False)
    clines, rlines = [], []
    t0 = time.time()
    with ThreadPoolExecutor(4) as ex:
        for j, res in zip(jobs, ex.map(one, jobs)):
            ck.add_tlc(res, f"{j[0]}: {j[1]}" + (" [simulation]" if j[5] else " [exhaustive]"))
            (clines if j[0] == "Connectable" else rlines).extend(res.lines)
    t1 = time.time()
    cgroups, rgroups = core.group_allowed(clines), core.group_allowed(rlines)
    # (1)
    n1, unrelated = 0, {}
    for n, fails, other in core.parallel_map(_cjob, [(i, s, a) for i, (s, a) in enumerate(cgroups)], procs=procs, chunk=100):
        n1 += n
        for f in fails:
            ck.fail(f)
        for o in other:
            key = json.dumps(o, sort_keys=True)
            unrelated[key] = unrelated.get(key, 0) + 1
    # (2)
    n2 = 0
    for n, fails, other in core.parallel_map(_rjob, [(i, s, a) for i, (s, a) in enumerate(rgroups)], procs=procs, chunk=100):
        n2 += n
        for f in fails:
            f["property"] = "C44"
            ck.fail(f)
        for o in other:
            key = json.dumps(o, sort_keys=True)
            unrelated[key] = unrelated.get(key, 0) + 1
    # deviations from the model that every application shows identically when run alone are not about
    # re-use (they belong to C24 / C05 / C06); they are reported, not judged, here
    ck.note("deviations_without_leak", unrelated)
    for key, cnt in list(unrelated.items())[:10]:
        ck.drift(f"{cnt} runs deviate from the model, but exactly as each application alone does (not a C44 matter): {key}")
    # (3)
    names = sorted(diff_factories())
    napps_set = (2,) if tier == "quick" else (2, 3)
    dj = [(nm, s, st, na) for nm in names for s in range(len(DIFF_SRCS)) for st in range(len(DIFF_STARTS)) for na in napps_set]
    if tier == "quick":
        dj = [x for i, x in enumerate(dj) if i % 2 == 0]
    # one scheduler per application (clocks not in lockstep)
    dj += [(nm, s, st, 2, True) for nm in MULTI_SCHED for s in range(len(DIFF_SRCS)) for st in range(len(DIFF_STARTS))]
    n3, skipped, dnon = 0, {}, 0
    for kind, name, info in core.parallel_map(_djob, dj, procs=procs, chunk=50):
        if kind == "skip":
            skipped[name] = info
        else:
            n3 += 1
            if kind == "fail":
                ck.fail(info)
            elif info:
                dnon += 1
    t2 = time.time()
    ck.impl = n1 + n2
    ck.nontrivial = (sum(1 for s, a in cgroups if sum(1 for o in cc.seq(a[0]["out"]) if len(cc.seq(o)) > 0) >= 2
                         and len({c["a"] for c in cc.seq(s["hist"]) if c["c"] == "sub"}) >= 2)
                     + sum(1 for s, a in rgroups if sum(1 for o in cc.seq(a[0]["out"]) if len(cc.seq(o)) > 0) >= 2))
    ck.note("model_checked_part", {"connectable_scenarios": len(cgroups), "connectable_runs": n1,
                                   "reuse_scenarios": len(rgroups), "reuse_runs": n2,
                                   "reuse_operators": sorted({s["op"] for s, _ in rgroups})})
    ck.note("differential_part", {"note": "no operator model: shared operator object vs fresh operator per source, observations equal; "
                                          "NOT counted in traces_validated_against_impl",
                                  "factories": [n for n in names if n not in skipped], "scenario_pairs": n3,
                                  "pairs_with_output": dnon, "skipped_factories": skipped})
    ck.note("phase_seconds", {"tlc": round(t1 - t0, 1), "replay": round(t2 - t1, 1)})
    rnd = random.Random(ck.seed)
    for g in rnd.sample(cgroups, min(3, len(cgroups))) + rnd.sample(rgroups, min(3, len(rgroups))):
        ck.sample({"scn": g[0], "allowed": g[1]})
    ck.exhaustive = False
    ck.assumptions = [
        "as for C24 (same-instant order realised by the replayer; zero-length source subscriptions not compared)",
        "multicast(subject=s) is not part of the shared-object runs: the subject is the caller's object and is shared by construction",
        "auto_connect is a method, not an operator object: the shared object in those runs is the publish/replay/publish_value operator",
        "user functions passed to a factory are pure tables (a shared operator shares them too)",
        "differential part: equality of shared-object and fresh-object observations only; it certifies no operator semantics",
    ]
    return ck.finish()


def replay(rec) -> int:
    if rec.get("engine") == "connect":
        f = cc.replay_record(rec)
    elif rec.get("engine") == "reuse":
        f = cc.reuse_judge(rec["scn"], rec["expected"], profile=rec["profile"], k=rec["k"], salt=rec["salt"], stride=rec["stride"],
                           order=rec["order"], hot=rec["hot"])
    else:
        r = _djob((rec["op"], rec["sidx"], rec["stidx"], rec["napps"], rec.get("multi", False)))
        f = r[2] if r[0] == "fail" else None
    print(json.dumps({k: v for k, v in f.items() if k not in ("scn", "expected")}, default=str)[:2000] if f
          else "replay: observation allowed by the spec")
    return 1 if f else 0


META = {
    'technique': 'TLC-checked product models (Connectable.tla with several applications, Reuse.tla over the Ops1 transducers) replayed with ONE real operator object applied to all sources; differential shared-vs-fresh comparison for factories without a model',
    'level': 'Both modules give every application of the operator object its own state and TLC checks, besides the per-application invariants of C24 / Ops1 (including transducer = reference), the invariant Independent: the interleaved run projected on one application equals the run of that application alone. Every enumerated scenario (histories of subscribe/unsubscribe/connect/disconnect over 2-3 sources for the multicasting operators; staggered subscriptions for 65 element-wise and aggregate factories) is performed with a single real operator object and each application must show exactly its independent expected observation. A clearly separated differential part compares shared-object and fresh-object runs for about 70 further factories without an operator model, the 17 time-based ones also with one scheduler per application (clocks not in lockstep).',
    'note': 'TLC; codecs of props/connect_common.py and props/ops1_common.py; TestScheduler (C28); the differential part certifies equality only',
    'ref': 'DESIGN.md 6 C44, D.9',
}
