"""C18 - windows and buffers partition the source correctly (OpsWindow.tla, Binding A)."""
import collections
import json
import zlib

from harness import core
from props import window_common as wc

FAMILIES = ["count", "time", "toc", "bound", "when", "toggle"]


def _bits(scn):
    return zlib.crc32(json.dumps(scn, sort_keys=True).encode())


def variants_quick(scn):
    """quick tier: one window-mode and one buffer-mode run per scenario, rotating over the scenarios"""
    v = variants(scn)
    b = _bits(scn)
    if scn.get("dmode") == "outer":
        return v
    return [v[0] if (b >> 17) & 1 else v[2], v[1] if (b >> 18) & 1 else v[3]]


def variants(scn):
    """2 window-mode + 2 buffer-mode runs per scenario; the remaining dimensions (one subscription or two
    independent subscriptions to the same pipeline object, clock kind, tick scale,
    hot/cold source, hot/cold and creation order of the boundary lane = which way a same-instant tie is
    driven, value profile, call form, argument forms) are spread deterministically over the scenarios."""
    b = _bits(scn)
    bit = lambda n: bool((b >> n) & 1)
    if scn.get("dmode") == "outer":
        # outer-only dispose: the subscriber keeps its window subscriptions - window mode only (a buffer_* result has
        # no window subscriptions of its own)
        return [
            dict(buf=False, clock="test", scale=10, profile="plain", salt=b % 2, hot=True, auxhot=True,
                 order="src" if bit(0) else "aux", short=bit(1), sched_arg=bit(2), form="pipe", twice=bit(15),
                 late_cancel=bit(19)),
            dict(buf=False, clock="hist", scale=3, profile="falsy" if bit(7) else "plain", salt=(b >> 3) % 8, hot=bit(8),
                 auxhot=not bit(8), order="aux" if bit(0) else "src", short=False, sched_arg=bit(9),
                 form="fluent" if bit(10) else "pipe")]
    return [
        dict(buf=False, clock="test", scale=10, profile="plain", salt=b % 2, hot=True, auxhot=True,
             order="src" if bit(0) else "aux", short=bit(1), sched_arg=bit(2), form="pipe", twice=bit(15),
             late_cancel=bit(19)),
        dict(buf=True, clock="test", scale=2, profile="falsy", salt=b % 8, hot=False, auxhot=bit(3),
             order="src", short=bit(4), sched_arg=False, form="fluent" if bit(5) else "pipe", td=bit(6), twice=bit(16)),
        dict(buf=False, clock="hist", scale=3, profile="falsy" if bit(7) else "plain", salt=(b >> 3) % 8, hot=bit(8),
             auxhot=not bit(8), order="aux" if bit(0) else "src", short=False, sched_arg=bit(9),
             form="fluent" if bit(10) else "pipe"),
        dict(buf=True, clock="hist" if bit(11) else "test", scale=10, profile="plain", salt=1, hot=True, auxhot=True,
             order="aux" if bit(12) else "src", short=bit(13), sched_arg=bit(14), form="pipe", late_cancel=bit(20)),
    ]


def nontrivial(scn, allowed):
    """at least two windows, at least one element delivered into one of them"""
    o = allowed[0]
    return len(o["wins"]) >= 2 and any(e["k"] == "N" for w in o["wins"] for e in w["out"])


def runs_for(tier):
    base = dict(Terms={"C", "E", "U"}, CKinds={"N"}, AuxTerms={"U"}, Faults=False, Disposes=False, OuterOps=set(), ZeroDur=True, MaxAux=2, CountLen=5,
                Counts={1, 2, 3}, Spans={1, 2, 3}, Shifts={1, 2, 3}, Durs={1, 2})

    def c(ops, ml, mt, **kw):
        d = dict(base, Ops=set(ops), MaxLen=ml, MaxT=mt, H=mt + 1)
        d.update(kw)
        return d
    if tier == "quick":
        # one JVM for the six rules (JVM start-up dominates at this size), one for the fault dimension
        return [("all six rules", c(FAMILIES, 2, 3, Spans={1, 2}, MaxAux=1)),
                # closing by empty completion; fault dimension (C09): closing mapper raises at its k-th call,
                # closing / boundary / openings observable errors
                ("faults bound,when,toggle", c(["bound", "when", "toggle"], 1, 2, MaxAux=1, CKinds={"C", "E"},
                                               AuxTerms={"U", "E"}, Faults=True, Terms={"E", "U"}, Durs={1})),
                # dispose dimension (C03): the subscriber disposes the result and every window subscription at any instant,
                # or ONLY the result (take(1) on the windows ...) and keeps its window subscriptions: those windows go on
                # and still close when their rule dictates
                ("dispose all six rules", c(FAMILIES, 2, 2, H=3, CountLen=3, MaxAux=1, Counts={1, 2}, Spans={1, 2},
                                            Shifts={1, 2}, Durs={1}, Terms={"U"}, Disposes=True,
                                            OuterOps=set(FAMILIES)))]
    return [("count", c(["count"], 5, 4, Counts={1, 2, 3, 4}, CountLen=8)),
            ("time", c(["time"], 4, 4, H=6)),
            ("time long", c(["time"], 2, 6, H=8, Spans={1, 2, 4, 5}, Shifts={1, 3, 4})),
            ("toc", c(["toc"], 4, 4, H=6)),
            ("bound", c(["bound"], 3, 4, MaxAux=3)),
            ("when", c(["when"], 3, 4, CKinds={"N", "C"}, Durs={1, 2, 3}, H=6)),
            ("toggle", c(["toggle"], 3, 3, Durs={1, 2, 3})),
            ("toggle long", c(["toggle"], 2, 4, H=6, CKinds={"N", "C"}, Durs={1, 3})),
            ("faults bound,when", c(["bound", "when"], 2, 3, CKinds={"N", "C", "E"}, AuxTerms={"U", "E"}, Faults=True)),
            ("faults toggle", c(["toggle"], 1, 2, H=4, CKinds={"N", "E"}, AuxTerms={"U", "E"}, Faults=True, MaxAux=2)),
            ("dispose count,time,toc", c(["count", "time", "toc"], 3, 3, H=5, Disposes=True, OuterOps=set(FAMILIES))),
            ("dispose bound,when,toggle", c(["bound", "when", "toggle"], 2, 3, H=5, Disposes=True, OuterOps=set(FAMILIES)))]


def sampled_runs(tier):
    """beyond the exhaustive bounds (thorough tier): random scenarios of a much larger instance; TLC enumerates
    every tie order of each sampled scenario, so allowed sets are complete"""
    if tier == "quick":
        return []
    big = dict(Terms={"C", "E", "U"}, CKinds={"N", "C"}, AuxTerms={"U"}, Faults=False, Disposes=True, OuterOps=set(FAMILIES), ZeroDur=True, MaxAux=4, MaxLen=7, CountLen=12, MaxT=9, H=11,
               Counts={1, 2, 3, 4, 5}, Spans={1, 2, 3, 5, 7}, Shifts={1, 2, 3, 4, 6}, Durs={1, 2, 3, 5})
    return [("sampled " + f, f, dict(big, Ops={f}), 1200) for f in FAMILIES]


def run(tier):
    import random
    import time
    ck = core.Check("C18", tier)
    hist, per = collections.Counter(), collections.Counter()
    stats = {"nt": 0, "samples": []}
    vf = variants_quick if tier == "quick" else variants

    def digest(e):
        label, c, groups = e
        wc.replay_all(ck, "window", [e], vf, procs=8)
        for scn, allowed in groups:
            per[scn["op"]] += 1
            hist[min(len(allowed), 9)] += 1
            stats["nt"] += 1 if nontrivial(scn, allowed) else 0
        if groups and len(stats["samples"]) < 6:
            g = groups[len(groups) // 2]
            stats["samples"].append({"scn": g[0], "allowed": g[1][:2]})

    for e in wc.export_runs(ck, "OpsWindow", wc.WINDOW_INVS, runs_for(tier), par=5 if tier == "quick" else 4,
                            timeout=240 if tier == "quick" else 3000, light=tier == "quick"):
        digest(e)
    ck.exhaustive = True
    rng = random.Random(ck.seed + 18)
    before = ck.impl
    for label, fam, c, n in sampled_runs(tier):
        digest(wc.export_sampled(ck, "OpsWindow", wc.WINDOW_INVS, label, c, wc.sample_window_scns(rng, fam, c, n)))
    if ck.impl > before:
        ck.note("sampled_large_instance_runs", ck.impl - before)
    nt = stats["nt"]
    ck.nontrivial = nt
    ck.rule = ("every source timeline (0..MaxLen elements at instants 1..MaxT, non-decreasing, ending in completion / error at "
               "every later instant / nothing) x every parameter (count, skip in Counts incl. skip<count and skip>count; "
               "timespan, timeshift overlapping and gapped; count x timespan; every boundary / openings timeline; closing "
               "durations per window, closing by on_next or by empty completion) enumerated by TLC on OpsWindow.tla with "
               "every same-instant tie order; each scenario is run as window_* and buffer_* (thorough: twice each) on the "
               "real operators; non-trivial = at least two windows and at least one element delivered")
    ck.note("scenarios", sum(per.values()))
    ck.note("scenarios_per_family", dict(per))
    ck.note("allowed_set_size_histogram(9=9+)", {str(k): v for k, v in sorted(hist.items())})
    ck.note("operators", sorted(x for f in per for x in wc.WINDOW_OPS[f]))
    ck.note("not_compared", ["relative order of a window's hand-out and other windows' events at the same instant",
                             "order of buffers emitted at the same instant",
                             "what open windows see when a closing/boundary/openings observable errors or the closing "
                             "mapper raises: error at that instant OR nothing more (both allowed)",
                             "completion of the boundary / openings observable (not generated)",
                             "source subscription interval, except in dispose scenarios (closed at the dispose instant)"])
    for x in stats["samples"]:
        ck.sample(x)
    ck.assumptions = [
        "TestScheduler / HistoricalScheduler run actions in due order, FIFO among equal due times (checked separately: C28)",
        "the sink subscribes to every window synchronously at hand-out (a later subscriber of a Subject-backed window "
        "legitimately misses elements)",
        "window_with_time: an opening and a closing due at the same instant are one atomic timer event (an element tied "
        "with them is before both or after both); ties between the source, the boundary lane and timers are free",
        "window_with_count: window k >= 1 may be handed out right after element k*skip-1 or right before element k*skip "
        "(both allowed; so a trailing empty window is optional); buffer_with_count emits no empty buffer",
        "window_when closing observables of duration 0 notify synchronously inside subscribe (BehaviorSubject / "
        "create-based): the window closes at the instant it opened, before anything else",
        "variant late_cancel (time, time-or-count): the operator's timer scheduler cancels only actions whose due time "
        "has not been reached yet (best-effort cancellation, as on a thread-based scheduler); the allowed set is unchanged",
        "outer-only dispose (dmode outer, window mode): only the subscription to the sequence of windows is disposed half "
        "a tick after dsp; windows handed out before stay subscribed and must go on as their rule dictates (elements, "
        "closing instant / count, source terminal); the source subscription is closed when the last of them has ended",
        "the run is cut half a tick after the horizon H; sources that never terminate are observed up to H only"]
    return ck.finish()


replay = wc.generic_replay


META = {
    'technique': 'TLC-enumerated timelines x parameters x tie orders of OpsWindow.tla (lane agenda, transducer checked against interval/index references in the model) replayed on the real window_* and buffer_* operators on TestScheduler and HistoricalScheduler',
    'level': 'OpsWindow.tla states the six window rules twice (event handlers with a live list; reference predicates: window k = elements k*skip..k*skip+count-1, time intervals, consecutive partition, opening/closing instants) and TLC checks on every reachable state that each element is delivered to exactly the windows open at its logical arrival instant, in order, that open windows and the result end with the source terminal, and that buffers equal window contents; every scenario is exported with the set of observations allowed over all same-instant tie orders, and the real operators (window and buffer form, hot and cold sources, float and datetime clocks, falsy values) must produce one of them on window sequence, opening instants, per-window timed streams, terminals and buffer contents. Exhaustive for the stated bounds; thorough adds simulation of a larger instance.',
    'note': 'TLC 1.8; codec of props/window_common.py; reactivex.testing Hot/ColdObservable and the virtual-time schedulers (C28); two known findings (window_toggle source completion; window_when raising mapper)',
    'ref': 'DESIGN.md 6 C18, App. C',
}
