"""C33 - cancelling an asyncio-scheduled action is effective from any thread (AsyncIOSched.tla: the property monitor and
the asyncio/scheduler mechanism; TLC checks the invariants over every interleaving of the bounded scenario family and
exports the family; every scenario is performed on the real schedulers over a virtual-time subclass of the real
asyncio.BaseEventLoop under controlled schedules, the recorded traces are validated by TLC against the monitor)."""
from __future__ import annotations

import multiprocessing as mp
import random
import time
from concurrent.futures import ThreadPoolExecutor

from harness import core, tlc
from props import asyncio_common as ac

META = {
    "technique": "TLA+ property monitor + asyncio/scheduler mechanism model (AsyncIOSched.tla) checked by TLC over all interleavings with negative controls; scenario family exported by TLC and performed on the real schedulers under DetSched-controlled thread schedules on a virtual-time subclass of the real asyncio.BaseEventLoop; recorded traces validated in batch by TLC against the monitor (AsyncIOSchedTrace.tla) and matched against the mechanism (AsyncIOSchedMech.tla, drift only)",
    "level": "TLC checks OnLoopThread, NotEarly, NoStartAfterDisposeReturned, NoLostAction (plus AtMostOnce, NoMissedWakeup, no stuck state) on every interleaving of the loop thread and the foreign thread(s) of the mechanism model (ready FIFO, timer heap, cancelled flags, self-pipe wake-up, two-stage relative schedule, direct vs marshalled cancellation at source-line granularity) for every scenario of the bounded family (scheduler kind x immediate/relative x who schedules x who disposes - incl. while the loop is stopped after having run and is run again - x wait x disposer inside another running loop x loop kept busy), with the cancellation decision taken on the scheduler's own loop state; the decision of the originally pinned code and six single faults are each refuted by the invariant they were built to break (non-vacuity, same run). Every scenario TLC exports is built on the real AsyncIOScheduler / AsyncIOThreadSafeScheduler over the stdlib's own BaseEventLoop (Handle, TimerHandle, _run_once, timer heap) with a controlled clock and run under thread schedules up to the preemption bound (context-bounded, capped per scenario, seeded) plus seeded random schedules; each execution's totally ordered event trace (schedule call/return, dispose call/return with thread, action start with thread and loop clock, loop start/stop/idle) must be a behaviour of the monitor that satisfies every invariant in every state; a hang is a rejected trace. A sample of the traces is additionally explained step by step by the mechanism model (mismatch = model drift, no alarm).",
    "note": "TLC 1.8; DetSched switch points = GIL-realisable points in the two scheduler modules and in Handle.cancel/_run, BaseEventLoop._run_once/call_soon(_threadsafe)/_call_soon/call_later/call_at; selector replaced by a cooperative stub (self-pipe flag, controlled clock), loop.time() = controlled clock plus an epoch of the loop's own (0 / 4e6 / 1e7 s, alternating by scenario; traces stay on the controlled clock), concurrent.futures.Future replaced in the scheduler module by a cooperative future; one disposing thread per item; the loop does not start or stop during a dispose() call; NoLostAction is this check's reading of 'actions ... run'",
    "ref": "DESIGN.md 6 C33, 3.3",
}

RULE = ("scenario = per item (AsyncIOScheduler | AsyncIOThreadSafeScheduler) x (schedule | schedule_relative d) x scheduled by (foreign thread before "
        "the loop starts | foreign thread while it runs | loop thread) x disposed by (nobody | foreign thread before the loop starts | foreign "
        "thread while it runs | loop-thread callback | foreign thread while the loop is STOPPED after having run, loop run again afterwards) x wait between schedule and dispose x (loop kept busy by an earlier callback) x (disposer inside another running loop); each run under every schedule up to the preemption "
        "bound (capped) + random schedules; non-trivial = distinct event traces that contain a dispose() call")
ASSUME = [
    "controlled schedules preempt only where the pinned GIL interpreter can (after a call instruction, at function entry, at backward jumps, "
    "at the cooperative future / selector): a subset of the language-level interleavings",
    "the event loop is the stdlib's BaseEventLoop with the selector replaced by a cooperative stub (no I/O), time() = the controlled clock, "
    "_write_to_self a no-op (the stub's wake-up predicate reads loop._ready); Handle/TimerHandle/_run_once/heap are the stdlib's own",
    "concurrent.futures.Future is replaced in reactivex.scheduler.eventloop.asynciothreadsafescheduler by a cooperative future",
    "one disposing thread per scheduled item; the loop neither starts nor stops between a dispose() call and its return (the statement "
    "excludes it); dispose() of an AsyncIOScheduler item from a foreign thread while the loop runs is not promised and not driven",
    "NoLostAction reads 'actions ... run' as: the loop does not go idle (nothing ready, no timer) while an action whose schedule call "
    "returned and that nobody disposed has not started",
]

QUICK = dict(cap1=18, rnd1=3, n2=8, cap2=14, rnd2=2, bound=2, procs=8)
THOROUGH = dict(cap1=250, rnd1=50, n2=80, cap2=60, rnd2=6, bound=3, procs=8)

NEEDED_ACTIONS = ["NextOp", "SchedCall", "SchedEnqueue", "SchedAssign", "SchedRet", "DispCall", "CancelPop", "CancelSet",
                  "DispMarshal", "DispAwait", "DispRet", "CancelDone", "PostDispose", "Wake", "RunInterval", "Stage2Timer", "Stage2Assign",
                  "LoopStart", "Poll", "RunOnce", "Pop", "IterEnd", "Enter", "CbEnd", "LoopIdle", "LoopStop", "LoopPause", "Tick",
                  "Finished"]


def n_items(sc):
    return sum(1 for it in sc["scn"] if it["sw"] != "no")


def run(tier: str) -> int:
    ck = core.Check("C33", tier)
    ck.rule = RULE
    P = QUICK if tier == "quick" else THOROUGH
    ac.jvm_options(tier)
    pool = mp.get_context("fork").Pool(P["procs"])          # forked before any thread exists
    tp = ThreadPoolExecutor(max_workers=2 if tier == "quick" else 3)
    try:
        # ---- TLC: scenario family (export) first, then the design checks concurrently with the exploration below
        q = tier == "quick"
        # run 1 (alone: the box is oversubscribed): the replayer's scenario family + the negative controls
        scs, r1 = ac.export_and_controls(2, "FamExportQuickC" if q else "FamExportC")
        ck.note("negative_controls", {"caller": "NoStartAfterDisposeReturned", "early": "NotEarly", "lose": "NoLostAction",
                                      "nowake": "NoLostAction", "inline": "OnLoopThread", "impatient": "NoStartAfterDisposeReturned", "spent": "NoStartAfterDisposeReturned",
                                      "verdict": "each refuted by its invariant (postcondition ControlsRefuted)"})
        designs = [("design: all interleavings, the 1-item scenarios", True,
                    tp.submit(ac.design_run, 2, "FamOneQuick" if q else "FamOne", ("own",), ("F",), 3, True, busysets="BusyExport"))]
        if tier != "quick":      # (quick: the 2-item family FamTwoQuick - 6 k states - was dropped for wall-clock reasons)
            designs.append(("design: all interleavings, 2 items, both schedulers", False,
                            tp.submit(ac.design_run, 2, "FamTwo", ("own",), ("F",), 4, False, 3000)))
            designs.append(("design: all interleavings, 3 threads (second foreign thread G), 2 items", False,
                            tp.submit(ac.design_run, 2, "FamG", ("own",), ("F", "G"), 3, False, 3000)))

        # ---- Binding C+B on the real code
        ck.add_tlc(r1, "scenario family exported (1 item: all; 2 items: the replayer samples) + negative controls (fault variants refuted)")
        scs1 = [sc for sc in scs if n_items(sc) == 1]
        scs2 = [sc for sc in scs if n_items(sc) == 2]
        rnd = random.Random(ck.seed)
        pick2 = rnd.sample(scs2, min(P["n2"], len(scs2)))
        ck.note("scenario_family_1_item", len(scs1))
        ck.note("scenario_family_1_item_disposer_inside_another_loop", sum(1 for sc in scs1 if sc.get("own")))
        ck.note("scenario_family_2_items", len(scs2))
        ck.note("scenarios_2_items_sampled", len(pick2))
        jobs = [(sc, P["bound"], P["cap1"], P["rnd1"], ck.seed, "rel", False) for sc in scs1]
        # the loop kept busy by an earlier callback while the item queued behind it is disposed: also through schedule_relative(0)
        kept_busy = [sc for sc in scs1 if sc.get("busy")]
        ck.note("scenario_family_1_item_loop_kept_busy", len(kept_busy))
        jobs += [(sc, P["bound"], P["cap1"], P["rnd1"], ck.seed + 5, "rel0", False) for sc in kept_busy if sc["scn"][0]["d"] == 0]
        jobs += [(sc, P["bound"], P["cap2"], P["rnd2"], ck.seed, "rel", False) for sc in pick2]
        if tier == "thorough":
            conc = [sc for sc in scs1 if sc["scn"][0]["d"] > 0]
            # the same scenarios with the delay passed as a timedelta / through schedule_absolute, and with the disposable
            # classes in the switch-point focus as well
            jobs += [(sc, 2, 70, 8, ck.seed + 1, "td", False) for sc in conc]
            jobs += [(sc, 2, 70, 8, ck.seed + 2, "abs", False) for sc in conc]
            jobs += [(sc, 2, 90, 8, ck.seed + 3, "rel", True) for sc in scs1 if sc["scn"][0]["dw"] != "none"]
            # three threads: a second foreign thread G (one schedules, the other disposes)
            scsg, rg = ac.export_scenarios(2, "FamGExport", foreign=("F", "G"))
            ck.add_tlc(rg, "scenario family exported, 3 threads")
            ck.note("scenario_family_3_threads", len(scsg))
            jobs += [(sc, 2, 80, 8, ck.seed + 4, "rel", False) for sc in rnd.sample(scsg, min(60, len(scsg)))]
        # longest first: the scenarios with a foreign thread at work while the loop runs
        jobs.sort(key=lambda j: -sum(1 for it in j[0]["scn"] if "F" in (it["sw"], it["dw"])) * j[2])
        t0 = time.time()
        tot = ac.conc_check(ck, jobs, pool, "real executions", mech_sample=12 if q else 600)
        ck.note("exploration_and_validation_wall_s", round(time.time() - t0, 1))
        for k, v in tot.items():
            ck.note("conc_" + k, v)
        ck.note("preemption_bound", P["bound"])
        ck.impl += tot["executions"]
        ck.nontrivial = tot["distinct_traces_with_dispose"]

        # ---- collect the design checks
        for (label, first, f) in designs:
            res = f.result()
            ck.add_tlc(res, label)
            if not res.ok:
                raise tlc.TLCFailure(f"{label}: TLC reports {res.violated}\n" + "\n".join(res.raw.splitlines()[-60:]))
            if first:
                never = [a for a in NEEDED_ACTIONS if res.coverage.get(a, 0) == 0]
                if never:
                    raise tlc.TLCFailure(f"vacuous design run: actions never taken {never}")
                ck.note("design_action_coverage", {a: res.coverage.get(a, 0) for a in NEEDED_ACTIONS})
    finally:
        pool.terminate()
        tp.shutdown(wait=False, cancel_futures=True)
    ck.exhaustive = True
    ck.assumptions = ASSUME
    return ck.finish()


replay = ac.replay
