"""C01 core - the auto-detach subscribe protocol (grammar part of Subscribe.tla).

`check_autodetach(ck, tier)` is meant to be called from a C01 check: TLC enumerates non-conforming
sources (every call script over {on_next, on_error, on_completed} made inside the subscribe
function, the function then returning or raising, further calls after subscribe() returned) x the
position at which a user callback raises x a few element-wise/early-terminating wrappers, executes
each in the Subscribe.tla interpreter (auto-detach observer, fail(), `finally: dispose()`,
exception unwinding through the trampoline) and checks Grammar (N* (E|C)?) as an invariant.
Binding A: every exported scenario is performed on the real Observable.subscribe; what reaches the
user's callbacks must satisfy the grammar (the property-level oracle - ck.fail); the exact delivered
sequence and the number of exceptions escaping to the caller are compared with the model as
model_drift only (the statement does not fix them)."""
from __future__ import annotations

import json
from typing import Any, Dict, List

from harness import core, tlc

INVS = ["TypeOK", "Grammar", "GrammarRefOK", "NoStrayException", "DisposedIsStopped", "SinkGrammar"]
BASE = dict(PlanName="custom", Budget=4, Cfgs={"default"}, TakeNs={1}, Oth={"one"}, Dsps={0})
QUICK = dict(BASE, Ctxs={"top"}, Fams={"chaos"}, GLen=3, GPost=2, GRaise={0, 1, 2})      # the bare auto-detach observer
THOROUGH = dict(BASE, Ctxs={"top", "act"}, Fams={"chaos", "chaos2"}, GLen=4, GPost=2, GRaise={0, 1, 2, 3, 4})


class UserErr(Exception):
    """raised by the scenario's user callback"""


class SrcFail(Exception):
    """raised by the non-conforming source's subscribe function"""


class SrcErr(Exception):
    """the value the source passes to on_error"""


def grammar_ok(down: List[str]) -> bool:
    return all(x == "N" for x in down[:-1])


def perform(scn: Dict[str, Any], omit=()) -> Dict[str, Any]:
    """omit: kinds of terminal callbacks the subscriber does NOT supply (subscribe(on_next) / subscribe(on_next, on_error) ...)"""
    import reactivex as rx
    from reactivex import operators as ops
    from reactivex.disposable import Disposable
    from reactivex.scheduler import CurrentThreadScheduler
    g, nd = scn["g"], scn["nd"]
    down: List[str] = []
    calls = [0]
    saved: List[Any] = []
    escaped = 0
    src_err = SrcErr("src")

    def user(kind):
        def cb(*_a):
            down.append(kind)
            calls[0] += 1
            if calls[0] == g["ur"]:
                raise UserErr(kind)
        return cb

    def call(obv, what, i):
        if what == "N":
            obv.on_next(i)
        elif what == "E":
            obv.on_error(src_err)
        else:
            obv.on_completed()

    def subscribe_fn(observer, scheduler=None):
        saved.append(observer)
        for i, what in enumerate(g["scr"]):
            call(observer, what, i)
        if g["fin"] == "raise":
            raise SrcFail()
        return Disposable()

    def mk(i):
        n = nd[i - 1]
        if n["k"] == "chaos":
            return rx.create(subscribe_fn)
        if n["k"] == "map":
            return mk(n["a"]).pipe(ops.map(lambda x: x))
        if n["k"] == "take":
            return mk(n["a"]).pipe(ops.take(n["n"]))
        raise ValueError(n["k"])

    obs = mk(1)
    handlers = (user("N"), None if "E" in omit else user("E"), None if "C" in omit else user("C"))
    unhandled = (UserErr, SrcFail, SrcErr) if "E" in omit else (UserErr, SrcFail)   # no on_error: the default handler re-raises
    try:
        if scn["ctx"] == "top":
            obs.subscribe(*handlers)
        else:
            CurrentThreadScheduler.singleton().schedule(lambda *_: obs.subscribe(*handlers))
    except unhandled:
        escaped += 1
    for i, what in enumerate(g["post"]):
        if not saved:
            break
        try:
            call(saved[0], what, 100 + i)
        except unhandled:
            escaped += 1
    return {"down": down, "escaped": escaped}


def _subset_mismatch(scn, got):
    for omit in (("C",), ("E",), ("C", "E")):
        try:
            got2 = perform(scn, omit)
        except Exception as e:
            got2 = {"down": [], "escaped": -1, "raised": type(e).__name__ + ": " + str(e)[:200]}
        exp = [x for x in got["down"] if x not in omit]
        if got2["down"] != exp or "raised" in got2:
            return omit, got2, exp
    return None


def judge(item):
    scn, allowed = item
    try:
        got = perform(scn)
    except Exception as e:   # anything else escaping is an observation too
        got = {"down": [], "escaped": -1, "raised": type(e).__name__ + ": " + str(e)[:200]}
    fail = drift = None
    if not grammar_ok(got["down"]):
        bad = next(i for i, x in enumerate(got["down"][:-1]) if x != "N")
        fail = {"engine": "autodetach", "failure": "grammar", "after_terminal": got["down"][bad + 1], "terminal": got["down"][bad],
                "shape": "/".join(n["k"] for n in scn["nd"]), "user_raises_at": scn["g"]["ur"], "source_raises": scn["g"]["fin"] == "raise",
                "scn": scn, "expected": allowed, "observed": got}
    elif scn["g"]["ur"] == 0 and (sub := _subset_mismatch(scn, got)) is not None:
        # which terminal callbacks the subscriber supplied must not change what its other callbacks see: a subscriber without
        # a completion (error) handler sees exactly the same sequence minus the completion (error)
        omit, got2, exp = sub
        fail = {"engine": "autodetach", "failure": "handler_subset", "omitted_handlers": list(omit), "shape": "/".join(n["k"] for n in scn["nd"]),
                "scn": scn, "expected": [{"down": exp}], "observed": got2, "with_all_handlers": got}
    elif got not in allowed:
        drift = f"autodetach {'/'.join(n['k'] for n in scn['nd'])} g={json.dumps(scn['g'], sort_keys=True)}: model {json.dumps(allowed[0])} real {json.dumps(got)}"
    return fail, drift, got


def check_autodetach(ck: core.Check, tier: str) -> Dict[str, Any]:
    """Runs the grammar part of Subscribe.tla and replays every scenario; records into `ck`
    (add_tlc, impl, fail, drift, notes).  Returns a small summary dict."""
    consts = QUICK if tier == "quick" else THOROUGH
    res = tlc.run("Subscribe", tlc.cfg_text(consts, invariants=INVS + ["GExport"], properties=["SlotMono"]),
                  workers=1, timeout=600 if tier == "quick" else 3000, xmx="3g", allow_violation=False)
    ck.add_tlc(res, f"autodetach grammar core GLen={consts['GLen']} GPost={consts['GPost']} GRaise={sorted(consts['GRaise'])}")
    groups = core.group_allowed(res.lines)
    outs = [judge(x) for x in groups] if len(groups) < 50000 else core.parallel_map(judge, groups, procs=8, chunk=5000)
    nfail = ndrift = 0
    for (scn, allowed), (fail, drift, got) in zip(groups, outs):
        ck.impl += 1
        if fail:
            nfail += 1
            ck.fail(fail)
        if drift:
            ndrift += 1
            ck.drift(drift)
    nontrivial = sum(1 for scn, _ in groups
                     if scn["g"]["ur"] or scn["g"]["fin"] == "raise" or sum(1 for x in scn["g"]["scr"] + scn["g"]["post"] if x != "N") > 1
                     or any(x != "N" for x in scn["g"]["scr"][:-1]))
    summary = {"scenarios": len(groups), "grammar_failures": nfail, "drift": ndrift, "nontrivial": nontrivial}
    ck.note("autodetach_core", summary)
    if groups:
        ck.sample({"autodetach": groups[len(groups) // 2][0], "allowed": groups[len(groups) // 2][1]})
    return summary


def replay_autodetach(rec) -> int:
    fail, drift, got = judge((rec["scn"], rec["expected"]))
    print(json.dumps({"observed": got, "drift": drift}, default=str)[:1500])
    return 1 if fail else 0
