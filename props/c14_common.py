"""Binding A for Subscribe.tla (C14): build an exported shape x scheduler configuration on the
real library with counting infinite sources under a WORK BUDGET, run subscribe(), and project
the run to (returned, pulled, emitted, sink completed).

Python holds only the codec: node kind -> library constructor (several API forms per kind),
configuration -> scheduler argument.  Which shapes exist, in which order things are subscribed
and what the verdict should be all come from the TLC export."""
from __future__ import annotations

import itertools
import json
import signal
import sys
from typing import Any, Dict, List, Optional, Tuple

INF_KINDS = ("loop", "resched", "concatinf")
COMBINATORS = ("merge", "concat", "amb", "cl", "wlf", "takeuntil", "flatmap", "switchmap", "zip", "skipuntil")


class BudgetExhausted(BaseException):
    """raised by the counting sources after `budget` pulls: harness-private, not an Exception,
    so no `except Exception` of the library swallows it"""


class Hang(BaseException):
    pass


class UserBoom(Exception):
    """raised by the scenario's on_next callback (scn.ur-th invocation of a user callback)"""


def _alarm(signum, frame):
    raise Hang()


class Counter:
    """the shared work budget; `tag` = which pipeline of the scenario pulls (1, or 2 for the second pipeline of a
    'pair'); `ended[tag]()` tells whether that pipeline's subscriber is already done with it"""

    def __init__(self, budget: int):
        self.n = 0
        self.budget = budget
        self.tag = 1          # set by build() while it constructs a pipeline: sources capture it
        self.phase2 = False   # the caller has abandoned pipeline 1 and begun the second subscribe()
        self.stale = 0
        self.late = 0
        self.ended = {}

    def pull(self, tag: int = 1) -> int:
        if self.n >= self.budget:
            raise BudgetExhausted()
        self.n += 1
        if tag == 1 and self.phase2:
            self.stale += 1
        f = self.ended.get(tag)
        if f is not None and f():
            self.late += 1
        return self.n


FALSY = [None, 0, "", (), False, 0.0, [], {}]


def _val(profile: str, i: int) -> Any:
    return FALSY[i % len(FALSY)] if profile == "falsy" else i


class CountingIter:
    """infinite iterator; every pull is counted against the budget"""

    def __init__(self, counter: Counter, profile: str):
        self.c, self.profile, self.tag = counter, profile, counter.tag

    def __iter__(self):
        return self

    def __next__(self):
        return _val(self.profile, self.c.pull(self.tag))


# ---- forms: the API spellings of one model node kind -------------------------------------------
FORMS = {
    "loop": ["from_iterable", "from_", "generator"],
    "resched": ["generate", "range"],
    "one": ["return_value", "of", "just"],
    "take": ["take", "first", "take_while", "element_at", "take_while_indexed", "first_or_default", "slice",
             "is_empty", "some", "find", "find_index", "all", "first_pred"],
    "map": ["map", "filter", "do_action", "skip0", "as_observable", "scan", "timestamp", "skip_while",
            "map_indexed", "filter_indexed"],
    "merge": ["rx.merge", "ops.merge", "merge_max_concurrent"],
    "concat": ["rx.concat", "ops.concat", "concat_with_iterable"],
    "amb": ["ops.amb"],
    "cl": ["rx.combine_latest", "ops.combine_latest"],
    "wlf": ["ops.with_latest_from", "rx.with_latest_from"],
    "takeuntil": ["ops.take_until"],
    "zip": ["rx.zip", "ops.zip"],
    "skipuntil": ["ops.skip_until"],
    "flatmap": ["flat_map", "flat_map_indexed", "map+merge_all"],
    "switchmap": ["flat_map_latest", "switch_map", "map+switch_latest"],
    "share": ["share", "publish+ref_count"],
    "repeat": ["ops.repeat", "literal"],          # the pair defer(concatinf(x))
    "cts": ["CurrentThreadScheduler", "TrampolineScheduler"],
    "vts": ["VirtualTimeScheduler", "TestScheduler", "HistoricalScheduler"],
}


ONE_ELEMENT = ("element_at", "some", "find", "find_index", "all", "first_pred")


def default_form() -> Dict[str, str]:
    return {k: v[0] for k, v in FORMS.items()}


class _Patches:
    """counting hooks for sources whose iterator the API does not let us supply:
    range() builds its own builtin range, ops.repeat() its own infinite() generator"""

    def __init__(self, counter: Counter):
        self.c = counter
        self.saved: List[Tuple[Any, str, Any, bool]] = []
        self.hit = {"range": False, "infinite": False}

    def __enter__(self):
        import importlib
        c, hit = self.c, self.hit

        class CountingRange:
            def __init__(self, *a):
                self.r = range(*a)
                self.tag = c.tag

            def __iter__(self):
                hit["range"] = True
                it = iter(self.r)
                tag = self.tag

                def g():
                    while True:
                        c.pull(tag)
                        yield next(it)
                return g()

        def counting_infinite():
            hit["infinite"] = True
            tag = c.tag
            while True:
                c.pull(tag)
                yield True

        for modname, attr, val in (("reactivex.observable.range", "range", CountingRange),
                                   ("reactivex.operators._repeat", "infinite", counting_infinite)):
            try:
                mod = importlib.import_module(modname)
            except Exception:
                continue
            had = attr in vars(mod)
            self.saved.append((mod, attr, vars(mod).get(attr), had))
            setattr(mod, attr, val)
        return self

    def __exit__(self, *exc):
        for mod, attr, old, had in self.saved:
            if had:
                setattr(mod, attr, old)
            else:
                try:
                    delattr(mod, attr)
                except AttributeError:
                    pass
        return False


def make_scheduler(cfg: str, form: Dict[str, str]):
    from reactivex.scheduler import CurrentThreadScheduler, ImmediateScheduler, TrampolineScheduler
    if cfg in ("cts", "src_cts"):
        return TrampolineScheduler() if form.get("cts") == "TrampolineScheduler" else CurrentThreadScheduler()
    if cfg in ("imm", "src_imm", "imm_src_sing"):
        return ImmediateScheduler()
    if cfg in ("sing", "src_sing"):
        return CurrentThreadScheduler.singleton()
    if cfg == "vts":
        from reactivex.scheduler import HistoricalScheduler, VirtualTimeScheduler
        from reactivex.testing import TestScheduler
        return {"VirtualTimeScheduler": VirtualTimeScheduler, "TestScheduler": TestScheduler,
                "HistoricalScheduler": HistoricalScheduler}[form.get("vts", "VirtualTimeScheduler")]()
    return None


def applicable(scn: Dict[str, Any], form: Dict[str, str]) -> bool:
    """does this combination of API forms exist for the scenario?"""
    nd, cfg = scn["nd"], scn["cfg"]
    kinds = {n["k"] for n in nd}
    if form["take"] in ("first", "first_or_default", "is_empty") and any(n["k"] == "take" and n["n"] != 1 for n in nd):
        return False
    # these forward ONE element where take(n) forwards n: the same wiring only for n = 1 or at the root
    if form["take"] in ONE_ELEMENT and any(n["k"] == "take" and n["n"] != 1 and i != 0 for i, n in enumerate(nd)):
        return False
    # ... and a user who disposes inside the k-th on_next must see the same elements as with take(n)
    if scn.get("dsp") and form["take"] in ONE_ELEMENT and any(n["k"] == "take" and n["n"] != 1 for n in nd):
        return False
    if cfg in ("src_cts", "src_imm", "src_sing", "imm_src_sing") and "resched" in kinds and form["resched"] != "range":
        return False   # generate() takes no scheduler argument
    return True


def build(scn: Dict[str, Any], form: Dict[str, str], counter: Counter, profile: str, src_sched=None, root: int = 1):
    """the real pipeline for the exported node table (recursive descent over scn['nd'] from node `root`)"""
    import reactivex as rx
    from reactivex import operators as ops
    nd = scn["nd"]

    def const_true(*_a):
        return True

    mytag = counter.tag

    def mk(i: int):
        counter.tag = mytag       # sources (also inner ones built later, from inside a callback) belong to this pipeline
        n = nd[i - 1]
        k = n["k"]
        if k == "loop":
            it = CountingIter(counter, profile)
            if form["loop"] == "generator":
                it = (x for x in it)
            f = rx.from_ if form["loop"] == "from_" else rx.from_iterable
            return f(it, scheduler=src_sched) if src_sched is not None else f(it)
        if k == "resched":
            if form["resched"] == "range":
                return rx.range(0, sys.maxsize, scheduler=src_sched) if src_sched is not None else rx.range(0, sys.maxsize)

            tag = counter.tag

            def cond(_s):
                counter.pull(tag)
                return True
            return rx.generate(0, cond, lambda s_: _val(profile, 0) if profile == "falsy" else s_ + 1)
        if k == "one":
            v = _val(profile, 0)
            return {"return_value": rx.return_value, "of": rx.of, "just": rx.just}[form["one"]](v)
        if k == "never":
            return rx.never()
        if k == "sync":
            v0 = _val(profile, 0)

            def sync_subscribe(observer, _scheduler=None):
                observer.on_next(v0)
                observer.on_completed()
            return rx.create(sync_subscribe)
        if k == "empty":
            return rx.empty()
        if k == "take":
            cnt, src, f = n["n"], mk(n["a"]), form["take"]
            if f == "take":
                return src.pipe(ops.take(cnt))
            if f == "first":
                return src.pipe(ops.first())
            if f == "first_or_default":
                return src.pipe(ops.first_or_default(None, "dflt"))
            if f == "element_at":
                return src.pipe(ops.element_at(cnt - 1))
            if f == "take_while":
                def fresh(_s):      # per-subscription predicate state (defer = one more element-wise layer)
                    seen = [0]

                    def pred(_x):
                        seen[0] += 1
                        return seen[0] < cnt
                    return src.pipe(ops.take_while(pred, inclusive=True))
                return rx.defer(fresh)
            if f == "take_while_indexed":
                return src.pipe(ops.take_while_indexed(lambda _x, idx: idx < cnt - 1, inclusive=True))
            if f == "slice":
                return src.pipe(ops.slice(0, cnt))
            if f == "is_empty":
                return src.pipe(ops.is_empty())
            if f in ("find", "find_index"):
                return src.pipe((ops.find if f == "find" else ops.find_index)(lambda _x, idx, _s: idx == cnt - 1))
            if f in ("some", "all", "first_pred"):
                def fresh2(_s):     # per-subscription predicate state: true exactly at the cnt-th element
                    seen = [0]

                    def at_nth(_x):
                        seen[0] += 1
                        return seen[0] == cnt
                    if f == "some":
                        return src.pipe(ops.some(at_nth))
                    if f == "first_pred":
                        return src.pipe(ops.first(at_nth))
                    return src.pipe(ops.all(lambda x: not at_nth(x)))
                return rx.defer(fresh2)
            raise ValueError(f)
        if k == "map":
            src, f = mk(n["a"]), form["map"]
            if f == "map":
                return src.pipe(ops.map(lambda x: x))
            if f == "filter":
                return src.pipe(ops.filter(const_true))
            if f == "do_action":
                return src.pipe(ops.do_action(lambda x: None))
            if f == "skip0":
                return src.pipe(ops.skip(0))
            if f == "as_observable":
                return src.pipe(ops.as_observable())
            if f == "scan":
                return src.pipe(ops.scan(lambda _acc, x: x))
            if f == "timestamp":
                return src.pipe(ops.timestamp())
            if f == "skip_while":
                return src.pipe(ops.skip_while(lambda _x: False))
            if f == "map_indexed":
                return src.pipe(ops.map_indexed(lambda x, _i: x))
            if f == "filter_indexed":
                return src.pipe(ops.filter_indexed(lambda _x, _i: True))
            raise ValueError(f)
        if k == "defer":
            c = nd[n["a"] - 1]
            if c["k"] == "concatinf":
                x = mk(c["a"])
                if form["repeat"] == "ops.repeat":
                    return x.pipe(ops.repeat())

                tag = counter.tag

                def gen():
                    while True:
                        counter.pull(tag)
                        yield x
                return rx.defer(lambda _s: rx.concat_with_iterable(gen()))
            inner = mk(n["a"])
            return rx.defer(lambda _s: inner)
        if k == "concatinf":
            x = mk(n["a"])

            tag2 = counter.tag

            def gen2():
                while True:
                    counter.pull(tag2)
                    yield x
            return rx.concat_with_iterable(gen2())
        if k == "share":
            src = mk(n["a"])
            return src.pipe(ops.share()) if form["share"] == "share" else src.pipe(ops.publish(), ops.ref_count())
        if k in ("flatmap", "switchmap"):
            outer, b = mk(n["a"]), n["b"]
            f = form[k]
            if k == "flatmap":
                if f == "flat_map":
                    return outer.pipe(ops.flat_map(lambda _x: mk(b)))
                if f == "flat_map_indexed":
                    return outer.pipe(ops.flat_map_indexed(lambda _x, _i: mk(b)))
                return outer.pipe(ops.map(lambda _x: mk(b)), ops.merge_all())
            if f == "flat_map_latest":
                return outer.pipe(ops.flat_map_latest(lambda _x: mk(b)))
            if f == "switch_map":
                return outer.pipe(ops.switch_map(lambda _x: mk(b)))
            return outer.pipe(ops.map(lambda _x: mk(b)), ops.switch_latest())
        a, b = mk(n["a"]), mk(n["b"])
        f = form[k]
        if k == "merge":
            if f == "merge_max_concurrent":
                return rx.from_iterable([a, b]).pipe(ops.merge(max_concurrent=2))
            return rx.merge(a, b) if f == "rx.merge" else a.pipe(ops.merge(b))
        if k == "concat":
            if f == "concat_with_iterable":
                return rx.concat_with_iterable([a, b])
            return rx.concat(a, b) if f == "rx.concat" else a.pipe(ops.concat(b))
        if k == "amb":
            return a.pipe(ops.amb(b))
        if k == "cl":
            return rx.combine_latest(a, b) if f == "rx.combine_latest" else a.pipe(ops.combine_latest(b))
        if k == "wlf":
            return a.pipe(ops.with_latest_from(b)) if f == "ops.with_latest_from" else rx.with_latest_from(a, b)
        if k == "takeuntil":
            return a.pipe(ops.take_until(b))
        if k == "zip":
            return rx.zip(a, b) if f == "rx.zip" else a.pipe(ops.zip(b))
        if k == "skipuntil":
            return a.pipe(ops.skip_until(b))
        raise ValueError(k)

    return mk(root)


def perform(scn: Dict[str, Any], form: Dict[str, str], profile: str = "plain", watchdog: float = 5.0,
            budget: Optional[int] = None) -> Dict[str, Any]:
    """run the scenario on the real library; the observation"""
    counter = Counter(budget or scn["budget"])
    out: List[Any] = []
    flags = {"done": 0, "err": 0, "late": 0, "sub_returned": False, "udisp": False}
    holder: List[Any] = []
    dsp = scn.get("dsp", 0)
    ur = scn.get("ur", 0)
    ucalls = [0]
    nd0 = scn["nd"][0]
    pair = nd0["k"] == "pair"
    out2: List[Any] = []
    flags2 = {"done": 0, "late": 0}
    escaped = 0

    def boom():
        ucalls[0] += 1
        if ur and ucalls[0] == ur:
            raise UserBoom()

    def on_next(v):
        out.append(v)
        if flags["done"] or flags["err"] or flags["udisp"]:
            flags["late"] += 1
        boom()
        if dsp and len(out) == dsp and holder:     # the user unsubscribes from inside the callback
            flags["udisp"] = True
            holder[0].dispose()

    def on_error(e):   # element_at / first on a source that ends early report it as on_error: a terminal like any other
        if flags["done"] or flags["err"]:
            flags["late"] += 1
        flags["err"] += 1
        flags["error"] = type(e).__name__
        boom()

    def on_completed():
        if flags["done"] or flags["err"]:
            flags["late"] += 1
        flags["done"] += 1
        boom()

    def on_next2(v):
        out2.append(v)
        if flags2["done"]:
            flags2["late"] += 1

    def on_done2(*_a):
        if flags2["done"]:
            flags2["late"] += 1
        flags2["done"] += 1

    counter.ended = {1: lambda: bool(flags["done"] or flags["err"] or flags["udisp"]), 2: lambda: bool(flags2["done"])}

    cfg = scn["cfg"]
    sched = make_scheduler(cfg, form)
    kw = {"scheduler": sched} if cfg in ("cts", "imm", "vts", "sing", "imm_src_sing") else {}
    src_sched = sched if cfg in ("src_cts", "src_imm", "src_sing") else None
    if cfg == "imm_src_sing":      # everything immediate, the never-ending source pinned to the thread's current-thread scheduler
        from reactivex.scheduler import CurrentThreadScheduler as _CTS
        src_sched = _CTS.singleton()
    old_limit = sys.getrecursionlimit()
    sys.setrecursionlimit(max(old_limit, 20000))
    old = signal.signal(signal.SIGALRM, _alarm)
    signal.setitimer(signal.ITIMER_REAL, watchdog)
    outcome, extra = "returned", None
    patches = _Patches(counter)
    try:
        with patches:
            obs = build(scn, form, counter, profile, src_sched, root=nd0["a"] if pair else 1)
            try:
                if scn["ctx"] == "top":
                    holder.append(obs.subscribe(on_next, on_error, on_completed, **kw))
                else:
                    from reactivex.scheduler import CurrentThreadScheduler

                    def act(_s, _st=None):
                        holder.append(obs.subscribe(on_next, on_error, on_completed, **kw))
                        flags["sub_returned"] = True
                    CurrentThreadScheduler.singleton().schedule(act)
                if cfg == "vts":     # the virtual-time scheduler only collected work so far (TestScheduler.start is a different helper)
                    from reactivex.scheduler import VirtualTimeScheduler
                    flags["sub_returned"] = True
                    VirtualTimeScheduler.start(sched)
            except UserBoom:       # the caller catches what its own callback raised ...
                escaped += 1
            if pair:               # ... and subscribes again on the same thread: a healthy pipeline
                counter.phase2 = True
                counter.tag = 2
                obs2 = build(scn, form, counter, profile, src_sched, root=nd0["b"])
                obs2.subscribe(on_next2, on_done2, on_done2, **kw)
    except BudgetExhausted:
        outcome = "budget"
    except Hang:
        outcome = "hang"
    except RecursionError:
        outcome = "recursion"
    except Exception as e:   # an exception escaping subscribe() is an observation
        outcome, extra = "raised", type(e).__name__ + ": " + str(e)[:200]
    finally:
        signal.setitimer(signal.ITIMER_REAL, 0)
        signal.signal(signal.SIGALRM, old)
        sys.setrecursionlimit(old_limit)
    counter.closed = True
    got = {"outcome": outcome, "returned": outcome == "returned", "pulled": counter.n, "emitted": len(out),
           "done": bool(flags["done"] or flags["err"]), "late": flags["late"] + flags2["late"], "errors": flags["err"],
           "udisp": flags["udisp"], "latepull": counter.late, "stale": counter.stale, "emitted2": len(out2),
           "done2": bool(flags2["done"]), "escaped": escaped}
    if extra:
        got["raised"] = extra
    if flags.get("error"):
        got["error"] = flags["error"]
    got["range_hook_hit"] = patches.hit["range"]
    return got


# ---- structural facts about a shape (for failure records / known-finding matches) -----------------
def _parents(nd) -> Dict[int, Tuple[int, str]]:
    par: Dict[int, Tuple[int, str]] = {}
    for i, n in enumerate(nd, 1):
        if n["a"]:
            par[n["a"]] = (i, "a")
        if n["b"]:
            par[n["b"]] = (i, "b")
    return par


def sites(nd, kind: str) -> List[str]:
    """for every node of `kind`: every combinator on its path to the root with the argument position the path
    enters it by ("merge:a", "flatmap:a" for flat_map(merge(X, ..), ..)); "direct" when there is none; positions
    above a consumer that bounds the node are marked ("cl:a/take").  Flattened over the nodes, without repeats."""
    par = _parents(nd)
    res: List[str] = []
    for i, n in enumerate(nd, 1):
        if n["k"] != kind:
            continue
        j, via, found = i, "", False
        while j in par:
            p, role = par[j]
            pk = nd[p - 1]["k"]
            if pk in COMBINATORS:
                found = True
                s = f"{pk}:{role}{via}"
                if s not in res:
                    res.append(s)
            if pk == "take":
                via = "/take"
            j = p
        if not found and "direct" not in res:
            res.append("direct")
    return res


LAZY = ("merge", "concat", "concatinf", "flatmap", "switchmap")   # subscribe (some of) their sources from a scheduled action


def sites_with_lazy_sibling(nd, kind: str) -> List[str]:
    """those of `sites` (unbounded ones) whose OTHER argument is a combinator that subscribes its own sources only
    from a scheduled action (merge, concat, repeat, flat_map, switch_map), element-wise layers skipped"""
    par = _parents(nd)
    res: List[str] = []
    for i, n in enumerate(nd, 1):
        if n["k"] != kind:
            continue
        j = i
        while j in par:
            p, role = par[j]
            pn = nd[p - 1]
            if pn["k"] == "take":
                break
            if pn["k"] in COMBINATORS:
                sib = pn["b"] if role == "a" else pn["a"]
                while nd[sib - 1]["k"] in ("map", "defer", "share", "take"):
                    sib = nd[sib - 1]["a"]
                s = f"{pn['k']}:{role}"
                if nd[sib - 1]["k"] in LAZY and s not in res:
                    res.append(s)
            j = p
    return res


def shape_name(nd, i: int = 1) -> str:
    n = nd[i - 1]
    k = n["k"]
    if k == "take":
        return f"take{n['n']}({shape_name(nd, n['a'])})"
    if n["a"] and n["b"]:
        return f"{k}({shape_name(nd, n['a'])},{shape_name(nd, n['b'])})"
    if n["a"]:
        return f"{k}({shape_name(nd, n['a'])})"
    return k


def variants(scn: Dict[str, Any], full: bool = False, rnd=None, cap: int = 24) -> List[Tuple[Dict[str, str], str]]:
    """(form assignment, value profile) pairs replayed for one scenario: the base spelling, every
    kind present varied one at a time, and the falsy value profile; `full`: (sampled) product"""
    kinds = {n["k"] for n in scn["nd"]}
    nd = scn["nd"]
    if any(n["k"] == "defer" and nd[n["a"] - 1]["k"] == "concatinf" for n in nd):
        kinds.add("repeat")
    if scn["cfg"] in ("cts", "src_cts"):
        kinds.add("cts")
    if scn["cfg"] == "vts":
        kinds.add("vts")
    base = default_form()
    if scn["cfg"] in ("src_cts", "src_imm", "src_sing", "imm_src_sing"):
        base["resched"] = "range"
    res = [(dict(base), "plain"), (dict(base), "falsy")]
    axes = [k for k in FORMS if k in kinds and len(FORMS[k]) > 1]
    if full:
        combos = list(itertools.product(*[FORMS[k] for k in axes]))
        if rnd is not None and len(combos) > cap:
            combos = rnd.sample(combos, cap)
        for combo in combos[:cap * 4]:
            f = dict(base)
            f.update(dict(zip(axes, combo)))
            res.append((f, "plain" if hash(combo) % 2 else "falsy"))
    else:
        for k in axes:
            for alt in FORMS[k][1:]:
                f = dict(base)
                f[k] = alt
                res.append((f, "plain"))
    seen, uniq = set(), []
    for f, p in res:
        key = (json.dumps(f, sort_keys=True), p)
        if key not in seen and applicable(scn, f):
            seen.add(key)
            uniq.append((f, p))
    return uniq


_HANGS = [0]


def _same(got, m, form) -> bool:
    return (got["returned"] == m["returned"] and got["pulled"] == m["pulled"] and got["done"] == m["done"]
            and got["stale"] == m.get("stale", 0) and got["done2"] == m.get("done2", False)
            and got["escaped"] == m.get("escaped", 0) and got["latepull"] == m.get("latepull", 0)
            and (form["take"] != "take" or (got["emitted"] == m["emitted"] and got["emitted2"] == m.get("emitted2", 0))))


def judge(scn: Dict[str, Any], allowed: List[Dict[str, Any]], form: Dict[str, str], profile: str, confirm: bool = True):
    """-> (failure record or None, drift message or None, observation).
    `allowed`: the model's observations for the scenario - one, or two for subscribe(scheduler=<trampoline
    scheduler>) where the module also carries the repaired subscribe (proposed fix)."""
    if _HANGS[0] >= 3:
        return None, None, None
    got = perform(scn, form, profile)
    if got["outcome"] == "hang":           # confirm: a loaded machine must not turn into a verdict
        got = perform(scn, form, profile, watchdog=20.0)
        if got["outcome"] == "hang":
            _HANGS[0] += 1
    nd = scn["nd"]
    fail = None
    note = None
    # the verdict must not depend on the size of the budget: confirm with 8x (always when the model expected a
    # return; otherwise for the base spelling of each scenario)
    if got["outcome"] == "budget" and (confirm or any(m["returned"] for m in allowed)):
        big = perform(scn, form, profile, budget=8 * scn["budget"])
        if big["returned"]:
            note = f"needs {big['pulled']} pulls > model budget {scn['budget']}"
            got = big
    # the model observation to report against: the one the run agrees with, else one with the same verdict
    model = next((m for m in allowed if _same(got, m, form)), None) \
        or next((m for m in allowed if m["returned"] == got["returned"]), allowed[0])
    # property level: subscribe() returns normally before the work budget is used up and the sink sees N* C?
    # (only for pipelines that can terminate at all: obs.applicable, the module's scope predicate)
    # ... and "the source stops producing": the counted sources are advanced exactly as often as the spec's execution of the
    # scenario says (obs.pulled - e.g. exactly k times under take(k)), never after the pipeline's subscriber was done with it
    # (obs.latepull = 0), never on behalf of a pipeline whose subscribe() raised and was abandoned (obs.stale = 0)
    over = got["returned"] and model["returned"] and (
        got["pulled"] > model["pulled"] or got["latepull"] > model.get("latepull", 0) or got["stale"] > model.get("stale", 0))
    if (not got["returned"] and model["applicable"]) or got["late"] or over:
        kinds = sorted({n["k"] for n in nd if n["k"] in INF_KINDS})
        fail = {"engine": "subscribe", "shape": shape_name(nd), "cfg": scn["cfg"], "ctx": scn["ctx"], "user_dispose_at": scn.get("dsp", 0),
                "failure": got["outcome"] if not got["returned"] else ("grammar" if got["late"] else
                            "stale_work" if got["stale"] > model.get("stale", 0) else
                            "pull_after_end" if got["latepull"] > model.get("latepull", 0) else "overpull"),
                "user_raises_at": scn.get("ur", 0), "stale_pulls": got["stale"], "pulls_after_end": got["latepull"],
                "sink_completed": got["done"], "infinite_kinds": kinds,
                "loop_sites": sites(nd, "loop"), "loop_sites_lazy_sibling": sites_with_lazy_sibling(nd, "loop"), "model_returned": model["returned"], "model_cause": model["cause"],
                "form": form, "profile": profile, "scn": scn, "model": model, "allowed": allowed, "observed": got}
    drift = None
    take_forms_plain = form["take"] == "take"
    if got["returned"] != model["returned"]:
        drift = f"verdict: model returned={model['returned']} real outcome={got['outcome']}"
    elif got["escaped"] != model.get("escaped", 0):
        drift = f"exceptions reaching the caller: model {model.get('escaped')} real {got['escaped']}"
    elif got["stale"] != model.get("stale", 0) or got["latepull"] != model.get("latepull", 0):
        drift = f"stale/late pulls: model {model.get('stale')}/{model.get('latepull')} real {got['stale']}/{got['latepull']}"
    elif got["done2"] != model.get("done2", False):
        drift = f"second pipeline completed: model {model.get('done2')} real {got['done2']}"
    elif got["udisp"] != model.get("udisp", False):
        drift = f"user dispose reached: model {model.get('udisp')} real {got['udisp']}"
    elif got["pulled"] != model["pulled"]:
        drift = f"pulled: model {model['pulled']} real {got['pulled']}"
        if form["resched"] == "range" and any(n["k"] == "resched" for n in nd) and not got["range_hook_hit"]:
            drift += " (counting hook for range() not reached)"
    elif got["done"] != model["done"]:
        drift = f"sink completed: model {model['done']} real {got['done']}"
    elif take_forms_plain and got["emitted"] != model["emitted"]:
        drift = f"emitted: model {model['emitted']} real {got['emitted']}"
    if note:
        drift = (drift + "; " if drift else "") + note
    if drift:
        drift = f"{shape_name(nd)} cfg={scn['cfg']} ctx={scn['ctx']} form={_short(form, nd)} {drift}"
    return fail, drift, got


def _short(form, nd):
    kinds = {n["k"] for n in nd} | {"cts", "vts", "repeat"}
    return ",".join(f"{k}={v}" for k, v in form.items() if k in kinds and v != FORMS[k][0]) or "base"


def job(args):
    scn, allowed, form, profile = args[:4]
    return judge(scn, allowed, form, profile, confirm=args[4] if len(args) > 4 else True)
