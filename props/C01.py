"""C01 - every subscriber sees a well-formed notification sequence.
(a) Ops1.tla scenarios whose SOURCE is non-conforming (goes on after its terminal notification, terminates twice):
    the model consumes the surplus without effect, so the expected observation is the conforming one; also with the
    subscriber's own callbacks raising (grammar of what it saw), and with terminal callbacks that RE-ENTER a still-alive
    non-conforming source synchronously.
(b) Lifecycle.tla as trace monitor (guard of Sink: only while no terminal was seen) over pipelines of every catalogue
    operator, alone and composed to depth 2-3, on conforming and non-conforming hot/cold sources.
(c) Subscribe.tla's auto-detach protocol model, when present (props/c01_core.py)."""
from harness import core
from props import lifecycle_common as lc
from props import ops1_common as oc
from props import ops1_ext as ox

META = {
    "technique": "Lifecycle.tla monitor (sink grammar as action guard) validating traces of catalogue pipelines with TLC + Ops1.tla expected observations replayed over non-conforming sources and raising subscriber callbacks",
    "level": "The grammar N* (E|C)? is the guard of the monitor's Sink action, so TLC accepts a recorded execution only if every subscriber callback respects it (windows/groups handed out are monitored the same way). Executions come from every operator of the catalogue (about 125) alone and from random compositions of depth 2-3, over hot and cold sources, including sources that emit after their terminal notification or terminate twice. For the operators modelled in Ops1.tla the expected stream itself is checked: a non-conforming source must give exactly the observation of its conforming prefix, and a subscriber callback that raises must not be called again after a terminal. Exhaustive for the Ops1 part, sampled (seeded) for the pipelines.",
    "note": "TLC 1.8; catalogue arguments are generic; pipelines the catalogue cannot type correctly are skipped and counted, never judged",
    "ref": "DESIGN.md 6 C01",
}
K = [2]
JUNKS = [["N"], ["C"], ["E"], ["N", "C"], ["C", "N", "E"]]


def variants(scn):
    h = len(str(scn))
    out = [dict(mode="junk", hot=bool(h % 2), tmap="spread", profile="plain", k=K[0], salt=h % 2, junk=JUNKS[h % len(JUNKS)]),
           dict(mode="junk", hot=not bool(h % 2), tmap="bunched", profile="plain", k=K[0], salt=0, junk=JUNKS[(h + 2) % len(JUNKS)])]
    out.append(dict(mode="reenter", profile="plain", k=K[0], salt=h % 2, reenter=[["N", "C"], ["N"], ["N", "E"], ["C", "N"]][h % 4]))
    out.append(dict(mode="sink_raise", hot=bool(h % 2), tmap="spread", profile="plain", k=K[0], salt=0,
                    which=[["N", 1], ["N", 2], ["C", 1], ["E", 1]][h % 4]))
    return out


def run(tier):
    ck = core.Check("C01", tier)
    k, n = (2, 2) if tier == "quick" else (2, 3)
    K[0] = k
    consts = dict(NVals=k, MaxLen=n, Terms={"C", "E"}, Disposes=False, Faults=False, IdentSrc=False)
    groups = oc.export_groups(ck, oc.ELEMENTWISE + oc.AGGREGATES, consts, "export")
    ox.replay_groups(ck, groups, variants, procs=10)
    lc.design_check(ck)
    per_op, nd = (5, 700) if tier == "quick" else (40, 8000)
    st = {}
    st["single"] = lc.validate(ck, "C01", lc.specs_single(ck.seed + 11, per_op), "catalogue operators alone")
    st["single_junk"] = lc.validate(ck, "C01", lc.specs_single(ck.seed + 12, per_op, junk=True), "alone, non-conforming source")
    st["depth2_junk"] = lc.validate(ck, "C01", lc.specs_depth(ck.seed + 13, nd, 2, junk=True), "depth 2, non-conforming source")
    st["depth3"] = lc.validate(ck, "C01", lc.specs_depth(ck.seed + 14, nd, 3), "depth 3")
    st["poke"] = lc.validate(ck, "C01", lc.specs_single(ck.seed + 15, per_op, poke=True) + lc.specs_depth(ck.seed + 16, nd, 2, poke=True),
                             "hot sources, the subscriber's terminal callback makes every still-subscribed source emit again (tear-down window)")
    try:
        from props import c01_core
        c01_core.check_autodetach(ck, tier)
        ck.note("autodetach_model", "Subscribe.tla auto-detach protocol checked (props/c01_core.py)")
    except ImportError:
        ck.note("autodetach_model", "not present")
    ck.note("pipeline_runs", st)
    ck.rule = (f"(a) every Ops1 scenario ({k} tokens, length 0..{n}) x 2 surplus-notification patterns x 1 re-entrant terminal callback x 1 raising-subscriber pattern; "
               f"(b) each catalogue operator x {per_op} seeded scenarios conforming + {per_op} non-conforming, {nd} depth-2 and {nd} depth-3 "
               "pipelines; non-trivial = scenarios whose source emits after its terminal, plus traces with at least one sink notification")
    ck.nontrivial = len(groups) + st["single_junk"]["validated"] + st["depth2_junk"]["validated"]
    ck.exhaustive = False
    for g in groups[:: max(1, len(groups) // 3)][:3]:
        ck.sample({"scn": g[0], "allowed": g[1], "surplus_after_terminal": JUNKS[len(str(g[0])) % len(JUNKS)]})
    ck.assumptions = ["depth >= 2 is sampled (seeded), not exhausted", "a subscriber on_next that raises is not a terminal notification; "
                      "the escaping exception is the subscriber's own"]
    return ck.finish()


def replay(rec):
    if rec.get("engine") == "lifecycle":
        return lc.replay(rec)
    return ox.generic_replay(rec)
