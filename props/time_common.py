"""Binding A for OpsTime.tla (C15 time shifting, C16 rate limiting, C17 time windows).

An exported scenario (operator, parameters, source timeline with integer times, terminal,
auxiliary timeline, dispose instant) is built on the real library on a virtual-time scheduler
(TestScheduler with a float clock, or HistoricalScheduler with a datetime clock), run through
the model's horizon with advance_to, projected to the record the model exports and compared
with the allowed set on the operator's asserted projection.

This file holds the codec only: tokens <-> Python values, ticks <-> scheduler times, timelines
<-> scripted sources, spec records <-> delay/throttle/timeout observables.  What an operator
should emit comes from TLC."""
from __future__ import annotations

import time
from datetime import timedelta
from typing import Any, Dict, List, Optional, Tuple

NEVER = 9999
SUB = 200          # the subscriber subscribes at virtual second 200 (model instant 0)


class SrcErr(Exception):
    """the source's on_error value"""


class AuxErr(Exception):
    """the sampler's / fallback's on_error value"""


class DlyErr(Exception):
    """on_error value of a per-element delay / throttle / timeout observable"""


class FnErr(Exception):
    """raised by a scenario's mapper function (spec kind X)"""


def _falsy(cls):
    """the same error class with instances that are falsy (an exception object is still an exception)"""
    return type("Falsy" + cls.__name__, (cls,), {"__bool__": lambda self: False})


FALSY_ERRS = {c: _falsy(c) for c in (SrcErr, AuxErr, DlyErr, FnErr)}


def make_err(cls, msg, falsy):
    return (FALSY_ERRS[cls] if falsy else cls)(msg)


class Hang(BaseException):
    """the watchdog fired: the real run did not finish"""


def _alarm(signum, frame):
    raise Hang()


WATCHDOG_S = 20.0         # wall clock; a real run takes well under a millisecond
HANGS: Dict[str, int] = {}   # per process: operators whose runs hung (further runs of that operator are skipped)


# ---- families (mirrors of the sets in OpsTime.tla, used for dispatch only) -------------------------
ABS_OPS = {"delay_abs", "delay_subscription_abs", "take_until_abs", "skip_until_abs", "timeout_abs", "timeout_abs_other"}
FB_OPS = {"timeout_other", "timeout_abs_other", "timeout_with_mapper_other"}
HOT_OPS = {"delay_subscription", "delay_subscription_abs", "delay_with_mapper_sub"}
MAP_OPS = {"delay_with_mapper", "delay_with_mapper_sub", "throttle_with_mapper", "timeout_with_mapper", "timeout_with_mapper_other"}
NOSCHED_OPS = MAP_OPS | {"sample_obs"}      # operators without a scheduler parameter
SAMPLE_OPS = {"sample", "sample_obs"}

C15_OPS = [["delay", "delay_abs", "timestamp", "time_interval"], ["delay_subscription", "delay_subscription_abs"],
           ["delay_with_mapper"], ["delay_with_mapper_sub"]]
C16_OPS = [["debounce", "throttle_first", "sample"], ["throttle_with_mapper"], ["sample_obs"]]
C17_OPS = [["take_with_time", "take_until_with_time", "take_until_abs", "skip_with_time", "skip_until_with_time", "skip_until_abs",
            "take_last_with_time", "skip_last_with_time", "timeout", "timeout_abs"],
           ["timeout_other", "timeout_abs_other"], ["timeout_with_mapper", "timeout_with_mapper_other"]]

MODEL_INVS = ["TypeOK", "Grammar", "Causal", "NotEarly", "Silent", "Released", "RefOK", "BoundaryIndependent", "EchoOK"]

# ---- values ---------------------------------------------------------------------------------------------

def make_vals(profile: str, salt: int) -> Tuple[List[Any], List[Any]]:
    """(source element values by position, fallback element values by position); fresh objects per run so
    that [] and {} are recognised by identity"""
    if profile == "falsy":
        pool = [None, 0, "", (), [], {}, 0.0, False]
        k = salt % 6
        src = pool[k:6] + pool[:k]
        return src, [0.0, False, None, 0]
    if salt % 2:
        return [f"v{t}" for t in range(8)], [f"f{t}" for t in range(4)]
    return list(range(10, 18)), list(range(50, 54))


def same(a: Any, b: Any) -> bool:
    if a is b:
        return True
    if isinstance(a, (list, dict)) or isinstance(b, (list, dict)):
        return False         # mutable falsy values are told apart by identity
    return type(a) is type(b) and a == b


# ---- clocks -----------------------------------------------------------------------------------------------

class Clock:
    """kind 'test': TestScheduler, float seconds.  kind 'hist': HistoricalScheduler, aware datetimes.
    S: seconds per model tick."""

    def __init__(self, kind: str, S: int):
        self.kind, self.S = kind, S

    def make(self):
        if self.kind == "test":
            from reactivex.testing import TestScheduler
            return TestScheduler()
        from reactivex.scheduler import HistoricalScheduler
        return HistoricalScheduler()

    def real(self, tick) -> float:
        return SUB + self.S * tick

    def A(self, sec):
        """absolute scheduler time for virtual second `sec`"""
        if self.kind == "test":
            return float(sec)
        from reactivex.scheduler.scheduler import UTC_ZERO
        return UTC_ZERO + timedelta(seconds=sec)

    def DT(self, sec):
        """virtual second as an absolute datetime argument (both clocks accept datetimes)"""
        from reactivex.scheduler.scheduler import UTC_ZERO
        return UTC_ZERO + timedelta(seconds=sec)

    def R(self, sec, form: str):
        if form == "td":
            return timedelta(seconds=sec)
        return sec if form == "num" else float(sec)

    def secs(self, s) -> float:
        c = s.clock
        if self.kind == "test":
            return float(c)
        from reactivex.scheduler.scheduler import UTC_ZERO
        return (c - UTC_ZERO).total_seconds()

    def tick(self, sec: float):
        x = (sec - SUB) / self.S
        return int(x) if x == int(x) else round(x, 6)


# ---- scripted sources -----------------------------------------------------------------------------------------

class Script:
    """A source whose notifications are scheduled on the virtual-time scheduler.
    events: [(second, kind, payload)] - absolute seconds for hot modes, offsets for cold modes.
    modes (they differ only in WHEN the scheduler items are enqueued, which drives the order among
    actions due at the same instant - DESIGN 3.2):
      hot        every notification enqueued when the source is created
      hot_chain  notification k+1 enqueued by notification k, after it was delivered
      hot_pre    notification k+1 enqueued by notification k, before it is delivered
      cold       every notification enqueued at subscription
      cold_chain notification k+1 enqueued by notification k, after it was delivered"""

    def __init__(self, s, clk: Clock, events, mode: str):
        import reactivex
        self.s, self.clk, self.events, self.mode = s, clk, events, mode
        self.subs: List[List[Any]] = []
        self.observers: List[Any] = []
        self.ended = False
        self.obs = reactivex.Observable(self._subscribe)
        if mode == "hot":
            for ev in events:
                s.schedule_absolute(clk.A(ev[0]), self._hot_action(ev))
        elif mode in ("hot_chain", "hot_pre") and events:
            s.schedule_absolute(clk.A(events[0][0]), self._chain_action(0))

    def push(self, value):
        """feedback: somebody pushes one more element into this (hot) source, now; a terminated source ignores it"""
        if not self.ended:
            for o in self.observers[:]:
                o.on_next(value)

    def end(self, kind, payload=None):
        """feedback: somebody terminates this (hot) source, now (on_error / on_completed); nothing follows a terminal"""
        if not self.ended:
            self.ended = True
            for o in self.observers[:]:
                self._send(o, (None, kind, payload))

    @staticmethod
    def _send(o, ev):
        if ev[1] == "N":
            o.on_next(ev[2])
        elif ev[1] == "C":
            o.on_completed()
        else:
            o.on_error(ev[2])

    def _hot_action(self, ev):
        def action(_s, _st=None):
            if self.ended:
                return           # terminated from outside (end): the rest of the script is void
            if ev[1] != "N":
                self.ended = True
            for o in self.observers[:]:
                self._send(o, ev)
        return action

    def _chain_action(self, k):
        def action(_s, _st=None):
            if self.ended:
                return
            nxt = k + 1 < len(self.events)
            if nxt and self.mode == "hot_pre":
                self.s.schedule_absolute(self.clk.A(self.events[k + 1][0]), self._chain_action(k + 1))
            if self.events[k][1] != "N":
                self.ended = True
            for o in self.observers[:]:
                self._send(o, self.events[k])
            if nxt and self.mode == "hot_chain":
                self.s.schedule_absolute(self.clk.A(self.events[k + 1][0]), self._chain_action(k + 1))
        return action

    def _subscribe(self, observer, scheduler=None):
        from reactivex.disposable import CompositeDisposable, Disposable, SerialDisposable
        log = [self.clk.secs(self.s), None]
        self.subs.append(log)
        if self.mode.startswith("hot"):
            self.observers.append(observer)

            def undo():
                if observer in self.observers:
                    self.observers.remove(observer)
                if log[1] is None:
                    log[1] = self.clk.secs(self.s)
            return Disposable(undo)
        t0 = self.clk.secs(self.s)
        if self.mode == "cold":
            disp = CompositeDisposable()
            for ev in self.events:
                disp.add(self.s.schedule_relative(self.clk.R(ev[0], "num"), lambda _s, _st=None, ev=ev: self._send(observer, ev)))
        else:
            disp = SerialDisposable()

            def step(k):
                def action(_s, _st=None):
                    self._send(observer, self.events[k])
                    if k + 1 < len(self.events):
                        disp.disposable = self.s.schedule_absolute(self.clk.A(t0 + self.events[k + 1][0]), step(k + 1))
                return action
            if self.events:
                disp.disposable = self.s.schedule_absolute(self.clk.A(t0 + self.events[0][0]), step(0))

        def undo():
            if log[1] is None:
                log[1] = self.clk.secs(self.s)
            disp.dispose()
        return Disposable(undo)


SYNC_FLAVOURS = ("behavior", "inline", "of_immediate", "replay")


class SyncFire:
    """per-element observable for spec kind S: it fires synchronously, inside the subscribe call made on it (no scheduler
    hop whatever scheduler is passed along).  Flavours: a BehaviorSubject, an observable whose subscribe function calls the
    observer in line (two elements and a completion: only the FIRST notification may count), of() on the immediate
    scheduler, a ReplaySubject holding one element."""

    def __init__(self, flavour: str):
        import reactivex
        from reactivex.scheduler import ImmediateScheduler
        from reactivex.subject import BehaviorSubject, ReplaySubject
        if flavour == "behavior":
            self.obs = BehaviorSubject(0)
        elif flavour == "inline":
            def sub(observer, scheduler=None):
                from reactivex.disposable import Disposable
                observer.on_next("tick")
                observer.on_next("tock")
                observer.on_completed()
                return Disposable()
            self.obs = reactivex.Observable(sub)
        elif flavour == "of_immediate":
            self.obs = reactivex.from_iterable(["tick", "tock"], scheduler=ImmediateScheduler())
        else:
            r = ReplaySubject()
            r.on_next(None)
            self.obs = r


def spec_observable(s, clk: Clock, sp: Dict[str, Any], mode: str = "cold", falsy_err: bool = False, sync: str = "behavior"):
    """per-element observable for spec [k, t]: first notification of kind k at offset t.
    N: a second element and a completion follow (only the FIRST notification may count).
    S: fires inside subscribe (SyncFire)."""
    t = clk.S * sp["t"]
    k = sp["k"]
    if k == "S":
        return SyncFire(sync)
    if k == "N":
        ev = [(t, "N", "tick"), (t + clk.S, "N", "tock"), (t + 2 * clk.S, "C", None)]
    elif k == "C":
        ev = [(t, "C", None)]
    elif k == "E":
        ev = [(t, "E", make_err(DlyErr, "delay observable failed", falsy_err))]
    else:
        ev = []
    return Script(s, clk, ev, mode)


# ---- building a scenario --------------------------------------------------------------------------------------------

def build_operator(scn, s, clk: Clock, V, cfg, made):
    """the real operator for the scenario.  cfg: argform ('num' | 'float' | 'td'), schedarg (bool: pass
    scheduler= to the operator as well).  made: side table filled with the auxiliary scripts."""
    from reactivex import operators as ops
    op, par = scn["op"], scn["par"]
    S = clk.S
    kw = {"scheduler": s} if cfg.get("schedarg") and op not in NOSCHED_OPS else {}
    form = cfg.get("argform", "num")

    def dur():
        return clk.R(S * par["d"], form)

    def absd():
        return clk.DT(clk.real(par["d"]))

    def mapper_for(tag):
        table = par["m"]

        def mapper(x):
            for pos, v in enumerate(V["src"]):
                if same(v, x) and pos < len(table):
                    if table[pos]["k"] == "X":
                        raise make_err(FnErr, "mapper failed", cfg.get("errprofile") == "falsy")
                    sc = spec_observable(s, clk, table[pos], cfg.get("specmode", "cold"), cfg.get("errprofile") == "falsy",
                                         SYNC_FLAVOURS[(cfg.get("syncflavour", 0) + pos) % len(SYNC_FLAVOURS)])
                    made.setdefault(tag, []).append((pos + 1, sc))
                    return sc.obs
            raise AssertionError(f"mapper called with a value the source never emitted: {x!r}")
        return mapper

    def fallback():
        ev = [(S * t, "N", V["fb"][h]) for h, t in enumerate(scn["aux"])]
        if scn["aterm"] == "C":
            ev.append((S * scn["aT"], "C", None))
        elif scn["aterm"] == "E":
            ev.append((S * scn["aT"], "E", V["aux_err"]))
        sc = Script(s, clk, ev, cfg.get("fbmode", "cold"))
        made["fb"] = sc
        return sc.obs

    if op == "delay":
        return ops.delay(dur(), **kw)
    if op == "delay_abs":
        return ops.delay(absd(), **kw)
    if op == "delay_subscription":
        return ops.delay_subscription(dur(), **kw)
    if op == "delay_subscription_abs":
        return ops.delay_subscription(absd(), **kw)
    if op == "delay_with_mapper":
        return ops.delay_with_mapper(mapper_for("dl"))
    if op == "delay_with_mapper_sub":
        first = spec_observable(s, clk, par["f"], cfg.get("specmode", "cold"), cfg.get("errprofile") == "falsy")
        made["first"] = first
        return ops.delay_with_mapper(first.obs, mapper_for("dl"))
    if op == "timestamp":
        return ops.timestamp(**kw)
    if op == "time_interval":
        return ops.time_interval(**kw)
    if op == "debounce":
        return (ops.throttle_with_timeout if cfg.get("alias") else ops.debounce)(dur(), **kw)
    if op == "throttle_first":
        return ops.throttle_first(dur(), **kw)
    if op == "throttle_with_mapper":
        return ops.throttle_with_mapper(mapper_for("th"))
    if op == "sample":
        return ops.sample(dur(), **kw)
    if op == "sample_obs":
        return ops.sample(made["aux"].obs)
    if op == "take_with_time":
        return ops.take_with_time(dur(), **kw)
    if op == "take_until_with_time":
        return ops.take_until_with_time(dur(), **kw)
    if op == "take_until_abs":
        return ops.take_until_with_time(absd(), **kw)
    if op == "skip_with_time":
        return ops.skip_with_time(dur(), **kw)
    if op == "skip_until_with_time":
        return ops.skip_until_with_time(dur(), **kw)
    if op == "skip_until_abs":
        return ops.skip_until_with_time(absd(), **kw)
    if op == "take_last_with_time":
        return ops.take_last_with_time(dur(), **kw)
    if op == "skip_last_with_time":
        return ops.skip_last_with_time(dur(), **kw)
    if op == "timeout":
        return ops.timeout(dur(), **kw)
    if op == "timeout_other":
        return ops.timeout(dur(), fallback(), **kw)
    if op == "timeout_abs":
        return ops.timeout(absd(), **kw)
    if op == "timeout_abs_other":
        return ops.timeout(absd(), fallback(), **kw)
    if op in ("timeout_with_mapper", "timeout_with_mapper_other"):
        first = spec_observable(s, clk, par["f"], cfg.get("specmode", "cold"), cfg.get("errprofile") == "falsy")
        made["first"] = first
        return ops.timeout_with_mapper(first.obs, mapper_for("to"), fallback() if op.endswith("_other") else None)
    raise KeyError(op)


def src_modes(scn) -> List[str]:
    if scn.get("fbk", 0) > 0:
        return ["hot", "hot_chain", "hot_pre"]       # the sink pushes into the source: a hot, pushable one
    if scn["op"] in HOT_OPS:
        return ["hot", "hot_chain", "hot_pre"] if scn["hot"] else ["cold", "cold_chain"]
    if (scn["src"] and scn["src"][0] == 0) or (scn["term"] != "U" and scn["tT"] == 0):
        # a notification at the subscription instant itself: only a cold source has one for this subscriber
        return ["cold", "cold_chain"]
    return ["hot", "cold", "hot_chain", "hot_pre", "cold_chain"]


def run_scenario(scn: Dict[str, Any], cfg: Dict[str, Any]) -> Dict[str, Any]:
    """cfg: clock ('test'|'hist'), S, mode (source script mode), auxmode, auxfirst (create the sampler before the
    source), argform, schedarg, subsched (pass scheduler= to subscribe), profile, salt, hz"""
    clk = Clock(cfg.get("clock", "test"), cfg.get("S", 1))
    S = clk.S
    s = clk.make()
    src_vals, fb_vals = make_vals(cfg.get("profile", "plain"), cfg.get("salt", 0))
    fe = cfg.get("errprofile") == "falsy"
    V = {"src": src_vals, "fb": fb_vals, "src_err": make_err(SrcErr, "source failed", fe), "aux_err": make_err(AuxErr, "aux failed", fe)}
    mode = cfg.get("mode", "hot")
    hotmode = mode.startswith("hot")
    base = SUB if hotmode else 0
    ev = [(base + S * t, "N", V["src"][h]) for h, t in enumerate(scn["src"])]
    if scn["term"] == "C":
        ev.append((base + S * scn["tT"], "C", None))
    elif scn["term"] == "E":
        ev.append((base + S * scn["tT"], "E", V["src_err"]))
    made: Dict[str, Any] = {}

    def mk_aux():
        am = cfg.get("auxmode", "hot")
        ab = SUB if am.startswith("hot") else 0
        aev = [(ab + S * t, "N", "sampler") for t in scn["aux"]]
        if scn["aterm"] == "C":
            aev.append((ab + S * scn["aT"], "C", None))
        elif scn["aterm"] == "E":
            aev.append((ab + S * scn["aT"], "E", V["aux_err"]))
        made["aux"] = Script(s, clk, aev, am)

    if scn["op"] == "sample_obs" and cfg.get("auxfirst"):
        mk_aux()
    fbk = scn.get("fbk", 0)
    sc = None
    if cfg.get("clock", "test") == "test" and mode in ("hot", "cold") and not cfg.get("ownsrc") and not fbk:
        # the library's own test sources
        from reactivex.testing import ReactiveTest
        msgs = [ReactiveTest.on_next(t, p) if k == "N" else ReactiveTest.on_completed(t) if k == "C" else ReactiveTest.on_error(t, p)
                for (t, k, p) in ev]
        xs = s.create_hot_observable(msgs) if mode == "hot" else s.create_cold_observable(msgs)
        get_subs = lambda: [(float(x.subscribe), None if x.unsubscribe > 10 ** 9 else float(x.unsubscribe)) for x in xs.subscriptions]
    else:
        sc = Script(s, clk, ev, mode)
        xs = sc.obs
        get_subs = lambda: [tuple(x) for x in sc.subs]
    if scn["op"] == "sample_obs" and not cfg.get("auxfirst"):
        mk_aux()
    operator = build_operator(scn, s, clk, V, cfg, made)
    ys = xs.pipe(operator)
    rec: List[Tuple[float, str, Any]] = []
    rec2: List[Tuple[float, str, Any]] = []
    holder: Dict[str, Any] = {}

    off2 = S * cfg.get("off2", 0)

    def subscriber(key, r, shift):
        def on_next(v):
            r.append((clk.secs(s) - shift, "N", v))
            if fbk and key == "d" and sum(1 for x in r if x[1] == "N") == fbk:
                # feedback: the consumer, inside this very on_next, feeds one more element into the source it consumes
                fbx = scn.get("fbx", "N")
                if fbx == "N":
                    sc.push(V["src"][len(scn["src"])])
                else:
                    # ... or terminates it
                    sc.end(fbx, V["src_err"] if fbx == "E" else None)

        def subscribe(_s=None, _st=None):
            kw = {"scheduler": s} if cfg.get("subsched", True) else {}
            holder[key] = ys.subscribe(on_next=on_next,
                                       on_error=lambda e: r.append((clk.secs(s) - shift, "E", e)),
                                       on_completed=lambda: r.append((clk.secs(s) - shift, "C", None)), **kw)
        return subscribe
    s.schedule_absolute(clk.A(SUB), subscriber("d", rec, 0))
    if cfg.get("twice"):
        # a second, independent subscriber of the same pipeline, at the same instant or off2 ticks later (cold source,
        # relative parameters: it must see the same scenario, shifted). Operator state must be per subscription.
        s.schedule_absolute(clk.A(SUB + off2), subscriber("d2", rec2, off2))
    dsp = scn["dsp"]
    if dsp != NEVER:
        s.schedule_absolute(clk.A(SUB + S * dsp + S / 2), lambda *_: holder["d"].dispose())
        if cfg.get("twice"):
            s.schedule_absolute(clk.A(SUB + off2 + S * dsp + S / 2), lambda *_: holder["d2"].dispose())
    escaped = None
    import signal
    old_r = signal.signal(signal.SIGALRM, _alarm)
    signal.setitimer(signal.ITIMER_REAL, WATCHDOG_S * cfg.get("patience", 1))
    try:
        s.advance_to(clk.A(SUB + S * cfg["hz"] + off2))
    except Hang:
        escaped = Hang("no progress: the virtual-time run did not finish within the watchdog budget")
        HANGS[scn["op"]] = HANGS.get(scn["op"], 0) + 1
    except Exception as e:            # an exception that escaped into the scheduler
        escaped = e
    finally:
        signal.setitimer(signal.ITIMER_REAL, 0)
        signal.signal(signal.SIGALRM, old_r)
    lim = SUB + S * cfg["hz"]            # each subscriber is observed through its own horizon
    return {"rec": [x for x in rec if x[0] <= lim], "rec2": [x for x in rec2 if x[0] <= lim] if cfg.get("twice") else None,
            "subs": get_subs(), "clk": clk, "V": V, "escaped": escaped, "made": made, "off2": off2}


# ---- comparing with an allowed observation (asserted projection) -----------------------------------------------------------

def _val_ok(scn, got, e, v) -> bool:
    V, clk = got["V"], got["clk"]
    ix = e["i"]
    want = V["fb"][ix - 101] if ix > 100 else V["src"][ix - 1]
    op = scn["op"]
    if op == "timestamp":
        from reactivex.operators._timestamp import Timestamp
        return isinstance(v, Timestamp) and same(v.value, want) and v.timestamp == clk.DT(clk.real(e["x"]))
    if op == "time_interval":
        from reactivex.operators._timeinterval import TimeInterval
        return isinstance(v, TimeInterval) and same(v.value, want) and v.interval == timedelta(seconds=clk.S * e["x"])
    return same(v, want)


def _err_ok(got, e, v) -> bool:
    V = got["V"]
    name = e["e"]
    if name == "src":
        return v is V["src_err"]
    if name == "aux":
        return v is V["aux_err"]
    if name == "dly":
        return isinstance(v, DlyErr)
    if name == "fn":
        return isinstance(v, FnErr)
    if name == "to":
        return isinstance(v, Exception) and not isinstance(v, (SrcErr, AuxErr, DlyErr, FnErr, AssertionError))
    return False


def compare(scn, exp, got, hz, check_subs: bool = True) -> Optional[str]:
    """None when the real observation equals this allowed observation on the asserted projection."""
    if isinstance(got["escaped"], Hang):
        return "hang:the run did not finish"
    if got["escaped"] is not None:
        return f"escaped:{type(got['escaped']).__name__}:{got['escaped']}"
    op, clk = scn["op"], got["clk"]
    out = exp["out"]
    rec = [(clk.tick(t), k, v) for (t, k, v) in got["rec"]]
    if op in SAMPLE_OPS:
        # the instant (and the fact) of the result's completion is not stated: elements and errors only
        out = [e for e in out if e["k"] != "C"]
        rec = [r for r in rec if r[1] != "C"]
    if len(rec) != len(out):
        return f"count:{len(rec)}!={len(out)}"
    end = out[-1]["t"] if out and out[-1]["k"] != "N" else hz
    for (t, k, v), e in zip(rec, out):
        if k != e["k"]:
            return f"kind:{k}!={e['k']}"
        if op == "skip_last_with_time" and k == "N":
            # the statement fixes WHICH elements; the instant only by "not before it is d old, not after the end"
            if not (e["x"] <= t <= end):
                return f"time:{t} not in {e['x']}..{end}"
        elif t != e["t"]:
            return f"time:{t}!={e['t']}"
        if k == "N" and not _val_ok(scn, got, e, v):
            return f"value:{v!r}"
        if k == "E" and not _err_ok(got, e, v):
            return f"error:{type(v).__name__}"
    if not check_subs:
        return None          # two subscribers: the source's subscription log is judged for both together (subs_joint)
    if op in HOT_OPS and exp["subAt"] >= 0:
        subs = got["subs"]
        if len(subs) != 1:
            return f"subscriptions:{len(subs)}"
        if clk.tick(subs[0][0]) != exp["subAt"]:
            return f"subscribed_at:{clk.tick(subs[0][0])}!={exp['subAt']}"
    if op in HOT_OPS and exp["subAt"] < 0 and got["subs"]:
        return "subscribed although the subscription delay never elapsed"
    return None


def subs_joint(got, cands1, cands2, off_ticks) -> Optional[str]:
    """Two subscribers: each subscribes the source at the instant its own expectation gives (subAt relative to ITS
    subscription instant), or not at all (subAt < 0: it disposed / never got that far). The source's subscription log
    must be exactly those instants, for some pair of observations allowed for the two subscribers."""
    clk = got["clk"]
    seen = sorted(clk.tick(x[0]) for x in got["subs"])
    for a1 in cands1:
        for a2 in cands2:
            want = sorted([a1] * (a1 >= 0) + [a2 + off_ticks] * (a2 >= 0))
            if want == seen:
                return None
    return f"subscriptions:{seen} expected one of {sorted({(a1, a2 + off_ticks if a2 >= 0 else a2) for a1 in cands1 for a2 in cands2})}"


def drift(scn, exp, got) -> Optional[str]:
    """release instant of the source subscription (C02's business, recorded as drift only)"""
    clk, subs = got["clk"], got["subs"]
    if exp["subAt"] < 0 or got.get("rec2") is not None or got.get("second"):
        return None
    if len(subs) != 1:
        return f"{scn['op']}: {len(subs)} source subscriptions"
    u = exp["unsub"]
    real = None if subs[0][1] is None else clk.tick(subs[0][1])
    if u == NEVER:
        return None if real is None else f"{scn['op']}: source released at {real}, model never"
    # the model's dispose falls after the events of instant dsp: the real one is at dsp + 1/2
    want = u + 0.5 if (scn["dsp"] != NEVER and u == scn["dsp"]) else u
    if real != want and real != u and not (subs[0][1] is not None and subs[0][1] == int(clk.real(want))):   # ColdObservable logs int(seconds)
        return f"{scn['op']}: source released at {real}, model {want}"
    return None


def describe(got) -> Dict[str, Any]:
    clk = got["clk"]
    return {"rec": [(clk.tick(t), k, repr(v)) for t, k, v in got["rec"]], "subs": [list(x) for x in got["subs"]],
            "escaped": repr(got["escaped"]) if got["escaped"] is not None else None}


def witness(scn, allowed, got) -> Dict[str, Any]:
    """predicates over a failure used to keep known-finding matches narrow"""
    clk = got["clk"]
    w: Dict[str, Any] = {}
    V = got["V"]
    rec = [(clk.tick(t), k, v) for (t, k, v) in got["rec"]]
    got_ix = []
    for (_, k, v) in rec:
        if k == "N":
            hit = [pos + 1 for pos, x in enumerate(V["src"]) if same(getattr(v, "value", v) if scn["op"] in ("timestamp", "time_interval") else v, x)]
            got_ix.append(hit[0] if hit else None)
    exp_ix = [e["i"] for e in allowed[0]["out"] if e["k"] == "N"]
    extra = [x for x in got_ix if x not in exp_ix]
    missing = [x for x in exp_ix if x not in got_ix]
    w["extra"], w["missing"] = extra, missing
    if scn.get("fbk", 0) > 0:
        # the element fed back by the sink is missing and nothing else is wrong
        echo = len(scn["src"]) + 1
        w["echo_lost"] = echo not in got_ix and any(
            echo in [e["i"] for e in a["out"] if e["k"] == "N"] and [e["i"] for e in a["out"] if e["k"] == "N" and e["i"] != echo] == got_ix
            for a in allowed)
    if scn["op"] in ("delay", "delay_abs") and scn["term"] == "E":
        # the source's error arrived d late (instead of at once), nothing else wrong: every element observed was due before it
        d = max(scn["par"]["d"], 0)
        late = scn["tT"] + d
        ns_ok = all(k == "N" and t <= scn["tT"] for (t, k, _) in (rec[:-1] if rec and rec[-1][1] == "E" else rec))
        arrived = bool(rec) and rec[-1][1] == "E" and rec[-1][0] == late and rec[-1][2] is V["src_err"]
        # ... or the subscriber disposed (the run was cut) before the late error could arrive
        cut = (not rec or rec[-1][1] == "N") and (scn["dsp"] < late)
        w["error_late_by_d"] = d > 0 and ns_ok and (arrived or cut)
    if scn["op"] in ("take_last_with_time", "skip_last_with_time") and "d" in scn["par"]:
        d = scn["par"]["d"]
        ages = lambda xs: [scn["tT"] - scn["src"][x - 1] for x in xs if x is not None and x <= len(scn["src"])]
        w["extra_all_age_eq_d"] = bool(extra) and not missing and len(allowed) == 1 and all(a == d for a in ages(extra)) and len(ages(extra)) == len(extra)
        w["missing_all_age_eq_d"] = bool(missing) and not extra and all(a == d for a in ages(missing))
    return w


def sibling_for(scn, cfg, sibs):
    """Absolute-time forms: a subscriber that subscribes off2 ticks later sees the SAME absolute target from its own
    subscription instant, i.e. the model's scenario with the target moved off2 ticks closer (a target in its past is the
    same as a target at its subscription instant). Returns (scenario, allowed set) of that sibling scenario."""
    d2 = scn["par"]["d"] - cfg.get("off2", 0)
    if d2 not in sibs:
        d2 = 0 if d2 < 0 and 0 in sibs else None
    if d2 is None:
        return None
    return dict(scn, par=dict(scn["par"], d=d2)), sibs[d2]


def judge(scn, allowed, cfg, sibs=None):
    """None, or a failure record"""
    scn2, allowed2 = scn, allowed
    if cfg.get("twice") and cfg.get("off2") and scn["op"] in ABS_OPS:
        sibs = {int(k): v for k, v in (sibs or {}).items()}
        sib = sibling_for(scn, cfg, sibs)
        if sib is None:
            return None, None          # the sibling scenario is outside the exported bounds: nothing to judge against
        scn2, allowed2 = sib
    got = run_scenario(scn, cfg)
    if isinstance(got["escaped"], Hang):
        # a stall of the (shared, loaded) machine must not be mistaken for a hang: run it again with more patience
        HANGS[scn["op"]] -= 1
        got = run_scenario(scn, dict(cfg, patience=3))
    twice = got["rec2"] is not None
    if twice:
        # judge the second subscriber first; the first one below
        got2 = dict(got, rec=got["rec2"], rec2=None, second=True)
        ok2 = [exp for exp in allowed2 if compare(scn2, exp, got2, cfg["hz"], check_subs=False) is None]
        ok1 = [exp for exp in allowed if compare(scn, exp, got, cfg["hz"], check_subs=False) is None]
        r = None
        if not ok2:
            r = compare(scn2, allowed2[0], got2, cfg["hz"], check_subs=False)
        elif ok1 and scn["op"] in HOT_OPS:
            r = subs_joint(got, {e["subAt"] for e in ok1}, {e["subAt"] for e in ok2}, cfg.get("off2", 0))
        if r is not None:
            rec = {"engine": "optime", "op": scn["op"], "scn": scn, "cfg": cfg, "expected": allowed, "observed": describe(got2),
                   "reason": "second_subscriber:" + r, "reason_kind": "second_subscriber", "clock": cfg.get("clock", "test"),
                   "mode": cfg.get("mode"), "scn_second": scn2, "expected_second": allowed2,
                   "sibs": {str(scn2["par"]["d"]): allowed2} if scn2 is not scn else None}
            return rec, None
    reasons, drifts, matched = [], [], False
    for exp in allowed:
        r = compare(scn, exp, got, cfg["hz"], check_subs=not twice)
        if r is None:
            matched = True
            drifts.append(drift(scn, exp, got))
        else:
            reasons.append(r)
    if matched:
        return None, (None if None in drifts else drifts[0])
    rec = {"engine": "optime", "op": scn["op"], "scn": scn, "cfg": cfg, "expected": allowed, "observed": describe(got),
           "reason": reasons[0], "reason_kind": reasons[0].split(":")[0], "clock": cfg.get("clock", "test"),
           "mode": cfg.get("mode"), "errprofile": cfg.get("errprofile", "plain")}
    rec.update(witness(scn, allowed, got))
    return rec, None


# ---- variants: which real runs are made for one scenario ----------------------------------------------------------------------

def variants(scn, hz, tier, seed=0, clocks=("test", "hist")) -> List[Dict[str, Any]]:
    """Every scenario is run with every source script mode (tie drivers) on the TestScheduler; the other
    dimensions (clock kind, tick length, argument form, scheduler passing, value profile) rotate with a
    hash of the scenario so that each is exercised on a share of the scenarios."""
    import zlib
    h = zlib.crc32(repr(sorted(scn.items(), key=lambda kv: kv[0])).encode()) + seed
    op = scn["op"]
    out = []
    modes = src_modes(scn)
    for n_, mode in enumerate(modes):
        g = h + n_
        cfg = {"hz": hz, "mode": mode, "clock": "test", "S": (1, 7)[g % 2], "argform": ("num", "float", "td")[g % 3],
               "schedarg": g % 4 == 1, "subsched": True, "profile": ("plain", "falsy")[(g // 2) % 2], "salt": g % 6,
               "auxmode": ("hot", "cold", "hot_chain", "cold_chain")[g % 4], "auxfirst": (g // 4) % 2 == 1,
               "specmode": ("cold", "cold_chain")[(g // 3) % 2], "fbmode": ("cold", "cold_chain")[(g // 5) % 2],
               "alias": g % 5 == 0, "errprofile": ("plain", "falsy")[(g // 7) % 2], "syncflavour": g % 4}
        out.append(cfg)
    if "hist" in clocks:
        # the datetime clock: one script mode per scenario (two different ones in the thorough tier)
        hm = [modes[h % len(modes)], modes[(h + 1 + h // 7 % (len(modes) - 1)) % len(modes)]] if tier == "thorough" else [modes[h % len(modes)]]
        for n_, mode in enumerate(hm):
            g = h + 3 * n_ + 1
            out.append({"hz": hz, "mode": mode, "clock": "hist", "S": (1, 60)[g % 2], "argform": ("td", "num")[g % 2],
                        "schedarg": g % 4 == 2, "subsched": True, "profile": ("falsy", "plain")[(g // 2) % 2], "salt": g % 6,
                        "auxmode": ("cold", "hot", "cold_chain", "hot_chain")[g % 4], "auxfirst": (g // 4) % 2 == 0,
                        "specmode": ("cold", "cold_chain")[(g // 3) % 2], "fbmode": "cold", "alias": False,
                        "errprofile": ("falsy", "plain")[(g // 7) % 2], "syncflavour": (g // 2) % 4})
    # two subscribers of the same pipeline
    if (tier == "thorough" or h % 4 == 0) and not scn.get("fbk"):
        g = h // 4
        cold = [m_ for m_ in modes if m_.startswith("cold")]
        shifted = bool(cold) and op not in ABS_OPS and op != "timestamp" and g % 3 != 0       # the later subscriber needs a cold source
        out.append({"hz": hz, "mode": cold[g % len(cold)] if shifted else modes[g % len(modes)], "clock": ("test", "hist")[g % 2],
                    "S": (1, 7)[g % 2], "argform": "num", "schedarg": False, "subsched": True, "profile": "plain", "salt": g % 6,
                    "twice": True, "off2": (1, 2, 3)[g % 3] if shifted else 0, "auxmode": "cold" if shifted else ("cold", "hot")[g % 2],
                    "specmode": "cold", "fbmode": "cold"})
    # absolute-time forms: ALWAYS a later second subscriber (cold source), on both clocks. It is judged against the model's
    # scenario for ITS subscription instant (same absolute target, off2 ticks closer) - see sibling_for
    if op in ABS_OPS:
        cold = [m_ for m_ in modes if m_.startswith("cold")]
        for n_, clock in enumerate(clocks if cold else ()):
            g = h + 5 * n_
            out.append({"hz": hz, "mode": cold[g % len(cold)], "clock": clock, "S": (1, 7)[g % 2], "argform": "num", "schedarg": g % 3 == 0,
                        "subsched": True, "profile": ("plain", "falsy")[g % 2], "salt": g % 6, "twice": True, "off2": (1, 2, 3)[(g // 2) % 3],
                        "auxmode": "cold", "specmode": "cold", "fbmode": "cold"})
    # scheduler given to the operator only (subscribe() without one), where the operator takes a scheduler
    if op not in NOSCHED_OPS and op not in FB_OPS and h % 3 == 0:
        out.append({"hz": hz, "mode": modes[(h // 3) % len(modes)], "clock": "test", "S": 1, "argform": "num", "schedarg": True,
                    "subsched": False, "profile": "plain", "salt": 0, "ownsrc": True})
    return out


def _job(args):
    scn, allowed, hz, tier, seed, clocks = args[:6]
    sibs = args[6] if len(args) > 6 else None
    fails, drifts, nruns = [], [], 0
    for cfg in variants(scn, hz, tier, seed, clocks):
        if HANGS.get(scn["op"], 0) >= 2:
            break        # this operator hangs: reported already, do not spend the budget on it
        nruns += 1
        f, d = judge(scn, allowed, cfg, sibs)
        if f:
            fails.append(f)
        if d:
            drifts.append(d)
    return nruns, fails, drifts


# ---- shared driver ----------------------------------------------------------------------------------------------------------------

def need_hz(g, c) -> int:
    """smallest horizon satisfying ASSUME HorizonOK of OpsTime.tla for operator group g under constants c"""
    ms = max(set(c["Ds"]) | set(c["SpecTs"]) | {0})
    return max((c["MaxTS"] if o in c["Small"] else c["MaxT"]) + ms + (ms if o == "delay_with_mapper_sub" else 0) for o in g)


def _tlc_one(args):
    from harness import tlc
    g, c, timeout, sim = args
    c = dict(c)
    c["Ops"] = set(g)
    kw = {}
    if sim:
        kw = dict(simulate=f"num={sim['num']}", depth=sim.get("depth", 60), seed=sim["seed"])
    return tlc.run("OpsTime", tlc.cfg_text(c, invariants=MODEL_INVS + ["Export"]), workers=1, timeout=timeout,
                   xmx="2g", allow_violation=False, **kw)


def run_groups(ck, specs, base, tier, clocks=("test", "hist"), label="export", timeout=3000, par_tlc=3, procs=6):
    """specs: [(operator names, constant overrides)].  One TLC run per entry (model invariants + export), a few in
    parallel; then every exported scenario is replayed.  Returns the list of (scn, allowed)."""
    from concurrent.futures import ThreadPoolExecutor
    from harness import core
    jobs = []
    for g, over in specs:
        c = dict(base)
        c.update(over)
        c["Hz"] = max(c["Hz"], need_hz(g, c))
        jobs.append((g, c, timeout, None))
    all_groups = []
    with ThreadPoolExecutor(par_tlc) as ex:
        results = list(ex.map(_tlc_one, jobs))
    for (g, c, _, _), res in zip(jobs, results):
        ck.add_tlc(res, f"{label} {','.join(g)} " + " ".join(f"{k}={sorted(v) if isinstance(v, (set, frozenset)) else v}"
                                                              for k, v in sorted(c.items()) if k != "Ops"))
        gs = core.group_allowed(res.lines)
        # vacuity guard: every operator of the group must have produced scenarios, some with output, and the model
        # must have met at least one same-instant tie somewhere in the group
        per = {o: [0, 0, 0] for o in g}
        for scn, allowed in gs:
            p_ = per[scn["op"]]
            p_[0] += 1
            p_[1] += 1 if any(a["out"] for a in allowed) else 0
            p_[2] += 1 if len(allowed) > 1 else 0
        for o, (n_s, n_out, n_tie) in per.items():
            if n_s == 0 or n_out == 0:
                raise RuntimeError(f"vacuous export for {o}: {n_s} scenarios, {n_out} with output")
            prev = ck.extra.setdefault("per_operator", {}).setdefault(o, {"scenarios": 0, "with_output": 0, "with_ties": 0})
            prev["scenarios"] += n_s
            prev["with_output"] += n_out
            prev["with_ties"] += n_tie
        t0 = time.time()
        replay_groups(ck, gs, c["Hz"], tier, clocks, procs)
        ck.count("replay_wall_s", round(time.time() - t0, 1))
        all_groups += gs
    return all_groups


def simulate_and_replay(ck, ops_, consts, num, tier, clocks=("test", "hist"), depth=80, timeout=3000, procs=6):
    """Sampled behaviours beyond the exhaustive bounds.  A simulated behaviour shows ONE resolution of the model's
    nondeterminism, so only behaviours without any choice between lanes (amb = FALSE) are judged."""
    from harness import core
    res = _tlc_one((ops_, consts, timeout, {"num": num, "depth": depth, "seed": ck.seed + 11}))
    ck.add_tlc(res, f"simulate {','.join(ops_)}")
    lines = [ln for ln in res.lines if not ln["obs"]["amb"]]
    ck.note("simulated_behaviours_skipped_as_ambiguous", ck.extra.get("simulated_behaviours_skipped_as_ambiguous", 0) + len(res.lines) - len(lines))
    gs = core.group_allowed(lines)
    replay_groups(ck, gs, consts["Hz"], tier, clocks, procs)
    return len(gs)


def _family_key(scn) -> str:
    import json
    return json.dumps({k: (v if k != "par" else {kk: vv for kk, vv in v.items() if kk != "d"}) for k, v in scn.items()}, sort_keys=True)


def replay_groups(ck, groups, hz, tier, clocks=("test", "hist"), procs=6):
    from harness import core
    # absolute-time forms: index the exported scenarios that differ only in the target, for the later subscriber
    fam: Dict[str, Dict[int, Any]] = {}
    for scn, allowed in groups:
        if scn["op"] in ABS_OPS:
            fam.setdefault(_family_key(scn), {})[scn["par"]["d"]] = allowed
    jobs = [(scn, allowed, hz, tier, ck.seed, clocks, fam.get(_family_key(scn)) if scn["op"] in ABS_OPS else None)
            for scn, allowed in groups]
    total = 0
    ndrift = 0
    # a real run costs 0.2-0.4 ms: a process pool only pays off for large batches
    for nruns, fails, drifts in core.parallel_map(_job, jobs, procs=procs if len(jobs) > 12000 else 1, chunk=200):
        total += nruns
        for f in fails:
            ck.fail(f)
        for d in drifts:
            ndrift += 1
            ck.drift(d)
    ck.impl += total
    ck.count("release_instant_drifts", ndrift)
    return total


def has_tie(scn, allowed) -> bool:
    return len(allowed) > 1


def nontrivial(scn, allowed) -> bool:
    """the expected output is not the input passed through unchanged at its own instants"""
    out = allowed[0]["out"]
    ns = [(e["t"], e["i"]) for e in out if e["k"] == "N"]
    return len(allowed) > 1 or ns != [(t, h + 1) for h, t in enumerate(scn["src"])]


def generic_replay(rec):
    import json
    f, _ = judge(rec["scn"], rec["expected"], rec["cfg"], rec.get("sibs"))
    print(json.dumps(f, default=str)[:3000] if f else "replay: observation allowed by the spec")
    return 1 if f else 0
