"""Binding A for TimeConv.tla (C36): make an exported case concrete and call the real
to_seconds / to_datetime / to_timedelta (and `now` of every scheduler that can be constructed here).

Codec: a tagged value [kind, base, k, q] is n = base_us[base] + k*stride*unit[base] microseconds plus
q quarter-microseconds;  float <-> the correctly rounded float of n/10^6 (float(Fraction));
delta <-> timedelta(microseconds=n);  abs <-> UTC_ZERO + that, in UTC or moved to another zone.
The magnitudes live here (DESIGN 7: TLC has no floats); the case table, the allowed results and the
allowed order relations come from TLC."""
from __future__ import annotations

from datetime import datetime, timedelta, timezone
from fractions import Fraction
from typing import Any, Dict, List, Optional

EPOCH = datetime(1970, 1, 1, tzinfo=timezone.utc)
_US = timedelta(microseconds=1)
BASE_US = {
    "n1e9": -10 ** 15,                                              # -10^9 s
    "m0": -16,                                                      # just below zero: -16 us and up (k + 1 stays negative)
    "epoch": 0,
    "p1e9": 10 ** 15,                                               # +10^9 s (2001)
    "y2106": 2 ** 32 * 10 ** 6,                                    # 2^32 s: float grain 2^-20 s = 0.95 us, the last magnitude where floats resolve microseconds
    "y9000": (datetime(9000, 1, 1, tzinfo=timezone.utc) - EPOCH) // _US,           # floats resolve multiples of 1/64 s here
    "y9000c": (datetime(9000, 6, 1, 12, 30, 15, 123456, tzinfo=timezone.utc) - EPOCH) // _US,  # microsecond grain: float is coarse
}
UNIT_US = {"n1e9": 1, "m0": 1, "epoch": 1, "p1e9": 1, "y2106": 1, "y9000": 15625, "y9000c": 1}
STRIDES = {"n1e9": (1, 999983, 1000001), "m0": (1,), "epoch": (1, 999983, 1000001, 86400 * 10 ** 6), "p1e9": (1, 999983, 1000001),
           # at 2^32 s a float is within 0.48 us of the microsecond it stands for: sloppy arithmetic shows on ~10 % of the offsets
           "y2106": (1, 999983, 1000001, 7, 13, 31, 97, 101, 1009, 4099, 65537, 131071, 262147, 524309, 77, 333),
           "y9000": (1, 64), "y9000c": (1, 7)}
ZONES = (timezone.utc, timezone(timedelta(hours=5, minutes=30)), timezone(timedelta(hours=-8)))


def micro4(val: Dict[str, Any], stride: int) -> int:
    """the value in quarter-microseconds"""
    b = val["base"]
    return 4 * (BASE_US[b] + val["k"] * stride * UNIT_US[b]) + val["q"]


def concrete(kind: str, val: Dict[str, Any], stride: int, zone=timezone.utc) -> Any:
    n4 = micro4(val, stride)
    if kind == "float":
        return float(Fraction(n4, 4 * 10 ** 6))
    assert n4 % 4 == 0, "only floats can be non-aligned"
    td = timedelta(microseconds=n4 // 4)
    if kind == "delta":
        return td
    return (EPOCH + td).astimezone(zone)


def kind_of(x: Any) -> str:
    if isinstance(x, datetime):
        return "abs"
    if isinstance(x, timedelta):
        return "delta"
    if type(x) is float:
        return "float"
    return type(x).__name__


def converters(holder: str):
    """the three conversion functions as reached through a class or an instance"""
    from reactivex.scheduler import HistoricalScheduler, TimeoutScheduler, VirtualTimeScheduler
    from reactivex.scheduler.scheduler import Scheduler
    from reactivex.testing import TestScheduler
    obj = {"Scheduler": Scheduler, "VirtualTimeScheduler": VirtualTimeScheduler, "test_instance": TestScheduler(),
           "hist_instance": HistoricalScheduler(), "timeout_instance": TimeoutScheduler()}[holder]
    return {"float": obj.to_seconds, "delta": obj.to_timedelta, "abs": obj.to_datetime}


HOLDERS = ("Scheduler", "VirtualTimeScheduler", "test_instance", "hist_instance", "timeout_instance")


def _cmpf(a: Any, b: Any) -> str:
    return "lt" if a < b else ("eq" if a == b else "gt")


def _show(x: Any) -> str:
    return repr(x)


def judge(scn: Dict[str, Any], obs: Dict[str, Any], *, stride_i: int = 0, zone_i: int = 0, holder: str = "Scheduler") -> List[Dict[str, Any]]:
    conv = converters(holder)
    kind, target = scn["kind"], scn["target"]
    fails: List[Dict[str, Any]] = []
    zone = ZONES[zone_i % len(ZONES)]

    def stride_for(val):
        # the neighbours of a non-aligned float are the two adjacent microseconds: no stride then
        if scn["v"]["q"] or scn["w"]["q"]:
            return 1
        st = STRIDES[val["base"]]
        return st[stride_i % len(st)]
    # one stride for both values when they share the base (keeps their order), else each its own
    sv = stride_for(scn["v"])
    sw = sv if scn["w"]["base"] == scn["v"]["base"] else stride_for(scn["w"])

    def rec(why, which, **kw):
        r = {"engine": "timeconv", "failure": why, "which": which, "scn": scn, "expected": obs, "kind": kind, "target": target,
             "stride_i": stride_i, "zone_i": zone_i, "holder": holder, "base": scn[which]["base"] if which in ("v", "w") else scn["v"]["base"],
             "aligned": scn[which]["q"] == 0 if which in ("v", "w") else None}
        r.update(kw)
        return r

    results = {}
    for which, val, st, allowed, exact, rt in (("v", scn["v"], sv, obs["rv"], obs["exactv"], obs["rtv"]),
                                               ("w", scn["w"], sw, obs["rw"], obs["exactw"], obs["rtw"])):
        x = concrete(kind, val, st, zone)
        try:
            r = conv[target](x)
        except Exception as e:
            fails.append(rec("exception", which, input=_show(x), observed=repr(e)))
            continue
        results[which] = (x, r)
        if kind_of(r) != target:
            fails.append(rec("wrong_type", which, input=_show(x), observed=_show(r)))
            continue
        if target == "abs" and (r.tzinfo is None or r.utcoffset() is None):
            fails.append(rec("naive_datetime", which, input=_show(x), observed=_show(r)))
            continue
        if exact:
            # the statement pins the result: one of the allowed tagged values (a single one), made concrete
            wants = [concrete(target, a, st, zone) for a in allowed]
            if not any(r == wv for wv in wants):
                fails.append(rec("wrong_value", which, input=_show(x), observed=_show(r), wanted=[_show(wv) for wv in wants]))
                continue
        elif val["q"] != 0:
            wants = [concrete(target, a, st, zone) for a in allowed]
            if not any(r == wv for wv in wants):
                fails.append(rec("not_a_neighbour", which, input=_show(x), observed=_show(r), wanted=[_show(wv) for wv in wants]))
                continue
        if rt:
            try:
                back = conv[kind](r)
            except Exception as e:
                fails.append(rec("exception_back", which, input=_show(x), observed=repr(e)))
                continue
            if kind_of(back) != kind or back != x:
                fails.append(rec("round_trip", which, input=_show(x), via=_show(r), observed=_show(back)))
    if "v" in results and "w" in results:
        (xv, rv), (xw, rw) = results["v"], results["w"]
        if kind_of(rv) == target and kind_of(rw) == target:
            rel = _cmpf(rv, rw)
            if rel not in obs["rels"]:
                fails.append(rec("order", "pair", inputs=[_show(xv), _show(xw)], observed=[_show(rv), _show(rw)], relation=rel,
                                 allowed=obs["rels"]))
    return fails


LOCAL_ZONES = ("UTC0", "XXX-9", "YYY5")   # POSIX TZ strings (no tzdata needed): UTC, nine hours east, five hours west
WALL_CLOCK = ("ImmediateScheduler", "CurrentThreadScheduler", "TrampolineScheduler", "TimeoutScheduler", "NewThreadScheduler",
              "ThreadPoolScheduler", "EventLoopScheduler", "CatchScheduler(Immediate)", "AsyncIOScheduler", "AsyncIOThreadSafeScheduler")


def now_cases() -> List[Dict[str, Any]]:
    """(name, now value or exception) for every scheduler that can be constructed in this sandbox"""
    import asyncio

    from reactivex import scheduler as S
    from reactivex.scheduler.eventloop import AsyncIOScheduler, AsyncIOThreadSafeScheduler
    from reactivex.testing import TestScheduler
    out = []

    def add(name, mk, after=None):
        try:
            s = mk()
            if after:
                after(s)
            out.append((name, s.now))
            if hasattr(s, "dispose"):
                try:
                    s.dispose()
                except Exception:
                    pass
        except Exception as e:
            out.append((name, e))

    add("ImmediateScheduler", S.ImmediateScheduler)
    add("CurrentThreadScheduler", S.CurrentThreadScheduler)
    add("TrampolineScheduler", S.TrampolineScheduler)
    add("TimeoutScheduler", S.TimeoutScheduler)
    add("NewThreadScheduler", S.NewThreadScheduler)
    add("ThreadPoolScheduler", lambda: S.ThreadPoolScheduler(1))
    add("EventLoopScheduler", S.EventLoopScheduler)
    add("VirtualTimeScheduler(0)", lambda: S.VirtualTimeScheduler(0))
    add("VirtualTimeScheduler(12.5)", lambda: S.VirtualTimeScheduler(12.5))
    add("VirtualTimeScheduler(-1e9)", lambda: S.VirtualTimeScheduler(-1e9))
    add("VirtualTimeScheduler advanced", lambda: S.VirtualTimeScheduler(0), lambda s: s.advance_to(2.5e11))
    add("TestScheduler", TestScheduler)
    add("TestScheduler advanced", TestScheduler, lambda s: s.advance_by(1234.000001))
    add("HistoricalScheduler()", S.HistoricalScheduler)
    add("HistoricalScheduler(utc datetime)", lambda: S.HistoricalScheduler(datetime(2031, 5, 6, 7, 8, 9, 10, tzinfo=timezone.utc)))
    add("HistoricalScheduler advanced", S.HistoricalScheduler, lambda s: s.advance_by(timedelta(days=400, microseconds=1)))
    add("CatchScheduler(Immediate)", lambda: S.CatchScheduler(S.ImmediateScheduler(), lambda e: True))
    add("CatchScheduler(Historical)", lambda: S.CatchScheduler(S.HistoricalScheduler(), lambda e: True))
    add("CatchScheduler(VirtualTime 7.25)", lambda: S.CatchScheduler(S.VirtualTimeScheduler(7.25), lambda e: True))
    loop = asyncio.new_event_loop()
    try:
        add("AsyncIOScheduler", lambda: AsyncIOScheduler(loop))
        add("AsyncIOThreadSafeScheduler", lambda: AsyncIOThreadSafeScheduler(loop))
    finally:
        loop.close()
    return out


def judge_now(obs: Dict[str, Any], zone: int = 0) -> List[Dict[str, Any]]:
    """read `now` everywhere with the process's local time zone set to LOCAL_ZONES[zone] (tzset, restored afterwards)"""
    import os
    import time
    fails = []
    saved = os.environ.get("TZ")
    os.environ["TZ"] = LOCAL_ZONES[zone]
    time.tzset()
    try:
        before = time.time()
        cases = now_cases()
        after = time.time()
    finally:
        if saved is None:
            os.environ.pop("TZ", None)
        else:
            os.environ["TZ"] = saved
        time.tzset()
    scn = {"mode": "now", "zone": zone}
    for name, val in cases:
        if isinstance(val, Exception):
            fails.append({"engine": "timeconv", "failure": "now_exception", "scheduler": name, "observed": repr(val), "scn": scn,
                          "expected": obs, "zone": zone})
            continue
        aware = isinstance(val, datetime) and val.tzinfo is not None and val.utcoffset() is not None
        off = val.utcoffset().total_seconds() if aware else None
        if aware != obs["aware"] or off != obs["utcoffset"]:
            fails.append({"engine": "timeconv", "failure": "now_not_aware_utc", "scheduler": name, "observed": repr(val),
                          "scn": scn, "expected": obs, "zone": zone})
            continue
        if name in WALL_CLOCK:
            # the instant it denotes is the present one: between the two readings of the process clock (1 s slack),
            # i.e. skew 0 - a reading that is off by the local UTC offset is hours away
            secs = (val - EPOCH).total_seconds()
            skew = 0 if before - 1.0 <= secs <= after + 1.0 else round(secs - (before + after) / 2)
            if skew != obs["skew"]:
                fails.append({"engine": "timeconv", "failure": "now_wrong_instant", "scheduler": name, "observed": repr(val),
                              "skew_seconds": skew, "scn": scn, "expected": obs, "zone": zone, "local_zone": LOCAL_ZONES[zone]})
    return fails
