"""C03 - unsubscribing silences the subscriber and frees its sources.
Ops1.tla with Disposes = TRUE: the dispose instant ranges over every instant of the run (right after the
subscription, between notifications, after the terminal); model invariants Silent and Released."""
from harness import core
from props import ops1_common as oc
from props import lifecycle_common as lc
from props import ops1_ext as ox

META = {
    "technique": "dispose instant enumerated by TLC at every point of every Ops1.tla scenario (model invariants Silent, Released), replayed with hot, cold and Subject drivers; Lifecycle.tla monitor (no sink event / user callback / open source after dispose) validating traces of catalogue pipelines disposed at seeded instants",
    "level": "For every element-wise and aggregate operator scenario TLC places the subscriber's dispose() after every instant 0..len+1 and exports the expected truncated stream and the instant at which the source subscription must be closed (the dispose instant, unless the pipeline ended earlier); the model itself satisfies Silent (nothing emitted after the dispose instant) and Released. The real run must show exactly that stream, the source's subscription log closed at that very instant, and no invocation of any user function of the pipeline after dispose() returned. For all other operators (about 125, alone and composed to depth 2-3, including window/group pipelines whose windows stay subscribed) recorded executions with a dispose at a seeded instant are validated by TLC against the Lifecycle.tla monitor: no notification and no user function after dispose() returned, and no source subscription open once time passes, except while a window/group subscriber is still live.",
    "note": "TLC 1.8; dispose is scheduled strictly between two event instants of the time map (ties between dispose and a same-instant notification are exercised by the time-based modules)",
    "ref": "DESIGN.md 6 C03",
}

K = [2]


def variants(scn):
    s = len(str(scn)) % 2
    return [dict(mode="dispose", driver="hot", tmap="spread", profile="plain", k=K[0], salt=s),
            dict(mode="dispose", driver="cold", tmap="spread", profile="plain", k=K[0], salt=1 - s),
            dict(mode="dispose", driver="subject", tmap="spread", profile="plain", k=K[0], salt=s)]


def run(tier):
    ck = core.Check("C03", tier)
    k, n = (2, 2) if tier == "quick" else (2, 3)
    K[0] = k
    consts = dict(NVals=k, MaxLen=n, Terms={"C", "U"}, Disposes=True, Faults=False, IdentSrc=False)
    groups = oc.export_groups(ck, oc.ELEMENTWISE + oc.AGGREGATES, consts, "export(dispose)")
    disposing = [g for g in groups if g[0]["dsp"] <= len(g[0]["src"]) + 1]   # the others have dsp = NEVER
    ck.exhaustive = True
    ck.rule = (f"every element-wise/aggregate scenario ({k} tokens, length 0..{n}, completing or never terminating) x dispose after every "
               "instant 0..len+1; hot, cold and Subject drivers; non-trivial = the dispose cuts the stream short of what the "
               "undisposed run would deliver (the pipeline had not terminated by itself)")
    ox.replay_groups(ck, disposing, variants)
    # operator-agnostic part: Lifecycle.tla monitor over catalogue pipelines with a dispose at a seeded instant
    per_op, nd = (6, 800) if tier == "quick" else (50, 10000)
    st = {"single": lc.validate(ck, "C03", lc.specs_single(ck.seed + 31, per_op, dispose=True), "catalogue operators alone, dispose"),
          "depth2": lc.validate(ck, "C03", lc.specs_depth(ck.seed + 32, nd, 2, dispose=True), "depth 2, dispose"),
          "depth3": lc.validate(ck, "C03", lc.specs_depth(ck.seed + 33, nd, 3, dispose=True), "depth 3, dispose"),
          "groups": lc.validate(ck, "C03", lc.specs_groups_early(ck.seed + 34, 1 if tier == "quick" else 15, dispose=True),
                                "window/group operators, windows subscribed or ignored, dispose")}
    ck.note("pipeline_runs", st)
    ck.nontrivial = sum(1 for g in disposing if g[1][0]["unsub"] == g[0]["dsp"]) + sum(v["validated"] for v in st.values())
    ck.note("scenarios", len(disposing))
    ck.note("operators", sorted({g[0]["op"] for g in disposing}))
    for g in disposing[:: max(1, len(disposing) // 5)][:5]:
        ck.sample({"scn": g[0], "allowed": g[1]})
    ck.assumptions = ["virtual time / one thread only, as the property states", "TestScheduler runs actions in due order (C28)"]
    return ck.finish()


def replay(rec):
    if rec.get("engine") == "lifecycle":
        return lc.replay(rec)
    return ox.generic_replay(rec)
