"""Binding A for VirtualTime.tla: perform an exported history on a real virtual-time scheduler."""
from __future__ import annotations

import signal
from datetime import timedelta
from typing import Any, Dict, List

KINDS = ("vts", "test", "hist", "histn")     # histn: a historical scheduler whose clock is a NAIVE datetime
from datetime import datetime as _dt
NAIVE0 = _dt(2000, 1, 1)


class Hang(BaseException):
    pass


def _alarm(signum, frame):
    raise Hang()


def make_sched(kind: str):
    from reactivex.scheduler import HistoricalScheduler, VirtualTimeScheduler
    from reactivex.testing import TestScheduler
    if kind == "vts":
        return VirtualTimeScheduler(0)
    if kind == "test":
        return TestScheduler()
    if kind == "histn":
        return HistoricalScheduler(NAIVE0)
    return HistoricalScheduler()


def perform(scn: Dict[str, Any], kind: str, watchdog: float = 5.0, tick: float = 1.0) -> Dict[str, Any]:
    """Returns the observation {ran, clocks} or {hang: True, ...}."""
    from reactivex.internal import ArgumentOutOfRangeException
    from reactivex.scheduler.scheduler import UTC_ZERO
    from reactivex.scheduler import VirtualTimeScheduler
    s = make_sched(kind)
    dt = kind in ("hist", "histn")
    if kind == "histn":
        UTC_ZERO = NAIVE0

    def A(t):  # absolute tick -> scheduler time
        return UTC_ZERO + timedelta(seconds=t * tick) if dt else float(t)

    def R(d):
        return timedelta(seconds=d * tick) if dt else float(d)

    def clk():
        c = s.clock
        if dt:
            x = round((c - UTC_ZERO).total_seconds() / tick, 6)
        else:
            x = float(c)
        return int(x) if x == int(x) else x

    ran: List[Any] = []
    clocks: List[Any] = []
    errs: List[int] = []
    disp: Dict[int, Any] = {}
    counter = [0]
    body = scn["body"]
    problems: List[str] = []

    def do(cmd, inside):
        c, a, b = cmd["c"], cmd["a"], cmd["b"]
        if c.startswith("sched_"):
            counter[0] += 1
            ident = counter[0]
            if ident != b:
                problems.append(f"id mismatch {ident}!={b}")
            act = make_action(ident)
            if c == "sched_imm":
                disp[ident] = s.schedule(act)
            elif c == "sched_rel":
                disp[ident] = s.schedule_relative(R(a), act)
            else:
                disp[ident] = s.schedule_absolute(A(a), act)
        elif c == "cancel":
            disp[a].dispose()
        elif c == "stop":
            s.stop()
        elif c == "start":
            # TestScheduler.start() is the create/subscribe/dispose convenience; the scheduler's
            # own run loop is the inherited one
            VirtualTimeScheduler.start(s)
        elif c == "advance_to":
            try:
                s.advance_to(A(a))
            except ArgumentOutOfRangeException:
                errs.append(len(clocks) + 1)
        elif c == "advance_by":
            s.advance_by(R(a))
        elif c == "sleep":
            s.sleep(R(a))
        else:
            raise ValueError(c)

    def make_action(ident):
        def action(scheduler, state=None):
            ran.append([ident, clk()])
            for cmd in body[ident - 1]:
                do(cmd, True)
            return None
        return action

    old = signal.signal(signal.SIGALRM, _alarm)
    signal.setitimer(signal.ITIMER_REAL, watchdog)
    try:
        for cmd in scn["top"]:
            do(cmd, False)
            clocks.append([clk(), len(ran)])
        return {"ran": ran, "clocks": clocks, "errs": errs, "problems": problems}
    except Hang:
        return {"hang": True, "ran": ran, "clocks": clocks, "errs": errs, "problems": problems}
    except Exception as e:  # an exception escaping a driver call is an observation
        return {"raised": type(e).__name__, "ran": ran, "clocks": clocks, "errs": errs, "problems": problems}
    finally:
        signal.setitimer(signal.ITIMER_REAL, 0)
        signal.signal(signal.SIGALRM, old)


_HANGS = [0, 0]  # per process: confirmed hangs, scenarios skipped after the hang budget was used up


def _diverge(scn, exp, got):
    """Index (0-based) of the first top-level command after which the observations differ."""
    n = len(scn["top"])
    for k in range(n):
        if k >= len(got["clocks"]) or k >= len(exp["clocks"]):
            return k
        if got["clocks"][k] != exp["clocks"][k]:
            return k
        if got["ran"][: got["clocks"][k][1]] != exp["ran"][: exp["clocks"][k][1]]:
            return k
        if ((k + 1) in got.get("errs", [])) != ((k + 1) in exp["errs"]):
            return k
    return n


def judge(scn: Dict[str, Any], allowed: List[Dict[str, Any]], kind: str, watchdog: float = 5.0, tick: float = 1.0):
    """None if the real scheduler's observation is one the spec allows, else a failure record."""
    if _HANGS[0] >= 4:   # this process has confirmed several hangs already: do not spend hours on a hanging tree
        _HANGS[1] += 1
        return None
    got = perform(scn, kind, watchdog, tick)
    if got.get("hang"):  # confirm: a loaded machine must not turn into a verdict
        got = perform(scn, kind, watchdog * 4, tick)
        if got.get("hang"):
            _HANGS[0] += 1
    ok = not (got.get("hang") or got.get("raised") or got["problems"]) and any(
        got["ran"] == e["ran"] and got["clocks"] == e["clocks"] and got["errs"] == e["errs"] for e in allowed)
    if ok:
        return None
    # latest first divergence over the allowed observations, and the command it happens at
    best = max(((_diverge(scn, e, got), e) for e in allowed), key=lambda x: x[0])
    k, e = best
    cmd = scn["top"][k] if k < len(scn["top"]) else {"c": "end", "a": 0}
    before = e["clocks"][k - 1][0] if k > 0 else 0
    return {"engine": "vt", "sched": kind, "scn": scn, "expected": allowed, "observed": got,
            "failure": "hang" if got.get("hang") else ("raised" if got.get("raised") else "mismatch"),
            "diverges_at": cmd["c"],
            "target_equals_clock": bool((cmd["c"] == "advance_to" and cmd["a"] == before) or (cmd["c"] == "advance_by" and cmd["a"] == 0)),
            "nitems": scn["n"]}


def spin_run(scn: Dict[str, Any], kind: str, max_spinning: int, watchdog: float = 10.0) -> Dict[str, Any]:
    """C29 at scale: n = mult*MAX_SPINNING + delta same-instant actions, the last one
    re-scheduling itself `chain` times, run by start() or advance_to(), optionally twice."""
    import reactivex.scheduler.virtualtimescheduler as vmod
    from reactivex.scheduler import VirtualTimeScheduler
    from reactivex.scheduler.scheduler import UTC_ZERO
    saved = vmod.MAX_SPINNING
    vmod.MAX_SPINNING = max_spinning
    s = make_sched(kind)
    dt = kind in ("hist", "histn")
    if kind == "histn":
        UTC_ZERO = NAIVE0
    n = scn["mult"] * max_spinning + scn["delta"]
    order: List[int] = []
    clocks: List[Any] = []

    def clk():
        c = s.clock
        return (c - UTC_ZERO).total_seconds() if dt else float(c)

    def load(base):
        left = [scn["chain"]]

        def plain(i):
            def act(sch, st=None):
                order.append(i)
                clocks.append(clk())
            return act

        def chained(i):
            def act(sch, st=None):
                order.append(i)
                clocks.append(clk())
                if left[0] > 0:
                    left[0] -= 1
                    sch.schedule(chained(i + 1))
            return act
        for i in range(n):
            s.schedule(chained(base + i) if i == n - 1 else plain(base + i))

    old = signal.signal(signal.SIGALRM, _alarm)
    signal.setitimer(signal.ITIMER_REAL, watchdog)
    try:
        rounds = 2 if scn["restart"] else 1
        for r in range(rounds):
            load(r * 100000)
            if scn["driver"] == "start":
                VirtualTimeScheduler.start(s)
            else:
                far = 10 ** 6 * (r + 1)  # a fresh target: advance_to(now) is a separate, known matter
                s.advance_to(UTC_ZERO + timedelta(seconds=far) if dt else float(far))
        return {"returned": True, "count": len(order), "fifo": order == sorted(order),
                "monotone": all(a <= b for a, b in zip(clocks, clocks[1:]))}
    except Hang:
        return {"returned": False, "count": len(order), "fifo": order == sorted(order), "monotone": True}
    except Exception as e:
        return {"returned": True, "raised": type(e).__name__, "count": len(order), "fifo": True, "monotone": True}
    finally:
        signal.setitimer(signal.ITIMER_REAL, 0)
        signal.signal(signal.SIGALRM, old)
        vmod.MAX_SPINNING = saved
