"""Bundle "obs": C43 (combinators serialize concurrently emitting sources - Serialize.tla) and
C32 (observe_on / ScheduledObserver - ScheduledObserver.tla).

C43  Binding C+B: every source of a real combinator is a Subject fed by its own DetSched thread with a short
     script ending in completion or error; the recording sink logs enter/exit of the USER'S callbacks with the
     thread and has switch points at function entry and inside its body, so a preemption inside a downstream
     call is explored.  All schedules up to a preemption bound (+ seeded random ones) are run, the traces are
     validated in batch against SerializeTrace.tla (NoOverlap, Grammar).  The lock-discipline model of
     Serialize.tla is checked by TLC over all interleavings (intended discipline: must satisfy the monitor;
     as-implemented discipline: its verdict is a prediction compared with the real runs - model drift only).

Python holds the codec (script tokens -> calls on the real Subject, thread names -> small integers) and the
witness computation for failure records; the verdict comes from the trace specification."""
from __future__ import annotations

import json
import threading as _real_threading
from typing import Any, Dict, List, Optional, Tuple

from harness import core, detsched, shims, tlc, tracecheck

try:                                    # inline controller + pooled carrier threads (same decisions, far fewer OS context switches)
    import inspect as _inspect
    from harness import fastsched as _fast
    _FAST_REUSE = "reuse_threads" in _inspect.signature(_fast.run_execution).parameters
except Exception:                       # pragma: no cover - optional helper
    _fast = None
    _FAST_REUSE = False


def _run_execution(build, choose, focus, max_steps=20000, granularity="gil"):
    """one controlled execution.  harness/fastsched.py makes the same decisions in the same order as detsched.DetSched
    (its own self-test asserts that); with reuse_threads the logical threads run on pooled OS threads - thread-local
    state of the code under test is only the per-thread trampoline, which is idle again after every run (its run() resets
    it in a finally clause).  Falls back to the plain DetSched when the helper is not there."""
    if _fast is None:
        return shims.run_execution(build, choose, focus=focus, max_steps=max_steps, granularity=granularity)
    if _FAST_REUSE:
        return _fast.run_execution(build, choose, focus=focus, max_steps=max_steps, granularity=granularity, reuse_threads=True)
    return _fast.run_execution(build, choose, focus=focus, max_steps=max_steps, granularity=granularity)


# ---- exploration order: fewest preemptions first ---------------------------------------------------------------
class CostExplorer:
    """Same protocol and same schedule space as detsched.Explorer (stateless search over the scheduling decisions
    of run_one(choose) with a preemption bound, then seeded random schedules) but prefixes are taken from a priority
    queue ordered by their number of preemptions: every schedule with 0, then 1, then 2 ... preemptions, so a
    truncated search is still exhaustive up to `complete_bound` preemptions."""

    def __init__(self, bound: int = 2, max_schedules: int = 2000, random_schedules: int = 0, seed: int = 0):
        self.bound, self.max_schedules, self.random_schedules, self.seed = bound, max_schedules, random_schedules, seed
        self.executed = 0
        self.truncated = False
        self.complete_bound = -1

    def explore(self, run_one):
        import heapq
        import random
        heap: List[Tuple[int, int, List[int]]] = [(0, 0, [])]
        tick = 1
        seen = set()
        while heap:
            if self.executed >= self.max_schedules:
                self.truncated = True
                break
            cost0, _, prefix = heapq.heappop(heap)
            pos = [0]

            def choose(en, cur, can_preempt, prefix=prefix, pos=pos):
                i = pos[0]
                pos[0] += 1
                if i < len(prefix) and prefix[i] in en:
                    return prefix[i]
                return cur if cur in en else en[0]
            ds = run_one(choose)
            self.executed += 1
            yield ds
            dec = ds.decisions
            pre = 0
            counts = []
            for (en, pick, cur, can) in dec:
                if cur != -1 and pick != cur:
                    pre += 1
                counts.append(pre)
            for i in range(len(prefix), len(dec)):
                en, pick, cur, can = dec[i]
                before = counts[i - 1] if i > 0 else 0
                for alt in en:
                    if alt == pick:
                        continue
                    cost = before + (1 if (cur != -1 and alt != cur) else 0)
                    if cost > self.bound:
                        continue
                    child = [d[1] for d in dec[:i]] + [alt]
                    key = tuple(child)
                    if key in seen:
                        continue
                    seen.add(key)
                    heapq.heappush(heap, (cost, tick, child))
                    tick += 1
        self.complete_bound = self.bound if not heap else heap[0][0] - 1
        rnd = random.Random(self.seed)
        for _ in range(self.random_schedules):
            def choose(en, cur, can_preempt):
                if cur in en and rnd.random() < 0.7:
                    return cur
                return rnd.choice(en)
            ds = run_one(choose)
            self.executed += 1
            yield ds


# ---- patch points (DESIGN Appendix B, verified against the imports of the pinned tree) -----------------------
class LeanRLock(shims.RLock):
    """cooperative re-entrant lock whose only switch point is BEFORE acquire.  A switch right after a release is
    equivalent to a switch before the releasing thread's next switch point (nothing visible happens in between), so
    dropping it removes only redundant schedules; blocking and re-entrancy are those of shims.RLock."""

    def release(self):
        me = shims._me()
        if me is not None and self.owner is not me:
            if shims.CUR is not None and shims.CUR.aborting:
                return                              # tear-down unwinding a `with lock:` of a thread that was blocked in wait()
            raise RuntimeError("release of a lock the thread does not own")
        self.depth -= 1
        if self.depth <= 0:
            self.owner, self.depth = None, 0


class QuietRLock(LeanRLock):
    """cooperative re-entrant lock with NO switch point of its own: taken at once when free, blocks cooperatively when
    another logical thread holds it.  For locks that only protect a Subject's own observer list (never the lock a
    combinator holds across a downstream call): preempting before such an acquisition only adds equivalent schedules."""

    def acquire(self, blocking: bool = True, timeout: float = -1):
        me = shims._me()
        if me is None:
            self.owner, self.depth = "main", self.depth + 1
            return True
        if self.owner is me:
            self.depth += 1
            return True
        if self.owner is not None:
            if not blocking:
                return False
            self.contended += 1
            shims.CUR.block(lambda: self.owner is None, None, what="lock")
        self.owner, self.depth = me, 1
        return True


_SPADO = None


def sp_autodetach():
    """AutoDetachObserver with a switch point at the entry of on_next / on_error / on_completed (function entry polls the
    eval breaker) and nothing else changed: its test-and-set of is_stopped is a visible operation on shared state, so the
    schedule search must be able to switch right before it (Appendix B: observable.observable.AutoDetachObserver)."""
    global _SPADO
    if _SPADO is None:
        from reactivex.observer.autodetachobserver import AutoDetachObserver

        class SpAutoDetachObserver(AutoDetachObserver):
            def on_next(self, value):
                shims._sp()
                return AutoDetachObserver.on_next(self, value)

            def on_error(self, error):
                shims._sp()
                return AutoDetachObserver.on_error(self, error)

            def on_completed(self):
                shims._sp()
                return AutoDetachObserver.on_completed(self)
        _SPADO = SpAutoDetachObserver
    return _SPADO


class _LeanNS(shims._ThreadingNS):
    RLock = LeanRLock


class _QuietNS(shims._ThreadingNS):
    RLock = QuietRLock


lean_ns = _LeanNS()
quiet_ns = _QuietNS()


def ser_patches(family: str) -> Dict[str, Dict[str, Any]]:
    """The locks a combinator family can hold ACROSS a downstream call are cooperative with a switch point before every
    acquisition (contention is explored): the zip / combine_latest RLock, Observable.lock (source.lock of merge_all,
    flat_map, merge(max_concurrent)) and the lock of the Subject that plays `source` / `parent` / `left_source`
    (set per instance in ser_build).  The other Subjects' locks (they only guard the observer list) are cooperative
    without switch points of their own.  The disposables' locks and, where every subscription is made by the set-up
    thread, the Subjects' locks stay real: no switch point can occur while one is held."""
    t: Dict[str, Dict[str, Any]] = {"reactivex.observable.observable": {"AutoDetachObserver": sp_autodetach()}}
    if family in ("zip", "combine_latest"):
        t["reactivex.observable." + ("zip" if family == "zip" else "combinelatest")] = {"RLock": LeanRLock}
        return t
    t["reactivex.observable.observable"]["threading"] = lean_ns              # Observable.lock = source.lock / parent.lock
    if family == "merge":
        return t
    t["reactivex.subject.subject"] = {"threading": quiet_ns}
    t["reactivex.subject.innersubscription"] = {"threading": quiet_ns}
    if family == "window":
        t["reactivex.scheduler.timeoutscheduler"] = {"Timer": shims.Timer}
        t["reactivex.scheduler.scheduler"] = {"default_now": shims.now}
    return t


def patched_for(table: Dict[str, Dict[str, Any]]):
    return shims.patched(extra=table, only=list(table))


# switch points of a C43 execution: every line of the combinator under test (below), every operation of a cooperative lock
# (Observable.lock, Subject.lock, the zip / combine_latest RLock, the disposables' locks) and the sink's own points
FOCUS_BY_FAMILY = {
    "merge": ("reactivex/operators/_merge.py",),
    "merge_outer": ("reactivex/operators/_merge.py",),
    "zip": ("reactivex/observable/zip.py",),
    "combine_latest": ("reactivex/observable/combinelatest.py",),
    "with_latest_from": ("reactivex/observable/withlatestfrom.py",),
    "amb": ("reactivex/operators/_amb.py",),
    "window": ("reactivex/operators/_windowwithtime.py", "reactivex/operators/_windowwithtimeorcount.py"),
}


def th_index(name: str) -> int:
    """thread names -> the small integers of the trace: main 0, source threads T<i> -> i, library threads W<n> -> 10+n"""
    if name.startswith("T"):
        return int(name[1:])
    if name.startswith("W"):
        return 10 + int(name[1:])
    return 0


# ---- C43: the rig -------------------------------------------------------------------------------------------------
class SerRig:
    def __init__(self, ds: detsched.DetSched):
        self.ds = ds
        self.n_obs = 0
        self.src: Dict[int, str] = {}      # thread -> source-level notification it is delivering right now

    def th(self) -> int:
        t = self.ds.me()
        return th_index(t.name) if t else 0

    def sp(self) -> None:
        if self.ds.me() is not None:
            self.ds.switch_point(True)

    def new_sink(self) -> "SerSink":
        s = SerSink(self, self.n_obs)
        self.n_obs += 1
        return s


class SerSink:
    """the downstream observer: what the USER'S callbacks see (the library wraps it in an AutoDetachObserver)"""

    def __init__(self, rig: SerRig, oid: int):
        self.rig, self.oid = rig, oid

    def _call(self, k: str, v: Any = None) -> None:
        rig = self.rig
        rig.sp()                                   # function entry (RESUME polls the eval breaker)
        th = rig.th()
        rig.ds.trace.append({"e": "enter", "th": th, "o": self.oid, "k": k, "sk": rig.src.get(th, "T")})
        rig.sp()                                   # the body of a user's callback does calls
        if k == "N" and self.oid == 0 and hasattr(v, "subscribe") and not isinstance(v, (tuple, list)):
            v.subscribe(rig.new_sink())            # a window: observe it too
            rig.sp()
        rig.ds.trace.append({"e": "exit", "th": th, "o": self.oid})

    def on_next(self, v: Any) -> None:
        self._call("N", v)

    def on_error(self, e: Exception) -> None:
        self._call("E")

    def on_completed(self) -> None:
        self._call("C")


OUTER_OPS = ("merge_all", "flat_map", "merge_mc1", "merge_mc2")
WINDOW_OPS = ("window_with_time", "window_with_time_or_count", "window_with_time_shift", "buffer_with_time", "buffer_with_time_or_count")
FAMILY_OF = {"merge": "merge", "merge3": "merge", "merge_all": "merge_outer", "flat_map": "merge_outer", "merge_mc1": "merge_outer",
             "merge_mc2": "merge_outer", "zip": "zip", "zip3": "zip", "combine_latest": "combine_latest", "combine_latest3": "combine_latest",
             "with_latest_from": "with_latest_from", "with_latest_from3": "with_latest_from", "amb": "amb", "amb3": "amb",
             "window_with_time": "window", "window_with_time_or_count": "window", "window_with_time_shift": "window",
             "buffer_with_time": "window", "buffer_with_time_or_count": "window"}


def build_pipeline(op: str, subs: List[Any]):
    import reactivex
    from reactivex import operators as ops
    from reactivex.scheduler import TimeoutScheduler
    base = op.rstrip("3")
    if base == "merge":
        return reactivex.merge(*subs)
    if base == "zip":
        return reactivex.zip(*subs)
    if base == "combine_latest":
        return reactivex.combine_latest(*subs)
    if base == "with_latest_from":
        return subs[0].pipe(ops.with_latest_from(*subs[1:]))
    if base == "amb":
        return reactivex.amb(*subs) if len(subs) > 2 else subs[0].pipe(ops.amb(subs[1]))
    if op == "merge_all":                         # the outer source emits the inner subjects themselves
        return subs[0].pipe(ops.merge_all())
    if op == "flat_map":                          # the outer source emits indices, the mapper picks the inner subject
        return subs[0].pipe(ops.flat_map(lambda k: subs[k]))
    if op == "merge_mc1":
        return subs[0].pipe(ops.merge(max_concurrent=1))
    if op == "merge_mc2":
        return subs[0].pipe(ops.merge(max_concurrent=2))
    sch = TimeoutScheduler()
    if op == "window_with_time":
        return subs[0].pipe(ops.window_with_time(1.0, scheduler=sch))
    if op == "window_with_time_shift":
        return subs[0].pipe(ops.window_with_time(2.0, 1.0, scheduler=sch))
    if op == "window_with_time_or_count":
        return subs[0].pipe(ops.window_with_time_or_count(1.0, 2, scheduler=sch))
    if op == "buffer_with_time":
        return subs[0].pipe(ops.buffer_with_time(1.0, scheduler=sch))
    if op == "buffer_with_time_or_count":
        return subs[0].pipe(ops.buffer_with_time_or_count(1.0, 2, scheduler=sch))
    raise ValueError(op)


def _plain_source():
    from reactivex import Observable
    from reactivex.disposable import Disposable

    class PlainSource(Observable):
        def __init__(self):
            super().__init__()
            self.obs = None

        def _subscribe_core(self, observer, scheduler=None):
            self.obs = observer
            return Disposable(lambda: setattr(self, "obs", None))

        def on_next(self, v):
            o = self.obs
            if o is not None:
                o.on_next(v)

        def on_error(self, e):
            o = self.obs
            if o is not None:
                o.on_error(e)

        def on_completed(self):
            o = self.obs
            if o is not None:
                o.on_completed()
    return PlainSource()


def ser_build(sc: Dict[str, Any]):
    """build(ds) for one scenario: real Subjects, the real combinator, one logical thread per source.
    sc["order"] is the ARRIVAL order of the notifications (which source starts its next one): a source thread waits
    (blocked, so switching away from it is not a preemption) until it is its turn to START a notification; it never
    waits for another notification to finish, so calls still overlap wherever the schedule preempts.  Arrival orders
    are a scenario dimension (all of them are enumerated), preemptions are spent inside the handlers."""
    op, scripts, order = sc["op"], sc["scripts"], sc.get("order")

    def build(ds: detsched.DetSched) -> None:
        from reactivex.subject import Subject
        rig = SerRig(ds)
        ds.rig = rig
        rig.turn = 0
        subs = [Subject() for _ in scripts]
        if sc.get("plain"):
            # a source that is NOT a Subject (what reactivex.create gives): nothing but the operator itself takes
            # `source.lock`, so the operator's own discipline is all that serializes its handlers
            subs[0] = _plain_source()
        if isinstance(subs[0].lock, QuietRLock):
            subs[0].lock = LeanRLock()          # the first source is `source` / `parent` / `left_source`: its lock is the operator's
        xs = build_pipeline(op, subs)
        xs.subscribe(rig.new_sink())
        for i, script in enumerate(scripts, start=1):
            def body(i=i, script=script):
                subj = subs[i - 1]
                n = 0
                for tok in script:
                    if tok == "S":                          # let one unit of controlled time pass
                        shims.sleep(1.0)
                        continue
                    if order is not None:
                        ds.block(lambda: rig.turn >= len(order) or order[rig.turn] == i, what="turn")
                        rig.turn += 1
                    rig.src[i] = tok
                    if tok == "N":
                        n += 1
                        if op in OUTER_OPS and i == 1:
                            subj.on_next(subs[n] if op != "flat_map" else n)
                        else:
                            subj.on_next(10 * i + n)
                    elif tok == "E":
                        subj.on_error(RuntimeError(f"e{i}"))
                    else:
                        subj.on_completed()
                    rig.src[i] = "-"
            ds.spawn(f"T{i}", body)
    return build


def arrival_orders(scripts: List[str], limit: int, seed: int) -> List[List[int]]:
    """all interleavings of the sources' notifications (tokens other than S), or a seeded sample of `limit` of them"""
    import random
    counts = [sum(1 for t in s if t != "S") for s in scripts]

    def rec(left):
        if not any(left):
            yield []
            return
        for i, c in enumerate(left):
            if c:
                left[i] -= 1
                for rest in rec(left):
                    yield [i + 1] + rest
                left[i] += 1
    total = 1
    import math
    total = math.factorial(sum(counts))
    for c in counts:
        total //= math.factorial(c)
    if total <= limit:
        return list(rec(list(counts)))
    rnd = random.Random(seed * 7919 + sum(counts) * 31 + len(scripts))
    out, seen = [], set()
    base = [i + 1 for i, c in enumerate(counts) for _ in range(c)]

    def round_robin(first_order):
        left, res = list(counts), []
        while any(left):
            for i in first_order:
                if left[i]:
                    left[i] -= 1
                    res.append(i + 1)
        return res
    idx = list(range(len(counts)))
    # the alternating orders first (most chances to overlap), then the sequential ones, then seeded random ones
    for perm in (round_robin(idx), round_robin(idx[::-1]), sorted(base), sorted(base, reverse=True)):
        if len(out) < limit and tuple(perm) not in seen:
            seen.add(tuple(perm))
            out.append(list(perm))
    while len(out) < limit:
        p = base[:]
        rnd.shuffle(p)
        if tuple(p) not in seen:
            seen.add(tuple(p))
            out.append(p)
    return out


def exc_origin(exc: BaseException) -> str:
    """'harness' when the exception was raised by this file / the harness (a scenario or machinery bug), else 'library'"""
    tb = exc.__traceback__
    last = None
    while tb is not None:
        last = tb.tb_frame.f_code.co_filename
        tb = tb.tb_next
    return "harness" if last is None or "/harness/" in last or last.endswith("obs_common.py") else "library"


def finish_trace(ds: detsched.DetSched) -> List[Dict[str, Any]]:
    tr = list(ds.trace)
    for t in ds.threads:
        if t.exc is not None and exc_origin(t.exc) == "library" and "downstream callback" not in repr(t.exc):
            tr.append({"e": "exc", "th": th_index(t.name), "what": repr(t.exc)[:200]})
    if ds.deadlocked:
        tr.append({"e": "deadlock", "th": 0, "waiting": {t.name: t.waiting_on for t in ds.threads if t.started and not t.done}})
    if ds.step_limit_hit:
        tr.append({"e": "steplimit", "th": 0})
    return tr


def replay_choose(decisions: List[int]):
    pos = [0]

    def choose(en, cur, can_preempt):
        i = pos[0]
        pos[0] += 1
        if i < len(decisions) and decisions[i] in en:
            return decisions[i]
        return cur if cur in en else en[0]
    return choose


def ser_explore(args) -> Dict[str, Any]:
    """all schedules of one scenario up to the preemption bound (+ seeded random ones): distinct traces"""
    sc, bound, max_sched, nrandom, seed = args[:5]
    lines = args[5] if len(args) > 5 else True
    traces: Dict[str, List[Any]] = {}
    stats = {"executions": 0, "deadlocks": 0, "steplimit": 0, "thread_exc": 0, "contended": 0}
    exc_samples: List[str] = []
    build = ser_build(sc)

    focus = FOCUS_BY_FAMILY[FAMILY_OF[sc["op"]]] if lines else ()

    def run_one(choose):
        return _run_execution(build, choose, focus=focus, max_steps=4000)

    with patched_for(ser_patches(FAMILY_OF[sc["op"]])):
        ex = CostExplorer(bound=bound, max_schedules=max_sched, random_schedules=nrandom, seed=seed)
        for ds in ex.explore(run_one):
            stats["executions"] += 1
            tr = finish_trace(ds)
            stats["deadlocks"] += int(ds.deadlocked)
            stats["steplimit"] += int(ds.step_limit_hit)
            for t in ds.threads:
                if t.exc is not None:
                    stats["thread_exc"] += 1
                    stats["harness_exc"] = stats.get("harness_exc", 0) + int(exc_origin(t.exc) == "harness")
                    if len(exc_samples) < 3:
                        exc_samples.append(f"{t.name}: {t.exc!r} ({exc_origin(t.exc)})"[:300])
            key = json.dumps(tr, sort_keys=True)
            if key not in traces:
                traces[key] = [tr, 0, [d[1] for d in ds.decisions], lines]
            traces[key][1] += 1
    return {"scenario": sc, "traces": list(traces.values()), "stats": stats, "truncated": ex.truncated, "complete_bound": ex.complete_bound, "lines": lines,
            "exc_samples": exc_samples}


def _en(th, o, k):
    return {"e": "enter", "th": th, "o": o, "k": k, "sk": k}


def _ex(th, o):
    return {"e": "exit", "th": th, "o": o}


# binding self-test: hand-made traces with known verdicts ride along in every validation batch
SER_SELFTEST = [
    ("overlap", False, [_en(1, 0, "N"), _en(2, 0, "N"), _ex(2, 0), _ex(1, 0)]),
    ("after_terminal", False, [_en(1, 0, "C"), _ex(1, 0), _en(2, 0, "N"), _ex(2, 0)]),
    ("two_terminals", False, [_en(1, 0, "N"), _ex(1, 0), _en(1, 0, "E"), _ex(1, 0), _en(1, 0, "C"), _ex(1, 0)]),
    ("unbalanced", False, [_en(1, 0, "N")]),
    ("deadlock_event", False, [_en(1, 0, "N"), _ex(1, 0), {"e": "deadlock", "th": 0}]),
    ("reentrant_same_thread", True, [_en(1, 0, "N"), _en(1, 0, "C"), _ex(1, 0), _ex(1, 0)]),
    ("two_observers_two_threads", True, [_en(1, 0, "N"), _en(2, 1, "N"), _ex(2, 1), _ex(1, 0), _en(2, 0, "C"), _ex(2, 0)]),
    ("serial_two_threads", True, [_en(1, 0, "N"), _ex(1, 0), _en(2, 0, "N"), _ex(2, 0), _en(1, 0, "E"), _ex(1, 0)]),
]


def check_selftest(kind: str, selftest, base: int, rejected) -> List[Tuple[int, int]]:
    """the self-test traces sit at positions base.. of the batch: verify their verdicts, return the other rejections"""
    rej = {i for (i, _) in rejected}
    for j, (name, accept, _) in enumerate(selftest):
        if ((base + j) not in rej) != accept:
            raise tlc.TLCFailure(f"{kind} trace specification self-test: trace '{name}' should be {'accepted' if accept else 'rejected'}")
    return [(i, u) for (i, u) in rejected if i < base]


def ser_witness(tr: List[Dict[str, Any]], upto: int) -> Dict[str, Any]:
    """describe the event the monitor rejected (diagnosis + the fields known-finding entries match on)"""
    if upto >= len(tr):
        return {"failure": "unbalanced", "down_kinds": "", "src_kinds": ""}
    ev = tr[upto]
    if ev["e"] != "enter":
        return {"failure": ev["e"], "down_kinds": "", "src_kinds": ""}
    open_: List[Dict[str, Any]] = []
    last_terminal: Optional[Dict[str, Any]] = None
    for e in tr[:upto]:
        if e["e"] == "enter":
            open_.append(e)
            if e["o"] == ev["o"] and e["k"] in ("E", "C") and last_terminal is None:
                last_terminal = e
        elif e["e"] == "exit":
            for j in range(len(open_) - 1, -1, -1):
                if open_[j]["th"] == e["th"]:
                    del open_[j]
                    break
    other = [f for f in open_ if f["o"] == ev["o"] and f["th"] != ev["th"]]
    if other:
        f = other[-1]
        return {"failure": "overlap", "down_kinds": "|".join(sorted([f["k"], ev["k"]])), "src_kinds": "|".join(sorted([f["sk"], ev["sk"]])),
                "inside": {"th": f["th"], "k": f["k"], "sk": f["sk"]}, "entering": {"th": ev["th"], "k": ev["k"], "sk": ev["sk"]}}
    t = last_terminal or {"k": "?", "sk": "?", "th": -1}
    return {"failure": "grammar", "down_kinds": "|".join(sorted([t["k"], ev["k"]])), "src_kinds": "|".join(sorted([t["sk"], ev["sk"]])),
            "after_terminal": {"th": t["th"], "k": t["k"], "sk": t["sk"]}, "entering": {"th": ev["th"], "k": ev["k"], "sk": ev["sk"]}}


def tr_src_kind(tr: List[Dict[str, Any]], frame: Dict[str, Any]) -> str:
    """source-level kind of the notification during which the downstream call `frame` (th, k) was made"""
    return frame.get("sk", "?")


SER_TRACE_INVS = ["NoOverlap", "Grammar", "BalancedAtEnd"]
SER_TRACE_CONSTS = dict(Threads={1, 2, 3}, Obs=set(range(0, 10)), Families={"trace"}, DiscSet={"intended"}, MaxN=0)
ALL_FAMILIES = {"merge", "merge_outer", "zip", "combine_latest", "with_latest_from", "amb", "window"}


BEFORE_FIX_FAMILIES = {"merge_outer", "zip", "combine_latest", "with_latest_from"}


def ser_design(threads: int, maxn: int, workers: int = 4, timeout: int = 900):
    """the lock-discipline model over all interleavings: the intended discipline must satisfy the monitor (TLC error otherwise);
    returns (result, {family: monitor invariants the AS-IMPLEMENTED discipline can violate}).  Negative control: the
    discipline of the tree before this bundle's fixes must violate the monitor for exactly the four repaired families."""
    consts = dict(Threads=set(range(1, threads + 1)), Obs={0, 1, 2}, Families=ALL_FAMILIES,
                  DiscSet={"intended", "implemented", "before_fix"}, MaxN=maxn)
    cfg = tlc.cfg_text(consts, invariants=["TypeOK", "LockOK", "DesignNoOverlap", "DesignGrammar", "Predict"], deadlock=True)
    res = tlc.run("Serialize", cfg, workers=workers, timeout=timeout, coverage=True, allow_violation=False)
    need = ("Start", "Acquire", "Decide", "Guard", "DoEnter", "DoExit", "Finish", "Terminated")
    never = [a for a in need if res.coverage.get(a, 0) == 0]
    if never:
        raise tlc.TLCFailure(f"vacuous Serialize design run: actions never taken {never}")
    pred: Dict[str, set] = {f: set() for f in ALL_FAMILIES}
    control: Dict[str, set] = {f: set() for f in ALL_FAMILIES}
    for ln in res.lines:
        (pred if ln["disc"] == "implemented" else control)[ln["predict"]].add(ln["violates"])
    bad = {f for f in ALL_FAMILIES if bool(control[f]) != (f in BEFORE_FIX_FAMILIES)}
    if bad:
        raise tlc.TLCFailure(f"negative control of the lock-discipline model failed for {sorted(bad)}: {control}")
    return res, pred


def ser_scenarios(tier: str, seed: int) -> List[Dict[str, Any]]:
    """(operator, per-source scripts, arrival order) - the arrival orders of a script tuple are all enumerated
    (two sources) or sampled with the seed (three sources / long scripts)"""
    quick = tier == "quick"
    out: List[Dict[str, Any]] = []

    def add(op, scripts, limit):
        for order in arrival_orders(list(scripts), limit, seed):
            out.append({"op": op, "scripts": [list(x) for x in scripts], "order": order})
    if quick:
        for op in ("merge", "zip", "combine_latest"):
            add(op, ("NNC", "NNE"), 6)          # two elements each: two threads can both be delivering an element
            add(op, ("NC", "NE"), 6)
        for op in ("with_latest_from", "amb"):    # asymmetric operators: both orientations
            add(op, ("NC", "NE"), 6)
            add(op, ("NE", "NC"), 6)
    else:
        pairs = [(a, b) for a in ("NC", "NE", "NNC", "NNE") for b in ("NC", "NE", "NNC", "NNE")] + \
                [("C", "NNC"), ("E", "NNC"), ("NNC", "C"), ("NNC", "E")]
        for op in ("merge", "zip", "combine_latest", "with_latest_from", "amb"):
            for pr in pairs:
                add(op, pr, 8)
    # an outer source on its own thread handing out inner sources that emit on theirs
    if quick:
        add("flat_map", ("NE", "NNC"), 4)
        add("merge_all", ("NE", "NC"), 6)
        add("merge_mc1", ("NE", "NC"), 4)
        add("merge_mc2", ("NC", "NE", "NC"), 3)
    else:
        # (the outer source hands out one inner source per element: at most len(scripts) - 1 elements)
        outer = [("NE", "NNC"), ("NC", "NNC"), ("NE", "NC"), ("NC", "NE"), ("NE", "NE"), ("NNC", "NC", "NE"), ("NNE", "NNC", "NC"),
                 ("NNC", "NE", "NNC")]
        for op in ("merge_all", "flat_map", "merge_mc1", "merge_mc2"):
            for scr in outer:
                add(op, scr, 6)
    # time/count windows: the source on its thread, the window timers on the scheduler's threads; S = one time unit
    win_all = [("NSNC",), ("NNSE",), ("SNSC",), ("NSNSNC",), ("NNSNNSC",), ("SSNE",), ("NSSNC",), ("SC",), ("SE",)]
    for k, op in enumerate(WINDOW_OPS):
        for scr in (win_all[:2] if quick else win_all):
            n0 = len(out)
            add(op, scr, 1)
            out.extend(dict(x, plain=True) for x in out[n0:])      # the same with a source that is not a Subject
    # three sources
    tri = [("NC", "NC", "NE")] if quick else [("NC", "NC", "NE"), ("NNC", "NC", "NC"), ("NE", "NNC", "NC"), ("NC", "NE", "NNC")]
    for op in ("merge3", "zip3", "combine_latest3", "with_latest_from3", "amb3"):
        for scr in tri:
            add(op, scr, 4 if quick else 8)
    return out


def _preload() -> None:
    """import the library in the parent so that the forked workers do not each compile it again"""
    import reactivex  # noqa: F401
    import reactivex.operators  # noqa: F401
    import reactivex.scheduler  # noqa: F401
    import reactivex.subject  # noqa: F401
    from reactivex.observable import combinelatest, withlatestfrom, zip as _zip  # noqa: F401
    from reactivex.operators import _amb, _merge, _observeon, _windowwithtime, _windowwithtimeorcount  # noqa: F401
    from reactivex.scheduler import eventloopscheduler, newthreadscheduler, timeoutscheduler  # noqa: F401
    sp_autodetach()
    rec_class("ObserveOnObserver")
    rec_class("ScheduledObserver")


def carrier_equivalence(ck, explore, jobs) -> None:
    """thorough-tier self-check of the pooled-thread runner: a sample of scenarios is explored with pooled carrier threads
    and with fresh OS threads per execution; the sets of distinct traces must be identical (same schedules, same
    behaviour - no thread-local state of the code under test leaks from one execution into the next)"""
    global _FAST_REUSE
    if _fast is None or not _FAST_REUSE:
        ck.note("pooled_thread_equivalence", "not applicable (plain DetSched in use)")
        return
    sample = jobs[:: max(1, len(jobs) // 6)][:6]
    small = [(j[0], 2, 60, 3, j[4], j[5]) for j in sample if len(j) <= 6]
    pooled = [sorted(json.dumps(t[0], sort_keys=True) for t in explore(j)["traces"]) for j in small]
    _FAST_REUSE = False
    try:
        fresh = [sorted(json.dumps(t[0], sort_keys=True) for t in explore(j)["traces"]) for j in small]
    finally:
        _FAST_REUSE = True
    if pooled != fresh:
        raise RuntimeError("pooled carrier threads and fresh threads produced different traces for the same schedules")
    ck.note("pooled_thread_equivalence", f"{len(small)} scenarios x 63 schedules: identical trace sets with pooled and fresh OS threads")


def _pool_map(fn, jobs, procs: int, timeout: int):
    """fork pool with an overall deadline (a hang of the controlled scheduler is a machinery failure, not a verdict)"""
    import multiprocessing as mp
    _preload()
    pool = mp.get_context("fork").Pool(procs)          # fork before any thread exists
    try:
        return pool, pool.map_async(fn, jobs, chunksize=1)
    except BaseException:
        pool.terminate()
        raise


def ser_run(pid: str, tier: str, rule: str, assumptions: List[str]) -> int:
    ck = core.Check(pid, tier)
    ck.rule = rule
    quick = tier == "quick"
    bound = 2 if quick else 3
    nrandom = 5 if quick else 150
    scs = ser_scenarios(tier, ck.seed)

    def budget(sc, lines):
        # quick: the search takes schedules with fewer preemptions first; the budget is about enough for every schedule
        # with <= 2 preemptions at lock/sink granularity (<= 1 for windows and line granularity); thorough: bound 3, generous cut
        if not quick:
            return 1500
        fam = FAMILY_OF[sc["op"]]
        if lines:
            return 150
        if fam == "merge_outer":
            return 250
        return {"window": 200}.get(fam, 200 if len(sc["scripts"]) > 2 else 150)
    # two granularities of switch points: lock acquisitions + the sink's points ("sync"), and additionally every line of
    # the combinator's own file ("lines").  quick: sync everywhere, lines for one arrival order per operator and script tuple
    jobs = []
    lines_count: Dict[str, int] = {}
    for sc in scs:
        if quick:
            jobs.append((sc, bound, budget(sc, False), nrandom, ck.seed, False))
            # line granularity, bound 2 to completion where affordable: the first two (alternating) arrival orders of every
            # two-source script tuple, one order for outer-source operators and windows
            fam = FAMILY_OF[sc["op"]]
            key = sc["op"] + json.dumps(sc["scripts"])
            n = lines_count.get(key, 0)
            if fam in ("window", "merge_outer"):
                if n < 1:
                    lines_count[key] = n + 1
                    jobs.append((sc, 2, 1200, 0, ck.seed, True))
            elif len(sc["scripts"]) == 2 and n < (2 if sc["scripts"][0] == list("NNC") else 1):
                lines_count[key] = n + 1
                jobs.append((sc, 2, 3500, 0, ck.seed, True))
        else:
            jobs.append((sc, bound, 3000, 100, ck.seed, True))
            jobs.append((sc, bound, 800, 30, ck.seed + 1, False))
    jobs.sort(key=lambda j: -j[2])
    import time as _time
    t_start = _time.time()
    pool, pending = _pool_map(ser_explore, jobs, procs=6 if quick else 8, timeout=0)
    design: Dict[str, Any] = {}

    def do_design():
        try:
            design["res"] = ser_design(2, 1, workers=2) if quick else ser_design(3, 2, timeout=3000)
        except BaseException as e:  # noqa: BLE001 - re-raised on the main thread
            design["err"] = e
    dthread = _real_threading.Thread(target=do_design)
    dthread.start()
    try:
        results = pending.get(timeout=600 if quick else 7200)
    finally:
        pool.terminate()
        pool.join()
    t_explored = _time.time()
    total = 0
    batch: List[Tuple[List[Any], Dict[str, Any], int, List[int], bool]] = []
    seen_viol: Dict[str, set] = {}
    exc_samples: List[str] = []
    complete: Dict[str, int] = {}
    for r in results:
        total += r["stats"]["executions"]
        for k in ("deadlocks", "steplimit", "thread_exc"):
            ck.count("conc_" + k, r["stats"][k])
        if r["stats"].get("harness_exc"):
            raise RuntimeError(f"exception raised by the harness inside a logical thread (scenario {r['scenario']}): {r['exc_samples']}")
        complete[str(r["complete_bound"])] = complete.get(str(r["complete_bound"]), 0) + 1
        exc_samples += r["exc_samples"]
        for (tr, n, dec, lines) in r["traces"]:
            batch.append((tr, r["scenario"], n, dec, lines))
    if ck.extra.get("conc_steplimit"):
        raise RuntimeError("step limit hit in a C43 execution (machinery)")
    if not quick:
        carrier_equivalence(ck, ser_explore, jobs)
    ck.note("conc_executions", total)
    ck.note("preemption_bound", bound)
    ck.note("scenarios_with_arrival_order", len(scs))
    ck.note("scenarios_by_largest_preemption_count_explored_completely", complete)
    ck.note("thread_exception_samples", exc_samples[:5])
    rejected, ress = tracecheck.validate("SerializeTrace", SER_TRACE_CONSTS, [b[0] for b in batch] + [t for (_, _, t) in SER_SELFTEST],
                                         invariants=SER_TRACE_INVS, timeout=1800, chunk=100000)
    rejected = check_selftest("SerializeTrace", SER_SELFTEST, len(batch), rejected)
    ck.note("trace_spec_selftest", f"{len(SER_SELFTEST)} hand-made traces judged as expected ({sum(1 for x in SER_SELFTEST if not x[1])} rejected)")
    for r in ress:
        ck.add_tlc(r, f"trace validation ({len(batch)} distinct traces + {len(SER_SELFTEST)} self-test traces)")
    for (idx, upto) in rejected:
        tr, sc, n, dec, lines = batch[idx]
        w = ser_witness(tr, upto)
        fam = FAMILY_OF[sc["op"]]
        seen_viol.setdefault(fam, set()).add({"overlap": "NoOverlap", "grammar": "Grammar"}.get(w["failure"], w["failure"]))
        # for the outer-source operators: is the terminal involved in the clash one delivered by the OUTER source (thread 1)?
        outer_terminal = sc["op"] in OUTER_OPS and any(f.get("th") == 1 and tr_src_kind(tr, f) in ("E", "C")
                                                        for f in (w.get("inside"), w.get("entering"), w.get("after_terminal")) if f)
        ck.fail({"engine": "serialize", "op": sc["op"], "family": fam, "failure": w["failure"], "src_kinds": w["src_kinds"],
                 "outer_terminal": outer_terminal,
                 "down_kinds": w["down_kinds"], "witness": w, "scenario": sc, "rejected_at": upto, "trace": tr,
                 "schedules_with_this_trace": n, "decisions": dec, "line_switch_points": lines})
    summ: Dict[str, int] = {}
    for v in ck.violations:
        k = f"{v['op']} {v['failure']} src={v['src_kinds']} down={v['down_kinds']}"
        summ[k] = summ.get(k, 0) + 1
    ck.note("unexplained_violation_summary", summ)
    for want in ("zip", "merge", "window_with_time"):
        for (tr, sc, n, dec, lines) in batch:
            if sc["op"] == want and len(tr) >= 6:
                ck.sample({"scenario": sc, "trace": tr})
                break
    ck.impl += total
    ck.note("phase_seconds", {"explore": round(t_explored - t_start, 1), "validate_and_judge": round(_time.time() - t_explored, 1)})
    ck.note("distinct_traces", len(batch))
    ck.nontrivial = sum(1 for (tr, sc, n, dec, lines) in batch if len({e["th"] for e in tr if e["e"] == "enter"}) >= 2)
    dthread.join()
    if "err" in design:
        raise design["err"]
    res, pred = design["res"]
    ck.add_tlc(res, "design: lock-discipline model, all interleavings; intended + as-implemented disciplines, pre-fix discipline as negative control")
    ck.note("negative_control_pre_fix_discipline_refuted_for", sorted(BEFORE_FIX_FAMILIES))
    ck.note("design_predicted_violations_as_implemented", {f: sorted(v) for f, v in pred.items()})
    ck.note("observed_violations_real_code", {f: sorted(v) for f, v in seen_viol.items()})
    for fam in sorted(ALL_FAMILIES):
        p, o = pred.get(fam, set()), {x for x in seen_viol.get(fam, set()) if x in ("NoOverlap", "Grammar")}
        if o and not p or (p and not o and not quick):
            ck.drift(f"{fam}: as-implemented lock-discipline model predicts {sorted(p) or 'no violation'}, controlled schedules of the "
                     f"real code show {sorted(o) or 'none'}")
    ck.exhaustive = False
    ck.assumptions = assumptions
    return ck.finish()


def ser_replay(rec: Dict[str, Any]) -> int:
    sc = rec["scenario"]
    print("scenario:", json.dumps(sc))
    with patched_for(ser_patches(FAMILY_OF[sc["op"]])):
        focus = FOCUS_BY_FAMILY[FAMILY_OF[sc["op"]]] if rec.get("line_switch_points", True) else ()
        ds = _run_execution(ser_build(sc), replay_choose(rec["decisions"]), focus=focus, max_steps=4000)
    tr = finish_trace(ds)
    same = json.dumps(tr, sort_keys=True) == json.dumps(rec["trace"], sort_keys=True)
    print("re-executed the recorded schedule on the real code:", "same trace" if same else "DIFFERENT trace")
    for e in tr:
        print("  ", json.dumps(e))
    rejected, _ = tracecheck.validate("SerializeTrace", SER_TRACE_CONSTS, [tr], invariants=SER_TRACE_INVS)
    if rejected:
        print("SerializeTrace verdict: rejected at event", rejected[0][1], json.dumps(ser_witness(tr, rejected[0][1])))
    else:
        print("SerializeTrace verdict: accepted")
    return 1 if rejected else 0


# =====================================================================================================================
# C32 - observe_on / ScheduledObserver (ScheduledObserver.tla, ScheduledObserverTrace.tla, ScheduledObserverImpl.tla)
# =====================================================================================================================
class LeanLock(shims.Lock):
    """non-reentrant cooperative lock, switch point before acquire only (see LeanRLock)"""

    def release(self):
        me = shims._me()
        if me is not None and self.owner is not me:
            if shims.CUR is not None and shims.CUR.aborting:
                return                              # tear-down unwinding a `with condition:` of a thread blocked in wait()
            raise RuntimeError("release of a lock the thread does not own")
        self.depth -= 1
        if self.depth <= 0:
            self.owner, self.depth = None, 0


class _LoopNS(shims._ThreadingNS):
    Lock = LeanLock
    RLock = LeanRLock


loop_ns = _LoopNS()
FOCUS_C32 = ("reactivex/observer/scheduledobserver.py", "reactivex/observer/observeonobserver.py")
_SO_RIG: Optional["SoRig"] = None
_REC_CLASSES: Dict[str, Any] = {}


class SoRig:
    """event log of one C32 execution: calls on scheduled observers, deliveries at the user's callbacks"""

    def __init__(self, ds: detsched.DetSched, raise_at: int, current_thread_sched: bool = False):
        self.ds = ds
        self.raise_at = raise_at
        self.del_offset = 300 if current_thread_sched else 0     # see DelSink._call
        self.n_so = 0
        self.n_sink = 0
        self.turn = 0
        self.ea_threads: Dict[int, set] = {}

    def th(self) -> int:
        t = self.ds.me()
        return th_index(t.name) if t else 0

    def sp(self) -> None:
        if self.ds.me() is not None:
            self.ds.switch_point(True)

    def log(self, **ev: Any) -> None:
        ev["th"] = self.th()
        self.ds.trace.append(ev)


def rec_class(base_name: str):
    """recording subclass of ObserveOnObserver / ScheduledObserver: logs call/ret around on_next / on_error / on_completed
    (the boundary at which the scheduled observer RECEIVES a notification); nothing else is changed"""
    cls = _REC_CLASSES.get(base_name)
    if cls is not None:
        return cls
    if base_name == "ObserveOnObserver":
        from reactivex.observer.observeonobserver import ObserveOnObserver as Base
    else:
        from reactivex.observer.scheduledobserver import ScheduledObserver as Base

    class Rec(Base):
        def __class_getitem__(cls, item):           # replaysubject.py writes cast(ScheduledObserver[_T], observer)
            return cls

        def __init__(self, *a, **k):
            Base.__init__(self, *a, **k)
            rig = _SO_RIG
            self._so_id = rig.n_so
            rig.n_so += 1

        def _rec(self, k, v, fn, *args):
            rig = _SO_RIG
            rig.log(e="call", so=self._so_id, k=k, v=v)
            try:
                return fn(self, *args)
            finally:
                rig.log(e="ret", so=self._so_id)

        def ensure_active(self):
            rig = _SO_RIG
            rig.ea_threads.setdefault(self._so_id, set()).add(rig.th())      # witness only
            return Base.ensure_active(self)

        def on_next(self, value):
            return self._rec("N", value, Base.on_next, value)

        def on_error(self, error):
            return self._rec("E", 0, Base.on_error, error)

        def on_completed(self):
            return self._rec("C", 0, Base.on_completed)
    Rec.__name__ = "Rec" + base_name
    _REC_CLASSES[base_name] = Rec
    return Rec


class DelSink:
    """the downstream observer of a scheduled observer: logs deliveries; its `raise_at`-th delivery raises"""

    def __init__(self, rig: SoRig, sid: int):
        self.rig, self.sid, self.n = rig, sid, 0

    def _call(self, k: str, v: Any) -> None:
        rig = self.rig
        rig.sp()
        # codec: with a CurrentThreadScheduler target every thread that schedules is a thread of the target scheduler, so
        # "on the target scheduler" is vacuous there; delivering thread t is written as 300 + t (inside LoopThreads)
        dth = rig.th() + rig.del_offset
        rig.ds.trace.append({"e": "dstart", "so": self.sid, "k": k, "v": v, "th": dth})
        rig.sp()
        self.n += 1
        if self.sid == 0 and self.n == rig.raise_at:
            rig.ds.trace.append({"e": "dend", "so": self.sid, "raised": True, "th": dth})
            raise RuntimeError(f"downstream callback {self.n} raises")
        rig.ds.trace.append({"e": "dend", "so": self.sid, "raised": False, "th": dth})

    def on_next(self, v: Any) -> None:
        self._call("N", v)

    def on_error(self, e: Exception) -> None:
        self._call("E", 0)

    def on_completed(self) -> None:
        self._call("C", 0)


def so_patches() -> Dict[str, Dict[str, Any]]:
    return {
        "reactivex.observer.scheduledobserver": {"threading": lean_ns},
        # the handles of scheduled runs are shared state too (ScheduledObserver.disposable is a SerialDisposable written by
        # ensure_active, ScheduledItem.disposable a SingleAssignmentDisposable read by the loop): a switch point before every
        # acquisition of their locks, i.e. right before each assignment / dispose
        "reactivex.disposable.serialdisposable": {"RLock": LeanRLock},
        "reactivex.disposable.singleassignmentdisposable": {"RLock": LeanRLock},
        "reactivex.disposable.disposable": {"RLock": LeanRLock},
        "reactivex.scheduler.eventloopscheduler": {"threading": loop_ns},
        "reactivex.scheduler.timeoutscheduler": {"Timer": shims.Timer},
        "reactivex.scheduler.scheduler": {"default_now": shims.now},
        "reactivex.operators._observeon": {"ObserveOnObserver": rec_class("ObserveOnObserver")},
        "reactivex.subject.replaysubject": {"ScheduledObserver": rec_class("ScheduledObserver"), "threading": None},
        "reactivex.subject.subject": {"threading": quiet_ns},
        "reactivex.subject.innersubscription": {"threading": quiet_ns},
        "reactivex.observable.observable": {"threading": lean_ns},
    }


def _so_patch_table() -> Dict[str, Dict[str, Any]]:
    t = so_patches()
    t["reactivex.subject.replaysubject"].pop("threading")
    return t


def make_scheduler(kind: str):
    from reactivex.scheduler import EventLoopScheduler, NewThreadScheduler, TimeoutScheduler

    def factory(target):
        return shims.Thread(target=target, daemon=True)
    if kind == "eventloop":
        return EventLoopScheduler(thread_factory=factory)
    if kind == "eventloop_exit":
        return EventLoopScheduler(thread_factory=factory, exit_if_empty=True)
    if kind == "newthread":
        return NewThreadScheduler(thread_factory=factory)
    if kind == "timeout":
        return TimeoutScheduler()
    if kind == "current":
        # ReplaySubject's default kind of scheduler: a trampoline per calling thread - a scheduled run() executes on the
        # thread that scheduled it, so two drain chains started by two threads really run concurrently
        from reactivex.scheduler import CurrentThreadScheduler
        return CurrentThreadScheduler()
    raise ValueError(kind)


def so_build(sc: Dict[str, Any]):
    """sc: kind 'observe_on' | 'observe_on_merge' | 'replay'; scripts (one per producer thread); sched; raise_at; order
    (arrival order of the producers' calls - and for 'replay' of the late subscriber's subscribe, thread 2)"""
    kind, scripts, order = sc["kind"], sc["scripts"], sc.get("order")

    def build(ds: detsched.DetSched) -> None:
        global _SO_RIG
        import reactivex
        from reactivex import operators as ops
        from reactivex.subject import ReplaySubject, Subject
        rig = SoRig(ds, sc.get("raise_at", 0), sc.get("sched") == "current")
        _SO_RIG = rig
        ds.rig = rig
        loop = make_scheduler(sc.get("sched", "eventloop"))

        def new_sink():
            s = DelSink(rig, rig.n_sink)
            rig.n_sink += 1
            return s

        def wait_turn(i):
            if order is not None:
                ds.block(lambda: rig.turn >= len(order) or order[rig.turn] == i, what="turn")
                rig.turn += 1

        def emit(subj, i, script):
            n = 0
            for tok in script:
                wait_turn(i)
                if tok == "N":
                    n += 1
                    subj.on_next(10 * i + n)
                elif tok == "E":
                    subj.on_error(RuntimeError(f"e{i}"))
                else:
                    subj.on_completed()

        if kind == "observe_on":
            s1 = Subject()
            s1.pipe(ops.observe_on(loop)).subscribe(new_sink())
            ds.spawn("T1", lambda: emit(s1, 1, scripts[0]))
        elif kind == "observe_on_merge":
            subs = [Subject() for _ in scripts]
            reactivex.merge(*subs).pipe(ops.observe_on(loop)).subscribe(new_sink())
            for i, script in enumerate(scripts, start=1):
                ds.spawn(f"T{i}", lambda i=i, script=script: emit(subs[i - 1], i, script))
        elif kind == "replay":
            rs = ReplaySubject(scheduler=loop)
            rs.subscribe(new_sink())                         # an early subscriber (scheduled observer 0)
            ds.spawn("T1", lambda: emit(rs, 1, scripts[0]))

            def late():
                for tok in scripts[1]:                       # "U": subscribe one more observer
                    wait_turn(2)
                    rs.subscribe(new_sink())
            ds.spawn("T2", late)
        else:
            raise ValueError(kind)
    return build


def so_traces(ds: detsched.DetSched) -> List[List[Dict[str, Any]]]:
    """one trace per scheduled observer: its call/ret events, the deliveries of its sink, and the end marker"""
    rig = ds.rig
    end: List[Dict[str, Any]] = []
    if ds.deadlocked:
        end.append({"e": "deadlock", "th": 0})
    elif ds.step_limit_hit:
        end.append({"e": "steplimit", "th": 0})
    else:
        end.append({"e": "idle", "th": 0})
    for t in ds.threads:
        if t.exc is not None and "downstream callback" not in repr(t.exc) and exc_origin(t.exc) == "library":
            end.insert(0, {"e": "exc", "th": th_index(t.name), "what": repr(t.exc)[:200]})
    out = []
    for k in range(max(rig.n_so, rig.n_sink)):
        tr = [dict(e) for e in ds.trace if e.get("so") == k]
        # witness only (ignored by the trace specification): did ANOTHER observer's callback raise in this execution?
        foreign = any(e.get("e") == "dend" and e.get("raised") and e.get("so") != k for e in ds.trace)
        nea = len(rig.ea_threads.get(k, ()))
        out.append(tr + [dict(e, other_observer_raised=foreign, ensure_active_threads=nea) if e["e"] == "idle" else e for e in end])
    return out


def so_explore(args) -> Dict[str, Any]:
    sc, bound, max_sched, nrandom, seed, lines = args[:6]
    gran = args[6] if len(args) > 6 else "gil"
    traces: Dict[str, List[Any]] = {}
    stats = {"executions": 0, "deadlocks": 0, "steplimit": 0, "unexpected_thread_exc": 0}
    exc_samples: List[str] = []
    build = so_build(sc)
    focus = FOCUS_C32 if lines else ()

    def run_one(choose):
        return _run_execution(build, choose, focus=focus, max_steps=6000, granularity=gran)

    with patched_for(_so_patch_table()):
        ex = CostExplorer(bound=bound, max_schedules=max_sched, random_schedules=nrandom, seed=seed)
        for ds in ex.explore(run_one):
            stats["executions"] += 1
            stats["deadlocks"] += int(ds.deadlocked)
            stats["steplimit"] += int(ds.step_limit_hit)
            for t in ds.threads:
                if t.exc is not None and "downstream callback" not in repr(t.exc):
                    stats["unexpected_thread_exc"] += 1
                    stats["harness_exc"] = stats.get("harness_exc", 0) + int(exc_origin(t.exc) == "harness")
                    if len(exc_samples) < 3:
                        exc_samples.append(f"{t.name}: {t.exc!r} ({exc_origin(t.exc)})"[:300])
            for so_id, tr in enumerate(so_traces(ds)):
                key = json.dumps(tr, sort_keys=True)
                if key not in traces:
                    traces[key] = [tr, 0, [d[1] for d in ds.decisions], lines, so_id]
                traces[key][1] += 1
    return {"scenario": sc, "traces": list(traces.values()), "stats": stats, "truncated": ex.truncated,
            "complete_bound": ex.complete_bound, "exc_samples": exc_samples, "granularity": gran}


SO_TRACE_CONSTS = dict(Producers={0, 1, 2, 3}, LoopThreads=set(range(11, 400)), MaxCalls=0)   # W<n> -> 10 + n: one thread per run() on NewThread/Timeout schedulers
SO_TRACE_INVS = ["TypeOK", "OneTerminal", "NothingAfterFault"]


def _c(th, k, v):
    return [{"e": "call", "th": th, "k": k, "v": v}, {"e": "ret", "th": th}]


def _d(th, k, v, raised=False):
    return [{"e": "dstart", "th": th, "k": k, "v": v}, {"e": "dend", "th": th, "raised": raised}]


_IDLE = [{"e": "idle", "th": 0}]
SO_SELFTEST = [
    ("delivered_twice", False, _c(1, "N", 1) + _d(11, "N", 1) + _d(11, "N", 1) + _IDLE),
    ("out_of_order", False, _c(1, "N", 1) + _c(1, "N", 2) + _d(11, "N", 2) + _d(11, "N", 1) + _IDLE),
    ("undelivered_while_idle", False, _c(1, "N", 1) + _c(1, "C", 0) + _d(11, "N", 1) + _IDLE),
    ("wrong_thread", False, _c(1, "N", 1) + _d(1, "N", 1) + _IDLE),
    ("after_fault", False, _c(1, "N", 1) + _c(1, "N", 2) + _d(11, "N", 1, True) + _d(11, "N", 2) + _IDLE),
    ("overlapping_deliveries", False, _c(1, "N", 1) + _c(1, "N", 2) + [_d(11, "N", 1)[0], _d(12, "N", 2)[0], _d(12, "N", 2)[1], _d(11, "N", 1)[1]] + _IDLE),
    ("never_received", False, _c(1, "N", 1) + _d(11, "N", 7) + _IDLE),
    ("after_terminal_delivered", False, _c(1, "C", 0) + _c(1, "N", 2) + _d(11, "C", 0) + _d(11, "N", 2) + _IDLE),
    ("deadlock_event", False, _c(1, "N", 1) + [{"e": "deadlock", "th": 0}]),
    ("fault_leaves_rest", True, _c(1, "N", 1) + _c(1, "N", 2) + _d(11, "N", 1, True) + _IDLE),
    ("delivery_inside_call", True, [_c(1, "N", 1)[0]] + _d(11, "N", 1) + [_c(1, "N", 1)[1]] + _c(1, "C", 0) + _d(12, "C", 0) + _IDLE),
    ("call_after_terminal_ignored", True, _c(1, "N", 1) + _c(1, "C", 0) + _c(1, "N", 2) + _d(11, "N", 1) + _d(11, "C", 0) + _IDLE),
]


def so_witness(tr: List[Dict[str, Any]], upto: int) -> Dict[str, Any]:
    if upto >= len(tr):
        return {"failure": "unfinished"}
    ev = tr[upto]
    recv = [(e["k"], e["v"]) for e in tr[:upto] if e["e"] == "call"]
    deliv = [(e["k"], e["v"]) for e in tr[:upto] if e["e"] == "dstart"]
    open_del = sum(1 for e in tr[:upto] if e["e"] == "dstart") - sum(1 for e in tr[:upto] if e["e"] == "dend")
    faulted = any(e["e"] == "dend" and e["raised"] for e in tr[:upto])
    if ev["e"] == "idle":
        f = "undelivered_while_idle"
    elif ev["e"] == "dstart":
        if open_del:
            f = "overlapping_deliveries"
        elif faulted:
            f = "delivery_after_fault"
        elif ev["th"] not in SO_TRACE_CONSTS["LoopThreads"]:
            f = "delivery_on_wrong_thread"
        elif (ev["k"], ev["v"]) in deliv:
            f = "delivered_twice"
        else:
            f = "out_of_order_or_not_received"
    elif ev["e"] == "call":
        f = "concurrent_calls_on_the_scheduled_observer"
    else:
        f = ev["e"]
    return {"failure": f, "event": ev, "calls_so_far": recv, "deliveries_so_far": deliv}


def so_scenarios(tier: str, seed: int) -> List[Dict[str, Any]]:
    quick = tier == "quick"
    out: List[Dict[str, Any]] = []

    def add(kind, scripts, sched, raise_at, limit, budget=0):
        orders = arrival_orders(list(scripts), limit, seed) if len(scripts) > 1 else [None]
        for order in orders:
            out.append({"kind": kind, "scripts": [list(x) for x in scripts], "sched": sched, "raise_at": raise_at, "order": order,
                        "budget": budget})
    if quick:
        add("observe_on", ("NNC",), "eventloop", 0, 1, 900)
        add("observe_on", ("NNNE",), "eventloop", 0, 1, 500)
        add("observe_on", ("NNC",), "eventloop", 2, 1, 400)
        add("observe_on", ("NCN",), "eventloop_exit", 0, 1, 200)
        add("observe_on", ("NNC",), "newthread", 0, 1, 250)
        add("observe_on", ("NNC",), "timeout", 1, 1, 200)
        add("observe_on_merge", ("NC", "NE"), "eventloop", 0, 2, 250)
        add("replay", ("NNC", "U"), "eventloop", 0, 3, 250)
        add("replay", ("NNE", "U"), "newthread", 2, 2, 200)
        # two callers of ensure_active (the emitter and the subscriber's tail call) on per-thread trampolines: two drain chains
        # would really run at once.  All arrival positions of the subscribe, bound 2 to completion
        add("replay", ("NNC", "U"), "current", 0, 4, 1200)
        add("replay", ("NNNE", "U"), "current", 0, 2, 600)
        add("replay", ("NNC", "U"), "eventloop", 2, 1, 120)       # the other subscriber's callback raises on the shared loop
    else:
        for pr in (("NNC", "U"), ("NNE", "U"), ("NNNC", "UU"), ("NN", "U")):
            add("replay", pr, "current", 0, 10)
        for sched in ("eventloop", "eventloop_exit", "newthread", "timeout"):
            for scr in ("C", "NC", "NNC", "NNNC", "NNNNC", "NNE", "NCN", "NEC", "NNN"):
                for ra in (0, 1, 2, 3):
                    if ra <= len(scr):
                        add("observe_on", (scr,), sched, ra, 1)
            for pr in (("NC", "NE"), ("NNC", "NC"), ("NE", "NNC")):
                add("observe_on_merge", pr, sched, 0, 10)
                add("observe_on_merge", pr, sched, 2, 4)
            for pr in (("NNC", "U"), ("NNE", "U"), ("NNNC", "UU"), ("NN", "U")):
                add("replay", pr, sched, 0, 10)
                add("replay", pr, sched, 2, 4)
    return out


def so_design(ck, tier: str) -> None:
    quick = tier == "quick"
    from concurrent.futures import ThreadPoolExecutor

    def abstract():
        # the abstract object: every interleaving of producers and loop threads
        cfg = tlc.cfg_text(dict(Producers={1, 2}, LoopThreads={11, 12}, MaxCalls=3 if quick else 5), spec="Spec",
                           invariants=["TypeOK", "Prefix", "OneTerminal", "NothingAfterFault"], properties=["FaultSticky", "Monotone"])
        res = tlc.run("ScheduledObserver", cfg, workers=1 if quick else 2, timeout=1800, coverage=True, allow_violation=False)
        need = ("GenCall", "Lin", "Ret", "GenStart", "DeliverEnd", "GenIdle")
        never = [a for a in need if res.coverage.get(a, 0) == 0]
        if never:
            raise tlc.TLCFailure(f"vacuous ScheduledObserver design run: {never}")
        return [(res, "design: abstract scheduled observer, all interleavings of producers and scheduler threads")]

    def impl(drains, dies, mx, subs=frozenset(), replay=0):
        # the handshake as implemented (PlusCal); subs = {200}: a second ensure_active caller (ReplaySubject's subscribing thread)
        cfg = tlc.cfg_text(dict(MaxNotes=mx, Drains=drains, LoopDies=dies, Bug="none", Subs=set(subs), Replay=replay), spec="Spec",
                           invariants=["Serial", "OrderOK", "NothingLeftBehind", "OneRunner", "LockOK"], properties=["EventuallyDelivered"])
        res = tlc.run("ScheduledObserverImpl", cfg, workers=1 if quick else 2, timeout=3000, coverage=True, allow_violation=False)
        labels = ("p0", "pa", "pt", "pl", "pe", "ps", "pi", "d0", "dl", "dc", "dw", "de", "df", "dg", "dr") + (("st", "sl", "se", "ss") if subs else ())
        never = [a for a in labels if res.coverage.get(a, 0) == 0]
        if never:
            raise tlc.TLCFailure(f"vacuous ScheduledObserverImpl run: labels never taken {never}")
        return [(res, f"design: queue/is_acquired/has_faulted handshake as implemented (PlusCal), {len(drains)} scheduler thread(s), "
                      f"{'producer + subscriber tail call (replay ' + str(replay) + ')' if subs else 'one ensure_active caller'}, <= {mx} notifications, safety + liveness")]

    def control():
        # negative control: the model without the is_acquired reset must break NothingLeftBehind
        cfg = tlc.cfg_text(dict(MaxNotes=3, Drains={1}, LoopDies=True, Bug="keep_acquired", Subs=set(), Replay=0), spec="Spec",
                           invariants=["NothingLeftBehind"])
        res = tlc.run("ScheduledObserverImpl", cfg, workers=1, timeout=900)
        ck.note("negative_control_keep_acquired_refuted", res.violated == "NothingLeftBehind")
        if res.violated != "NothingLeftBehind":
            raise tlc.TLCFailure("negative control of ScheduledObserverImpl was not refuted")
        # the unlocked test of is_acquired: harmless with one caller, two runners with two callers
        cfg = tlc.cfg_text(dict(MaxNotes=2, Drains={1, 2}, LoopDies=False, Bug="unlocked_test", Subs={200}, Replay=1), spec="Spec",
                           invariants=["OneRunner", "Serial"])
        res = tlc.run("ScheduledObserverImpl", cfg, workers=1, timeout=900)
        ck.note("negative_control_unlocked_test_two_callers_refuted", res.violated in ("OneRunner", "Serial"))
        if res.violated not in ("OneRunner", "Serial"):
            raise tlc.TLCFailure("negative control 'unlocked_test' of ScheduledObserverImpl was not refuted")
        return []
    tasks = [abstract, lambda: impl({1}, True, 3 if quick else 4), lambda: impl({1, 2}, False, 2 if quick else 3, {200}, 1 if quick else 2)]
    if not quick:
        tasks += [lambda: impl({1, 2}, False, 4), control]
    with ThreadPoolExecutor(len(tasks)) as ex:
        for fut in [ex.submit(t) for t in tasks]:
            for res, label in fut.result():
                ck.add_tlc(res, label)


def so_run(pid: str, tier: str, rule: str, assumptions: List[str]) -> int:
    import time as _time
    ck = core.Check(pid, tier)
    ck.rule = rule
    quick = tier == "quick"
    bound = 2 if quick else 3
    scs = so_scenarios(tier, ck.seed)
    jobs = []
    for sc in scs:
        if quick:
            jobs.append((sc, bound, sc["budget"], 10, ck.seed, True))
        else:
            jobs.append((sc, bound, 1500, 100, ck.seed, True))
            jobs.append((sc, bound, 300, 30, ck.seed + 1, False))
    # language-level pass: a thread switch is allowed between ANY two traced lines (more than the pinned GIL interpreter can do,
    # which only switches at calls / function entry / backward jumps).  Rejections found only here are reported as
    # `language_level_only` in the evidence (DESIGN 2.4) and never as violations.
    for sc in [x for x in scs if x["kind"] == "observe_on" and x["sched"] == "eventloop" and x["raise_at"] == 0][: 2 if quick else 6]:
        jobs.append((sc, 2, 700 if quick else 3000, 0, ck.seed, True, "line"))
    t0 = _time.time()
    pool, pending = _pool_map(so_explore, jobs, procs=6 if quick else 8, timeout=0)
    design: Dict[str, Any] = {}

    def do_design():
        try:
            so_design(ck, tier)
        except BaseException as e:  # noqa: BLE001
            design["err"] = e
    dthread = _real_threading.Thread(target=do_design)
    dthread.start()
    try:
        results = pending.get(timeout=900 if quick else 10800)
    finally:
        pool.terminate()
        pool.join()
    t1 = _time.time()
    total = 0
    batch: List[Any] = []
    complete: Dict[str, int] = {}
    exc_samples: List[str] = []
    for r in results:
        total += r["stats"]["executions"]
        for k in ("deadlocks", "steplimit", "unexpected_thread_exc"):
            ck.count("conc_" + k, r["stats"][k])
        if r["stats"].get("harness_exc"):
            raise RuntimeError(f"exception raised by the harness inside a logical thread (scenario {r['scenario']}): {r['exc_samples']}")
        complete[str(r["complete_bound"])] = complete.get(str(r["complete_bound"]), 0) + 1
        exc_samples += r["exc_samples"]
        for (tr, n, dec, lines, so_id) in r["traces"]:
            batch.append((tr, r["scenario"], n, dec, lines, so_id, r.get("granularity", "gil")))
    if ck.extra.get("conc_steplimit"):
        raise RuntimeError("step limit hit in a C32 execution (machinery)")
    if not quick:
        carrier_equivalence(ck, so_explore, jobs)
    rejected, ress = tracecheck.validate("ScheduledObserverTrace", SO_TRACE_CONSTS, [b[0] for b in batch] + [t for (_, _, t) in SO_SELFTEST],
                                         invariants=SO_TRACE_INVS, timeout=1800, chunk=100000)
    rejected = check_selftest("ScheduledObserverTrace", SO_SELFTEST, len(batch), rejected)
    ck.note("trace_spec_selftest", f"{len(SO_SELFTEST)} hand-made traces judged as expected ({sum(1 for x in SO_SELFTEST if not x[1])} rejected)")
    for r in ress:
        ck.add_tlc(r, f"trace validation ({len(batch)} distinct per-observer traces + {len(SO_SELFTEST)} self-test traces)")
    gil_rejected = {json.dumps(batch[i][0], sort_keys=True) for (i, _) in rejected if batch[i][6] == "gil"}
    lang_only: Dict[str, int] = {}
    for (idx, upto) in rejected:
        tr, sc, n, dec, lines, so_id, gran = batch[idx]
        w = so_witness(tr, upto)
        if gran != "gil":
            if json.dumps(tr, sort_keys=True) not in gil_rejected:
                k = f"{sc['kind']} {sc['sched']} {''.join(sc['scripts'][0])}: {w['failure']}"
                lang_only[k] = lang_only.get(k, 0) + 1
                if lang_only[k] == 1:
                    ck.sample({"language_level_only": k, "trace": tr, "decisions": dec})
            continue
        # witness for the known finding: the observer itself did not fault, but another observer's callback raised on the
        # SAME single-threaded event loop, whose thread the exception killed
        own_fault = any(e["e"] == "dend" and e["raised"] for e in tr)
        starved = (w["failure"] == "undelivered_while_idle" and not own_fault and bool(tr[upto].get("other_observer_raised"))
                   and sc["sched"] in ("eventloop", "eventloop_exit"))
        ck.fail({"engine": "scheduled_observer", "kind": sc["kind"], "sched": sc["sched"], "failure": w["failure"], "raise_at": sc["raise_at"],
                 "starved_by_foreign_fault_on_shared_event_loop": starved,
                 # witness: how many different threads called on_* (and hence ensure_active) on this scheduled observer
                 "calling_threads": len({e["th"] for e in tr if e["e"] == "call"}),
                 "ensure_active_threads": tr[upto].get("ensure_active_threads", 0) if upto < len(tr) else 0,
                 "scheduled_observer": so_id, "witness": w, "scenario": sc, "rejected_at": upto, "trace": tr, "schedules_with_this_trace": n,
                 "decisions": dec, "line_switch_points": lines})
    ck.note("language_level_only", lang_only)
    for k, n in lang_only.items():
        print(f"LANGUAGE-LEVEL-ONLY: property={pid} {k} in {n} distinct trace(s) - needs a thread switch between two call-free lines, "
              f"which the pinned GIL interpreter cannot make; not a violation", flush=True)
    summ: Dict[str, int] = {}
    for v in ck.violations:
        k = f"{v['kind']} {v['sched']} {v['failure']} raise_at={v['raise_at']} observer={v['scheduled_observer']}"
        summ[k] = summ.get(k, 0) + 1
    ck.note("unexplained_violation_summary", summ)
    for want in ("observe_on", "replay"):
        for b in batch:
            if b[6] == "gil" and b[1]["kind"] == want and len(b[0]) >= 8:
                ck.sample({"scenario": b[1], "scheduled_observer": b[5], "trace": b[0]})
                break
    ck.impl += total
    ck.note("conc_executions", total)
    ck.note("preemption_bound", bound)
    ck.note("scenarios", len(scs))
    ck.note("scenarios_by_largest_preemption_count_explored_completely", complete)
    ck.note("distinct_traces", len(batch))
    ck.note("unexpected_thread_exception_samples", exc_samples[:5])
    ck.nontrivial = sum(1 for b in batch if any(e["e"] == "dstart" for e in b[0]))
    dthread.join()
    if "err" in design:
        raise design["err"]
    ck.note("phase_seconds", {"explore": round(t1 - t0, 1), "validate_judge_design": round(_time.time() - t1, 1)})
    ck.exhaustive = False
    ck.assumptions = assumptions
    return ck.finish()


def so_replay(rec: Dict[str, Any]) -> int:
    sc = rec["scenario"]
    print("scenario:", json.dumps(sc))
    focus = FOCUS_C32 if rec.get("line_switch_points", True) else ()
    with patched_for(_so_patch_table()):
        ds = _run_execution(so_build(sc), replay_choose(rec["decisions"]), focus=focus, max_steps=6000)
    trs = so_traces(ds)
    tr = trs[rec.get("scheduled_observer", 0)]
    same = json.dumps(tr, sort_keys=True) == json.dumps(rec["trace"], sort_keys=True)
    print("re-executed the recorded schedule on the real code:", "same trace" if same else "DIFFERENT trace")
    for e in tr:
        print("  ", json.dumps(e))
    rejected, _ = tracecheck.validate("ScheduledObserverTrace", SO_TRACE_CONSTS, [tr], invariants=SO_TRACE_INVS)
    if rejected:
        print("ScheduledObserverTrace verdict: rejected at event", rejected[0][1], json.dumps(so_witness(tr, rejected[0][1]), default=str))
    else:
        print("ScheduledObserverTrace verdict: accepted")
    return 1 if rejected else 0
