"""C37 - source factories emit their specified sequences (OpsSources.tla, Binding A)."""
from harness import core
from props import seq_common as sc


def consts(tier):
    if tier == "quick":
        # ONE TLC invocation: with lazy tables the raising-callback entries are just more choices of the same run
        return [("quick", dict(Facs=set(sc.ALL_FACS), RMax=3, SMax=3, NStates=3, Delays={0, 1, 2}, MaxOut=4, Horizon=5,
                               Faults=True, NVals=2, SeqLen=3, DMax=3, PMax=2, NMax=3, Lazy=True), {})]
    base = dict(Facs=set(sc.ALL_FACS), RMax=6, SMax=4, NStates=3, Delays={0, 1, 2}, MaxOut=5, Horizon=7, Faults=False,
                NVals=3, SeqLen=4, DMax=4, PMax=3, NMax=5, Lazy=True)
    return [
        ("plain", dict(base, Facs=set(sc.ALL_FACS) - {"generate", "generate_rel"}), {}),
        ("generate-5", dict(base, Facs={"generate"}, NStates=5), {}),
        ("generate-rel-4", dict(base, Facs={"generate_rel"}, NStates=4), {}),
        ("faults", dict(base, Facs={"from_iterable", "generate", "generate_rel"}, NStates=4, Delays={0, 1}, Faults=True), {}),
    ]


def simulate_consts(seed):
    """generators over 6 states with delays 0..3, sampled: with lazy tables Init is tiny and every simulated
    behaviour is one complete (deterministic) scenario"""
    c = dict(Facs={"generate", "generate_rel"}, RMax=1, SMax=1, NStates=6, Delays={0, 1, 2, 3}, MaxOut=7, Horizon=12,
             Faults=True, NVals=2, SeqLen=1, DMax=1, PMax=1, NMax=1, Lazy=True)
    return [("simulate-generators", c, dict(simulate="num=4000", depth=60, seed=seed))]


def run(tier):
    ck = core.Check("C37", tier)
    runs = consts(tier)
    groups = sc.src_export(ck, runs, timeout=600 if tier == "quick" else 3000)
    if tier != "quick":
        groups.update(sc.src_export(ck, simulate_consts(ck.seed or 1), timeout=1500))
    main, side = [], []
    for label, gs in groups.items():
        for g in gs:
            if label == "faults" and not sc.src_has_fault(g[0]):
                continue      # (thorough) duplicates of scenarios of the fault-free runs
            (side if sc.src_has_fault(g[0]) else main).append(g)
    ck.exhaustive = True
    ck.rule = ("every range(a), range(a, b), range(a, b, s) with bounds in -RMax..RMax and steps +-1..SMax; every iterable over "
               "NVals tokens up to SeqLen; return_value / empty / never / throw; every generate / generate_with_relative_time "
               "loop over NStates states (condition = subset, iterate = function table, delay table into Delays with zero "
               "included; table entries the loop never reads fixed to one representative), unbounded loops cut by take; "
               "timer(d), timer(d, p), interval(p) up to the horizon; repeat_value(v, n) for n = 0..NMax and unbounded; "
               "enumerated by TLC on OpsSources.tla and replayed in every call form on TestScheduler (timed factories also on "
               "HistoricalScheduler with timedelta arguments); non-trivial = the expected output has at least two notifications")
    # one worker pool for both parts (forking a pool is the expensive step on a loaded box)
    rich = tier != "quick"
    n_all, all_fails = sc.src_replay([(g[0], g[1], rich) for g in main] + [(g[0], g[1], False) for g in side], procs=8)
    side_keys = {sc.json.dumps(g[0], sort_keys=True) for g in side}
    fails = [f for f in all_fails if sc.json.dumps(f["scn"], sort_keys=True) not in side_keys]
    side_fails = [f for f in all_fails if sc.json.dumps(f["scn"], sort_keys=True) in side_keys]
    n_side = sum(len(sc.src_variants(g[0], False)) for g in side)
    ck.impl += n_all - n_side
    for f in fails:
        ck.fail(f)
    by = {}
    for f in side_fails:
        key = f"{f['fac']}:{f['reason_kind']}:{f['escaped_type']}" + (" (the zero-delay defect of C37, not a C09 failure)" if f["zero_delay_prefix"] else "")
        by[key] = by.get(key, 0) + 1
    ck.note("c09_dimension", {"scenarios_with_raising_callback": len(side), "runs": n_side, "failures": by,
                              "note": "a raising condition / iterate / time mapper / iterable must surface as on_error; failures "
                                      "here belong to property C09 and do not affect this check's verdict"})
    for key, n in sorted(by.items()):
        print(f"NOTE: C09-dimension (not a C37 verdict): {key} x{n}", flush=True)
    ck.nontrivial = sum(1 for g in main if len(g[1][0]["out"]) >= 2)
    ck.note("scenarios", len(main))
    by_fac = {}
    for scn, _ in main:
        by_fac[scn["fac"]] = by_fac.get(scn["fac"], 0) + 1
    ck.note("scenarios_by_factory", by_fac)
    ck.note("asserted_projection", ["notifications: kind, value (exact int for range / timer / interval, identity or "
                                    "(type, value) for tokens incl. falsy ones), error identity",
                                    "instant of every notification relative to the subscription: 0 for the untimed factories, "
                                    "d + i * p for timers, the running sum of the computed delays for generate_with_relative_time",
                                    "never: nothing up to the horizon; periodic timers: exactly the ticks up to the horizon"])
    for g in main[:: max(1, len(main) // 5)][:5]:
        ck.sample({"scn": g[0], "allowed": g[1]})
    ck.assumptions = ["virtual-time schedulers run actions in due order, FIFO at equal instants (C28)",
                      "one tick = 10 time units (seconds on HistoricalScheduler); the subscriber subscribes at 200 and disposes half "
                      "a tick after the horizon", "fewer than 100 actions fall on one instant (the schedulers' spin guard moves the "
                      "clock after 100)"]
    return ck.finish()


replay = sc.src_generic_replay


META = {
    'technique': 'TLC-enumerated factory parameters executed in OpsSources.tla (scheduler-recursive producer checked against closed-form / unrolled-loop references) and replayed on the real factories on TestScheduler and HistoricalScheduler',
    'level': 'OpsSources.tla states each factory twice - as the rescheduling producer and as a reference (Python range as a length formula and as a membership set, generate as the unrolled while-loop, generate_with_relative_time as "each state after the delay computed for it, zero included", timers as d + i*p, never as no action) - TLC checks agreement plus grammar / untimed-at-subscription / never-silent invariants and exports every scenario with its timed output; each is run on the real factory in every call form (positional / keyword, list / tuple / generator / of / from_, relative / absolute / timedelta times, scheduler given to the factory or to subscribe) on TestScheduler, HistoricalScheduler and VirtualTimeScheduler and must match on values, instants and terminal; each is also run with a second subscriber on the same observable object (overlapping by 1 and 2 ticks, and after a mid-stream dispose of the first), every subscriber judged against the expectation shifted to its own subscription instant. Exhaustive for the stated bounds.',
    'note': 'TLC 1.8; codec of props/seq_common.py (state / value tokens incl. falsy profile, ticks to float or datetime clocks); virtual-time schedulers (C28)',
    'ref': 'DESIGN.md 6 C37, App. C',
}
