"""C05 - element-wise operators match their list semantics (Ops1.tla, Binding A)."""
from harness import core
from props import ops1_common as oc


def variants(scn):
    s = len(str(scn)) % 2
    return [dict(hot=h, tmap=t, profile="plain", salt=(s + i) % 2, form="pipe")
            for i, (h, t) in enumerate([(True, "spread"), (False, "spread"), (True, "bunched"), (False, "same")])] + [
        dict(hot=bool(s), tmap="spread", profile="falsy", salt=len(str(scn)) % 8, form="pipe")]   # "arbitrary values": one falsy decoding too (all rotations: C08)


def run(tier):
    ck = core.Check("C05", tier)
    k, n = (2, 3) if tier == "quick" else (3, 4)
    consts = dict(NVals=k, MaxLen=n, Terms={"C", "E", "U"}, Disposes=False, Faults=False, IdentSrc=False)
    groups = oc.export_groups(ck, oc.ELEMENTWISE, consts, "export")
    ck.exhaustive = True
    ck.rule = (f"every timeline over {k} value tokens of length 0..{n} ending in completion, error or nothing x every parameter "
               "(counts 0..len+1, every predicate/mapper table, key tables x comparer codes) of 29 element-wise operators, "
               "enumerated by TLC on Ops1.tla; each replayed hot and cold under 3 index->time maps; non-trivial = output "
               "values differ from the input values")
    oc.replay_groups(ck, groups, variants, k)
    # comparers that are not equivalence relations need three values: |a - b| <= 1 on {0, 1, 2}
    near = oc.export_groups(ck, [["distinct_near", "distinct_until_changed_near"]],
                            dict(consts, NVals=3, MaxLen=4 if tier == "quick" else 5, Terms={"C"}), "export(non-transitive comparer)")
    oc.replay_groups(ck, near, variants, 3)
    groups = groups + near
    ck.nontrivial = sum(1 for g in groups if oc.nontrivial(*g))
    ck.note("scenarios", len(groups))
    ck.note("operators", sorted({g[0]["op"] for g in groups}))
    for g in groups[:: max(1, len(groups) // 5)][:5]:
        ck.sample({"scn": g[0], "allowed": g[1]})
    ck.assumptions = ["TestScheduler/VirtualTimeScheduler run actions in due order (checked separately: C28)",
                      "user functions are total tables over the value tokens; comparers are drawn from 4 codes"]
    return ck.finish()


replay = oc.generic_replay


META = {
    'technique': 'TLC-enumerated timelines x parameters of Ops1.tla transducers (reference-checked in the model) replayed on the real operators on TestScheduler',
    'level': 'Ops1.tla states each element-wise operator twice (streaming transducer and list reference; TLC checks they agree on every enumerated timeline, plus grammar/release/causality invariants) and exports every scenario with its expected timed output and source-unsubscription instant; each is run on the real operator with hot and cold sources under three index-to-time maps and must match on values, instants, terminal kind and unsubscription instant. Exhaustive for the stated bounds.',
    'note': 'TLC 1.8; value/function codec of props/ops1_common.py; TestScheduler (verified by C28)',
    'ref': 'DESIGN.md 6 C05, App. C',
}
