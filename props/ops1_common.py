"""Binding A for Ops1.tla: build an exported scenario on the real library (TestScheduler,
hot or cold source, real operator, recording observer), run it, and compare the observation
with the allowed set on the asserted projection (values, instants, terminal, source
unsubscription instant)."""
from __future__ import annotations

import sys
from typing import Any, Dict, List, Optional, Tuple


class FnErr(Exception):
    """raised by a scenario's user function"""


class SrcErr(Exception):
    """the source's on_error value"""


NEVER_T = sys.maxsize

# ---- value profiles -------------------------------------------------------------------------
FALSY_ANY = [None, 0, "", (), [], {}, 0.0, False]
FALSY_NEQ = [None, 0, "", (), [], {}]          # pairwise non-equal (for comparing operators)
FALSY_HASH = [None, 0, "", ()]                 # and hashable

NUMERIC_OPS = {"sum", "sum_key", "average", "average_key", "min", "max", "min_cmp", "max_cmp", "min_by", "max_by",
               "reduce", "reduce_seed", "scan", "scan_seed"}
FRAC_OPS = {"min", "max", "min_cmp", "max_cmp", "min_by", "max_by"}
COMPARE_OPS = {"distinct_near", "distinct_until_changed_near", "distinct", "distinct_until_changed", "contains", "contains_cmp", "sequence_equal_iter"}
HASH_OPS = {"to_set", "to_dict"}
NOTIME_OPS = {"slice", "getitem_int"}   # instants are not part of the slicing statement


def make_vals(op: str, profile: str, k: int, salt: int) -> Optional[List[Any]]:
    """token -> Python value. None when the profile does not apply to this operator."""
    if op == "starmap":
        base = make_vals("map", profile, k, salt)
        return [(b, ("second", t)) for t, b in enumerate(base)]
    if op == "pluck":
        base = make_vals("map", profile, k, salt)
        return [{"key": b, "other": t} for t, b in enumerate(base)]
    if op == "dematerialize":
        return None  # built in build() from par.nt
    if profile == "frac":
        # real-valued elements / keys that differ by less than 1 (order-only aggregates); None: profile does not apply
        return [0.25 * t for t in range(k)] if op in FRAC_OPS else None
    if profile == "plain":
        if op in NUMERIC_OPS:
            return list(range(k))
        return [f"v{t}" for t in range(k)] if salt % 2 else list(range(10, 10 + k))
    # falsy
    if op in NUMERIC_OPS:
        return list(range(k))  # token 0 is the falsy number
    pool = FALSY_HASH if op in HASH_OPS else (FALSY_NEQ if op in COMPARE_OPS else FALSY_ANY)
    if op in COMPARE_OPS or op in HASH_OPS:
        return [pool[(salt + t) % len(pool)] for t in range(k)]
    # non-comparing operators: any falsy values, but keep them distinguishable by (type, value)
    return [pool[(salt + t) % len(pool)] for t in range(k)]


def strict_eq(a: Any, b: Any) -> bool:
    if type(a) is not type(b):
        return False
    if isinstance(a, (list, tuple)):
        return len(a) == len(b) and all(strict_eq(x, y) for x, y in zip(a, b))
    if isinstance(a, dict):
        return len(a) == len(b) and all(k in b and strict_eq(v, b[k]) for k, v in a.items())
    return a == b


class Codec:
    def __init__(self, op: str, par: Dict[str, Any], profile: str, k: int, salt: int):
        self.op, self.par, self.k = op, par, k
        self.vals = make_vals(op, profile, k, salt)
        self.src_err = SrcErr("src")
        self.notif_err = FnErr("in notification")
        if op == "dematerialize":
            from reactivex.notification import OnCompleted, OnError, OnNext
            inner = make_vals("map", profile, k, salt)
            self.inner = inner
            self.vals = []
            for t in range(k):
                kind = par["nt"][str(t)]
                self.vals.append(OnNext(inner[t]) if kind == "N" else OnCompleted() if kind == "C" else OnError(self.notif_err))
        if op in ("starmap", "pluck"):
            self.inner = make_vals("map", profile, k, salt)

    def tok(self, x: Any) -> Optional[int]:
        for t, v in enumerate(self.vals):
            if v is x:
                return t
        for t, v in enumerate(self.vals):
            if strict_eq(v, x):
                return t
        return None

    def inner_tok(self, x: Any) -> Optional[int]:
        vals = getattr(self, "inner", self.vals)
        for t, v in enumerate(vals):
            if v is x:
                return t
        for t, v in enumerate(vals):
            if strict_eq(v, x):
                return t
        return None

    def out_val(self, x: Any) -> Any:
        """value as the operator should emit it for an expected token"""
        vals = getattr(self, "inner", self.vals)
        return vals[x]


def table_fn(tab: Dict[str, int], cod: Codec, raise_tok: int, out, calls: List[int]):
    def f(x):
        calls[0] += 1
        t = cod.tok(x)
        r = tab[str(t)]
        if r == raise_tok:
            raise FnErr("fn")
        return out(r)
    return f


def cmp_fn(code: int):
    def c(a, b):
        if code == 0:
            return a == b
        if code == 1:
            return a % 2 == b % 2
        if code == 2:
            return False
        if code == 3:
            return True
        if code == 5:
            return abs(a - b) <= 1
        raise FnErr("cmp")
    return c


def acc_fn(code: int, k: int):
    def a(x, y):
        if code == 0:
            return (x + y) % k
        if code == 1:
            return y
        if code == 2:
            return x
        if code == 3:
            return x if x >= y else y
        if y == k - 1:
            raise FnErr("acc")
        return (x + y) % k
    return a


def build(op: str, par: Dict[str, Any], cod: Codec) -> Tuple[str, tuple, dict]:
    """(operator name in reactivex.operators / Observable method, args, kwargs)"""
    k = cod.k
    calls = [0]
    vals = cod.vals
    V = lambda t: vals[t]
    if op in ("map", "map_indexed", "starmap"):
        tab = par["f"]
        if op == "map":
            return "map", (table_fn(tab, cod, k, V, calls),), {}
        if op == "starmap":
            def sm(a, b):
                t = cod.inner_tok(a)
                r = tab[str(t)]
                if r == k:
                    raise FnErr("fn")
                return cod.inner[r]
            return "starmap", (sm,), {}

        def mi(x, i):
            r = tab[str(cod.tok(x))]
            if r == k:
                raise FnErr("fn")
            return vals[(r + i) % k]
        return "map_indexed", (mi,), {}
    if op in ("filter", "skip_while", "all"):
        return op, (table_fn(par["p"], cod, 2, bool, calls),), {}
    if op == "take_while":
        return op, (table_fn(par["p"], cod, 2, bool, calls), par["incl"]), {}
    if op in ("filter_indexed", "take_while_indexed", "skip_while_indexed"):
        tab = par["p"]

        def pi(x, i):
            r = tab[str(cod.tok(x))]
            if r == 2:
                raise FnErr("fn")
            return (r + i) % 2 == 1
        return op, (pi,), {}
    if op in ("find", "find_index"):
        tab = par["p"]

        def pf(x, i, s):
            r = tab[str(cod.tok(x))]
            if r == 2:
                raise FnErr("fn")
            return r == 1
        return op, (pf,), {}
    if op in ("take", "skip", "take_last", "skip_last", "take_last_buffer", "element_at"):
        return op, (par["n"],), {}
    if op == "element_at_or_default":
        return op, (par["n"], V(par["d"])), {}
    if op in ("distinct_near", "distinct_until_changed_near"):
        c = cmp_fn(par["cmp"])      # no key mapper: the comparer sees the elements themselves (decoded back to tokens)
        return op[:-5], (None, lambda a, b: c(cod.tok(a), cod.tok(b))), {}
    if op in ("distinct", "distinct_until_changed"):
        tab = par["f"]
        if par["cmp"] == 0:
            # plain equality: keys are the decoded values themselves and the library's default comparer is
            # used; an identity table means "no key mapper at all"
            if all(tab[str(t)] == t for t in range(k)):
                return op, (), {}
            return op, (table_fn(tab, cod, k, V, calls),), {}
        # other comparer codes work on tokens (ints) so that every code is meaningful
        key = table_fn(tab, cod, k, lambda r: r, calls)
        return op, (key, cmp_fn(par["cmp"])), {}
    if op == "start_with":
        return op, tuple(V(t) for t in par["a"]), {}
    if op == "default_if_empty":
        return op, (V(par["d"]),), {}
    if op == "contains":
        return op, (V(par["d"]),), {}
    if op == "contains_cmp":
        c = cmp_fn(par["cmp"])
        return "contains", (V(par["d"]), lambda a, b: c(cod.tok(a), cod.tok(b))), {}
    if op in ("reduce", "scan"):
        return op, (acc_fn(par["acc"], k),), {}
    if op in ("reduce_seed", "scan_seed"):
        return op[:-5], (acc_fn(par["acc"], k), V(par["d"])), {}
    if op == "count_p":
        return "count", (table_fn(par["p"], cod, 2, bool, calls),), {}
    if op in ("sum_key", "average_key"):
        return op[:-4], (table_fn(par["f"], cod, k, lambda r: r, calls),), {}
    if op in ("min_by", "max_by"):
        scale = 0.25 if isinstance(vals[-1], float) else 1       # "frac" profile: keys closer together than 1
        return op, (table_fn(par["f"], cod, k, lambda r: r * scale, calls),), {}
    if op in ("min_cmp", "max_cmp"):
        return op[:3], ((lambda a, b: b - a) if par["rev"] else (lambda a, b: a - b),), {}
    if op == "to_dict":
        return op, (table_fn(par["f"], cod, k, lambda r: ("key", r), calls),), {}
    if op in ("first_p", "last_p", "single_p", "some_p"):
        return op[:-2], (table_fn(par["p"], cod, 2, bool, calls),), {}
    if op == "first_or_default":
        return op, (None, V(par["d"])), {}
    if op == "first_or_default_p":
        return "first_or_default", (table_fn(par["p"], cod, 2, bool, calls), V(par["d"])), {}
    if op == "last_or_default":
        return op, (V(par["d"]),), {}
    if op == "last_or_default_p":
        return "last_or_default", (V(par["d"]), table_fn(par["p"], cod, 2, bool, calls)), {}
    if op == "single_or_default":
        return op, (None, V(par["d"])), {}
    if op == "single_or_default_p":
        return "single_or_default", (table_fn(par["p"], cod, 2, bool, calls), V(par["d"])), {}
    if op == "sequence_equal_iter":
        c = cmp_fn(par["cmp"])
        return "sequence_equal", ([V(t) for t in par["other"]], lambda a, b: c(cod.tok(a), cod.tok(b))), {}
    if op == "pluck":
        return "pluck", ("key",), {}
    if op == "slice":
        nn = lambda x: None if x == 99 else x
        return "slice", (nn(par["a"]), nn(par["b"]), par["c"]), {}
    if op == "getitem_int":
        return "getitem_int", (par["n"],), {}
    return op, (), {}


# ---- expected value -> check against observed ------------------------------------------------
def val_matches(op: str, cod: Codec, exp: Any, got: Any) -> bool:
    from reactivex.notification import OnCompleted, OnError, OnNext
    if op in ("count", "count_p", "find_index", "sum", "sum_key"):
        return type(got) in (int, float) and not isinstance(got, bool) and got == exp
    if op in ("all", "some", "some_p", "contains", "contains_cmp", "is_empty", "sequence_equal_iter"):
        return type(got) is bool and got == exp
    if op in ("average", "average_key"):
        return isinstance(got, (int, float)) and abs(got - exp[0] / exp[1]) < 1e-9
    if op == "pairwise":
        return type(got) is tuple and len(got) == 2 and cod.tok(got[0]) == exp[0] and cod.tok(got[1]) == exp[1]
    if op in ("take_last_buffer", "to_list", "min_by", "max_by"):
        return type(got) is list and [cod.tok(x) for x in got] == list(exp)
    if op == "to_set":
        return type(got) is set and len(got) == len(exp) and sorted(cod.tok(x) for x in got) == sorted(exp)
    if op == "to_dict":
        if type(got) is not dict or len(got) != len(exp):
            return False
        return all(("key", int(kk)) in got and cod.tok(got[("key", int(kk))]) == vv for kk, vv in exp)
    if op == "materialize":
        if exp["nk"] == "N":
            return isinstance(got, OnNext) and cod.tok(got.value) == exp["nv"]
        if exp["nk"] == "C":
            return isinstance(got, OnCompleted)
        return isinstance(got, OnError) and got.exception is cod.src_err
    if op == "find":
        if exp == -1:
            return got is None
        return cod.tok(got) == exp and got is cod.vals[exp]
    if op in ("dematerialize", "starmap", "pluck"):
        return cod.inner_tok(got) == exp and strict_eq(got, cod.inner[exp])
    if op in ("distinct", "distinct_until_changed") or True:
        t = cod.tok(got)
        return t == exp and strict_eq(got, cod.vals[exp])


def err_matches(cod: Codec, e: str, got: Any) -> bool:
    from reactivex.internal.exceptions import ArgumentOutOfRangeException, SequenceContainsNoElementsError
    if e == "src":
        return got is cod.src_err
    if e == "fn":
        return isinstance(got, FnErr)
    if e == "notif":
        return got is cod.notif_err
    if e == "empty":
        return isinstance(got, SequenceContainsNoElementsError)
    if e == "range":
        return isinstance(got, ArgumentOutOfRangeException)
    if e in ("more", "any"):
        return isinstance(got, Exception) and not isinstance(got, (FnErr, SrcErr))
    return False


# ---- time maps ----------------------------------------------------------------------------------
def time_map(name: str, n: int) -> List[int]:
    """T[j] for j = 0..n (0 = subscription instant)."""
    if name == "spread":
        return [200 + 10 * j for j in range(n + 1)]
    if name == "bunched":   # adjacent pairs share an instant
        return [200] + [200 + 10 * ((j + 1) // 2) for j in range(1, n + 1)]
    if name == "same":      # everything at one instant after subscription
        return [200] + [210] * n
    raise ValueError(name)


def run_scenario(scn: Dict[str, Any], *, hot: bool, tmap: str, profile: str, k: int, salt: int = 0,
                 form: str = "pipe", op_cache: Optional[dict] = None, nsubs: int = 1) -> Optional[Dict[str, Any]]:
    """Returns the raw observation, or None when the variant does not apply."""
    import reactivex
    from reactivex import operators as ops
    from reactivex.scheduler import VirtualTimeScheduler
    from reactivex.testing import ReactiveTest, TestScheduler
    op, par, src, term, dsp = scn["op"], scn["par"], scn["src"], scn["term"], scn["dsp"]
    cod = Codec(op, par, profile, k, salt)
    if cod.vals is None:
        return None
    n = len(src) + (0 if term == "U" else 1)
    T = time_map(tmap, max(n, 1) + 1)
    never = dsp > len(src) + 1
    if not never:
        if dsp < len(T) - 1 and T[dsp + 1] - T[dsp] < 2:
            return None  # no instant strictly between the two events in this time map
        dtime = T[dsp] + 5 if tmap == "spread" else T[dsp] + 1
    s = TestScheduler()
    msgs = []
    for j, t in enumerate(src, start=1):
        msgs.append(ReactiveTest.on_next(T[j] if hot else T[j] - 200, cod.vals[t]))
    if term == "C":
        msgs.append(ReactiveTest.on_completed(T[n] if hot else T[n] - 200))
    elif term == "E":
        msgs.append(ReactiveTest.on_error(T[n] if hot else T[n] - 200, cod.src_err))
    xs = s.create_hot_observable(msgs) if hot else s.create_cold_observable(msgs)
    name, args, kwargs = build(op, par, cod)
    if name == "getitem_int":
        ys = xs[args[0]]
    elif name == "slice" and form == "getitem":
        ys = xs[args[0]:args[1]:args[2]]
    elif form == "pipe" or form == "getitem":
        ys = xs.pipe(getattr(ops, name)(*args, **kwargs))
    else:
        ys = getattr(xs, name)(*args, **kwargs)
    rec: List[Tuple[float, str, Any]] = []
    holder: Dict[str, Any] = {}

    def subscribe(_s=None, _st=None):
        holder["d"] = ys.subscribe(on_next=lambda v: rec.append((s.clock, "N", v)),
                                   on_error=lambda e: rec.append((s.clock, "E", e)),
                                   on_completed=lambda: rec.append((s.clock, "C", None)), scheduler=s)
    s.schedule_absolute(200, subscribe)
    if not never:
        s.schedule_absolute(dtime, lambda *_: holder["d"].dispose())
    escaped = None
    try:
        VirtualTimeScheduler.start(s)
    except Exception as e:  # an exception that escaped into the scheduler / emitter
        escaped = e
    return {"rec": rec, "subs": [(x.subscribe, x.unsubscribe) for x in xs.subscriptions], "T": T, "cod": cod,
            "escaped": escaped, "dtime": None if never else dtime}


def compare(scn: Dict[str, Any], exp: Dict[str, Any], got: Dict[str, Any]) -> Optional[str]:
    """None if the observation equals this allowed observation on the asserted projection,
    else a short reason."""
    op = scn["op"]
    cod, T, rec = got["cod"], got["T"], got["rec"]
    if got["escaped"] is not None:
        return f"escaped:{type(got['escaped']).__name__}"
    out = exp["out"]
    if len(rec) != len(out):
        return f"count:{len(rec)}!={len(out)}"
    for (t, k, v), e in zip(rec, out):
        if k != e["k"]:
            return f"kind:{k}!={e['k']}"
        if t != T[e["at"]] and op not in NOTIME_OPS:
            return f"time:{t}!={T[e['at']]}"
        if k == "N" and not val_matches(op, cod, e["v"], v):
            return f"value:{v!r}"
        if k == "E" and not err_matches(cod, e["e"], v):
            return f"error:{type(v).__name__}"
    u = exp["unsub"]
    subs = got["subs"]
    if u == -1:
        if subs:
            return "source subscribed although the operator needs nothing from it"
    elif op in NOTIME_OPS and not subs:
        pass  # a slice that is empty whatever the source does need not subscribe (e.g. stop = 0)
    else:
        if len(subs) != 1:
            return f"source subscriptions:{len(subs)}"
        if subs[0][0] != 200:
            return f"subscribed at {subs[0][0]}"
        # the model closes the source at instant u either because the pipeline terminated there (its last output is a
        # terminal stamped u) or because the subscriber disposed right after the events of instant u = dsp
        ended = bool(out) and out[-1]["k"] != "N" and out[-1]["at"] == u
        by_dispose = got["dtime"] is not None and u == scn["dsp"] and not ended
        want = NEVER_T if u >= len(T) or (u > len(scn["src"]) + 1) else (got["dtime"] if by_dispose else T[u])
        if op in NOTIME_OPS:
            if want != NEVER_T and subs[0][1] == NEVER_T:
                return "source subscription still open after termination"
        elif subs[0][1] != want:
            return f"unsubscribed at {subs[0][1]} expected {want}"
    return None


def describe(got: Dict[str, Any]) -> Dict[str, Any]:
    return {"rec": [(t, k, repr(v)) for t, k, v in got["rec"]], "subs": got["subs"],
            "escaped": repr(got["escaped"]) if got["escaped"] is not None else None}


def judge(scn, allowed, *, hot, tmap, profile, k, salt=0, form="pipe"):
    got = run_scenario(scn, hot=hot, tmap=tmap, profile=profile, k=k, salt=salt, form=form)
    if got is None:
        return "n/a"
    reasons = []
    for exp in allowed:
        r = compare(scn, exp, got)
        if r is None:
            return None
        reasons.append(r)
    cod = got["cod"]
    rec = got["rec"]
    exp_vals = [e["v"] for e in allowed[0]["out"] if e["k"] == "N"]
    got_vals = [v for (_, kk, v) in rec if kk == "N"]
    missing_none = False
    if scn["op"] in ("skip_last",) and len(got_vals) < len(exp_vals):
        # witness for the known None-dropping defect: every expected-but-missing element decodes to None
        gv = list(got_vals)
        miss = []
        for t in exp_vals:
            v = cod.vals[t]
            if gv and gv[0] is v:
                gv.pop(0)
            else:
                miss.append(v)
        missing_none = bool(miss) and all(m is None for m in miss) and not gv
    return {"engine": "ops1", "op": scn["op"], "scn": scn, "expected": allowed, "observed": describe(got),
            "reason": reasons[0], "reason_kind": reasons[0].split(":")[0], "hot": hot, "tmap": tmap, "profile": profile,
            "salt": salt, "form": form, "k": k, "missing_all_none": missing_none,
            "has_fault": _has_fault(scn, k)}


def _has_fault(scn, k):
    p = scn["par"]
    for key, lim in (("f", k), ("p", 2)):
        if key in p and isinstance(p[key], dict) and any(v == lim for v in p[key].values()):
            return True
    return p.get("cmp") == 4 or p.get("acc") == 4


# ---- shared driver ---------------------------------------------------------------------------
ELEMENTWISE = [["map", "map_indexed", "starmap", "pluck", "filter", "filter_indexed"],
               ["take", "skip", "take_while", "take_while_indexed", "skip_while", "skip_while_indexed"],
               ["distinct", "distinct_until_changed"],
               ["pairwise", "start_with", "default_if_empty", "ignore_elements", "take_last", "skip_last", "take_last_buffer"],
               ["element_at", "element_at_or_default", "find", "find_index", "materialize", "dematerialize"]]
AGGREGATES = [["reduce", "reduce_seed", "scan", "scan_seed", "count", "count_p", "sum", "sum_key", "average", "average_key"],
              ["min", "max", "min_cmp", "max_cmp", "min_by", "max_by", "to_list", "to_set", "to_dict"],
              ["first", "first_p", "first_or_default", "first_or_default_p", "last", "last_p", "last_or_default",
               "last_or_default_p", "single", "single_p", "single_or_default", "single_or_default_p"],
              ["all", "some", "some_p", "contains", "contains_cmp", "is_empty", "sequence_equal_iter"]]
MODEL_INVS = ["Grammar", "Released", "Silent", "Causal", "RefOK", "SliceOK"]


def export_groups(ck, groups, consts, label, timeout=1500):
    """One TLC run per operator group (model invariants + export), a few in parallel."""
    from concurrent.futures import ThreadPoolExecutor
    from harness import core, tlc

    def one(g):
        c = dict(consts)
        c["Ops"] = set(g)
        return tlc.run("Ops1", tlc.cfg_text(c, invariants=MODEL_INVS + ["Export"]), workers=1, timeout=timeout,
                       xmx="3g", allow_violation=False)
    lines = []
    with ThreadPoolExecutor(5) as ex:
        for g, res in zip(groups, ex.map(one, groups)):
            ck.add_tlc(res, f"{label} {','.join(g)}")
            lines += res.lines
    return core.group_allowed(lines)


def _sign(x):
    return "none" if x == 99 else ("neg" if x < 0 else "nonneg")


def _variant_job(args):
    scn, allowed, variants, k = args
    out = []
    n = 0
    for v in variants:
        f = judge(scn, allowed, k=k, **v)
        if f == "n/a":
            continue
        n += 1
        if f:
            if scn["op"] == "slice":
                f["start_sign"], f["stop_sign"] = _sign(scn["par"]["a"]), _sign(scn["par"]["b"])
            out.append(f)
    return n, out


def replay_groups(ck, groups, variants_for, k, procs=14):
    """variants_for(scn) -> list of dicts(hot, tmap, profile, salt, form)."""
    from harness import core
    jobs = [(scn, allowed, variants_for(scn), k) for scn, allowed in groups]
    total = 0
    for n, fails in core.parallel_map(_variant_job, jobs, procs=procs, chunk=100):
        total += n
        for f in fails:
            ck.fail(f)
    ck.impl += total
    return total


def nontrivial(scn, allowed):
    """output differs from the plain pass-through of the input"""
    out = allowed[0]["out"]
    vals = [e["v"] for e in out if e["k"] == "N"]
    return vals != list(scn["src"])


def generic_replay(rec):
    import json
    f = judge(rec["scn"], rec["expected"], hot=rec["hot"], tmap=rec["tmap"], profile=rec["profile"], k=rec["k"],
              salt=rec["salt"], form=rec["form"])
    print(json.dumps(f, default=str)[:2000] if f else "replay: observation allowed by the spec")
    return 1 if f else 0
