"""C43 - combinators serialize concurrently emitting sources (Serialize.tla: downstream-call monitor NoOverlap/Grammar bound to real
executions under controlled thread schedules; lock-discipline model per combinator family checked by TLC over all interleavings)."""
from props import obs_common as oc

META = {
    "technique": "TLA+ monitor of the downstream observer (Serialize.tla: enter/exit, NoOverlap, Grammar) + TLC-checked lock-discipline model per combinator family; real combinators run under DetSched-controlled thread schedules, recorded traces validated by TLC trace checking (SerializeTrace.tla)",
    "level": "TLC proves NoOverlap and Grammar for the intended lock discipline of every combinator family (merge, merge_all/flat_map outer, zip, combine_latest, with_latest_from, amb, time/count windows) over all interleavings of 2-3 source threads, and computes which families violate them with the discipline the code implements (prediction, compared with the real runs as model drift). Each source of the real combinator is a Subject fed by its own logical thread; for every arrival order of the notifications every schedule up to the preemption bound (fewest preemptions first, plus seeded random schedules) is executed with switch points at every line of the combinator, every cooperative lock acquisition and inside the user's callbacks; every recorded enter/exit trace of the user's callbacks must satisfy the monitor.",
    "note": "TLC 1.8; DetSched switch points are GIL-realisable points only; locks the combinators hold across downstream calls are replaced by cooperative re-entrant locks, other locks stay real; TimeoutScheduler timers are logical threads on the controlled clock; the window family also runs with a source that is not a Subject (nothing but the operator takes source.lock)",
    "ref": "DESIGN.md 6 C43, 2.4, 8",
}

RULE = ("operators merge, merge_all, flat_map, merge(max_concurrent), zip, combine_latest, with_latest_from, amb (2 and 3 sources), "
        "window/buffer_with_time(_or_count); per operator source scripts N^k.(C|E), k <= 2, every (or a seeded sample of) arrival order "
        "of the notifications, every schedule up to the preemption bound; non-trivial = distinct traces in which at least two "
        "threads call the downstream observer")
ASSUME = [
    "controlled schedules preempt only where the pinned GIL interpreter can (after a call, at function entry, at backward jumps, at lock "
    "acquisitions): a subset of the language-level interleavings, so every reported schedule is realisable",
    "the arrival order of the sources' notifications is a scenario dimension (a source starts its next notification when it is its turn; "
    "it never waits for another call to finish); preemptions are counted inside the handlers only",
    "the downstream observer is observed at the user's callbacks (behind the library's AutoDetachObserver), as the property's observe_at says",
    "locks that are never held across a call into foreign code on the exercised paths (disposables; the Subjects' own lock where all "
    "subscriptions are made by the set-up thread) stay real locks: they cannot be contended at a switch point",
    "the schedule search is cut at a per-scenario budget; the evidence lists up to which preemption count each scenario was explored completely",
]


def run(tier):
    return oc.ser_run("C43", tier, RULE, ASSUME)


replay = oc.ser_replay
