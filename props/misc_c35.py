"""Binding A for Periodic.tla (C35): perform an exported periodic scenario on the real schedulers.

Targets
  virtual time : VirtualTimeScheduler / TestScheduler / HistoricalScheduler, bare and under
                 CatchScheduler; forms schedule_periodic, reactivex.interval, reactivex.timer
  one-thread discrete-event harness (no sleeping, no second thread; controlled clock patched
  into reactivex.scheduler.scheduler.default_now):
                 TimeoutScheduler   (threading.Timer replaced by an agenda entry)
                 NewThreadScheduler (thread_factory defers `run` to the agenda; threading.Event.wait
                                     advances the controlled clock, running what is due meanwhile)
                 EventLoopScheduler (thread_factory deferred, `run()` called on this thread;
                                     Condition.wait advances the controlled clock)
                 AsyncIOScheduler   (given a loop object whose call_soon / call_later are agenda entries)
                 and CatchScheduler over TimeoutScheduler
Codec only: state token k <-> a Python value per profile (plain / falsy); model instant t <->
float(t) / UTC_ZERO + t s / controlled clock BASE + t s.  No periodic semantics in Python: the
expected ticks come from TLC (`periodic_expected`)."""
from __future__ import annotations

import heapq
import signal
import threading as _threading
import types
from datetime import datetime, timedelta, timezone
from typing import Any, Dict, List, Optional

from props import vt_common

VT_KINDS = ("vts", "test", "hist")
RT_KINDS = ("timeout", "newthread", "eventloop", "catch_timeout", "asyncio")
FALSY = [None, 0, "", (), False, 0.0, [], {}]


class Boom(Exception):
    def __init__(self, k: int):
        super().__init__(f"boom at tick {k}")
        self.k = k


class SimHorizon(BaseException):
    """the controlled clock would pass the end of the observation window"""


NONE_TOK = 999   # Periodic!NoneTok: the action returned / received Python's None


class Codec:
    def __init__(self, profile: str, none_at: int = 0):
        # a scenario in which some call returns None needs None to be distinguishable from the initial state
        self.profile = "plain" if none_at else profile
        self.none_at = none_at

    def ret(self, k: int, recv: Any) -> Any:
        """the user's action as the table Periodic!Ret on tokens, made concrete"""
        if k == self.none_at:
            return None
        if recv == NONE_TOK:
            return self.val(100)
        return self.val(recv + 1 if isinstance(recv, int) else k)

    def val(self, tok: int) -> Any:
        if tok == NONE_TOK:
            return None
        if self.profile == "falsy":
            return FALSY[tok % len(FALSY)] if tok < len(FALSY) else ("late", tok)
        return 10 + tok

    def tok(self, v: Any, hint: int) -> Any:
        """token of the value the action received; hint = the token the k-th call should see"""
        if self.profile == "plain":
            if v is None:
                return NONE_TOK
            return v - 10 if type(v) is int else repr(v)
        want = self.val(hint)
        if type(v) is type(want) and v == want:
            return hint
        for t in range(0, hint + 3):
            w = self.val(t)
            if type(v) is type(w) and v == w:
                return t
        return repr(v)


def _num(x: float):
    x = round(x, 6)
    return int(x) if x == int(x) else x


# ---------------------------------------------------------------------------------------------
# virtual time
# ---------------------------------------------------------------------------------------------
def perform_vt(scn: Dict[str, Any], kind: str, *, catch: bool = False, profile: str = "plain", order: str = "after",
               direct: bool = False, sched_arg: str = "subscribe", abs_due: bool = False,
               watchdog: float = 4.0) -> Dict[str, Any]:
    import reactivex
    from reactivex.scheduler import CatchScheduler, VirtualTimeScheduler
    from reactivex.scheduler.scheduler import UTC_ZERO
    s = vt_common.make_sched(kind)
    dt = kind == "hist"
    cod = Codec(profile, scn.get("noneAt", 0))
    form, p, t0, first, stop, dur, H = (scn[k] for k in ("form", "p", "t0", "first", "stop", "dur", "horizon"))

    def A(t):
        return UTC_ZERO + timedelta(seconds=t) if dt else float(t)

    def R(d):
        return timedelta(seconds=d) if dt else float(d)

    def clk():
        c = s.clock
        return _num((c - UTC_ZERO).total_seconds() if dt else float(c))

    ticks: List[Any] = []
    raised = [0]
    problems: List[str] = []
    disp: List[Any] = [None]
    want_dispose = [False]

    def handler(ex):
        if isinstance(ex, Boom):
            if raised[0]:
                problems.append("handler called twice")
            raised[0] = ex.k
            return True
        problems.append(f"foreign exception {type(ex).__name__}: {ex}")
        return False

    target = CatchScheduler(s, handler) if catch else s

    def body(k):
        if stop["kind"] == "raise" and stop["at"] == k:
            raise Boom(k)            # the raising call takes no time
        d = dur[k % 2]
        if d:
            s.sleep(R(d))            # the action takes d units of virtual time
        if stop["kind"] == "self" and stop["at"] == k:
            disp[0].dispose()

    def action(state=None):
        k = len(ticks) + 1
        recv = cod.tok(state, k - 1)
        ticks.append([k, clk(), recv])
        body(k)
        return cod.ret(k, recv)

    def on_next(v):
        k = len(ticks) + 1
        ticks.append([k, clk(), v if type(v) is int else repr(v)])
        body(k)

    def begin(_s=None, _st=None):
        if form == "periodic":
            disp[0] = target.schedule_periodic(R(p), action, state=cod.val(0))
        else:
            if form == "interval":
                mk = lambda **kw: reactivex.interval(R(p), **kw)
            elif abs_due:
                mk = lambda **kw: reactivex.timer(s.to_datetime(A(t0 + first)), R(p), **kw)
            else:
                mk = lambda **kw: reactivex.timer(R(first), R(p), **kw)
            if sched_arg == "factory":
                disp[0] = mk(scheduler=target).subscribe(on_next, on_error=lambda e: problems.append(f"on_error {e!r}"),
                                                         on_completed=lambda: problems.append("completed"))
            else:
                disp[0] = mk().subscribe(on_next, on_error=lambda e: problems.append(f"on_error {e!r}"),
                                         on_completed=lambda: problems.append("completed"), scheduler=target)
        if want_dispose[0]:
            disp[0].dispose()

    def do_dispose(_s=None, _st=None):
        if disp[0] is None:
            want_dispose[0] = True   # dispose "at t0" ordered before the start action: dispose right after starting
        else:
            disp[0].dispose()

    def drive(fn, until=None):
        for _ in range(3):
            try:
                fn()
                return
            except Boom as ex:
                if raised[0]:
                    problems.append("exception surfaced twice")
                raised[0] = ex.k
                s.stop()   # an escaping exception leaves the virtual-time scheduler enabled
                if until is not None and clk() >= until:
                    return
        problems.append("driver kept raising")

    old = signal.signal(signal.SIGALRM, vt_common._alarm)
    signal.setitimer(signal.ITIMER_REAL, watchdog)
    try:
        if stop["kind"] == "dispose" and order == "before":
            s.schedule_absolute(A(stop["at"]), do_dispose)
        if direct and t0 == 0:
            begin()
        else:
            s.schedule_absolute(A(t0), begin)
        if stop["kind"] == "dispose" and order != "before":
            s.schedule_absolute(A(stop["at"]), do_dispose)
        drive(lambda: s.advance_to(A(H)), until=H)
        n1 = len(ticks)
        if stop["kind"] != "none":
            drive(lambda: VirtualTimeScheduler.start(s))   # must return: the periodic work has stopped
        return {"ticks": ticks, "n1": n1, "raised": raised[0], "problems": problems}
    except vt_common.Hang:
        return {"hang": True, "ticks": ticks[:12], "n1": -1, "raised": raised[0], "problems": problems}
    except Exception as e:
        return {"error": f"{type(e).__name__}: {e}", "ticks": ticks[:12], "n1": -1, "raised": raised[0], "problems": problems}
    finally:
        signal.setitimer(signal.ITIMER_REAL, 0)
        signal.signal(signal.SIGALRM, old)


# ---------------------------------------------------------------------------------------------
# one-thread discrete-event harness for the real-time schedulers
# ---------------------------------------------------------------------------------------------
BASE = datetime(2021, 3, 4, 5, 6, 7, tzinfo=timezone.utc)


class Sim:
    """Agenda of (due, seq, fn); one thread of control; the clock moves only here."""

    def __init__(self, end: float, tie_first: bool):
        self.t = 0.0
        self.end = end              # observation window: the clock never passes it
        self.tie_first = tie_first  # a waiter whose deadline coincides with an agenda entry: entry first?
        self.q: List[Any] = []
        self.seq = 0
        self.on_exc = None          # what an exception ending a (simulated) thread is reported to

    def call(self, ent) -> None:
        try:
            ent[2]()
        except Boom as ex:          # on a real thread this ends that thread only (and reaches the excepthook)
            if self.on_exc is not None:
                self.on_exc(ex)

    def now(self) -> datetime:
        return BASE + timedelta(seconds=self.t)

    def add(self, due: float, fn) -> List[Any]:
        self.seq += 1
        ent = [due, self.seq, fn, False]
        heapq.heappush(self.q, ent)
        return ent

    def _pop_due(self, limit: float, inclusive: bool):
        while self.q and self.q[0][3]:
            heapq.heappop(self.q)
        if self.q and (self.q[0][0] < limit or (inclusive and self.q[0][0] == limit)):
            return heapq.heappop(self.q)
        return None

    def run(self) -> None:
        """top level: run every entry in (due, seq) order up to the end of the window"""
        while True:
            ent = self._pop_due(self.end, True)
            if ent is None:
                return
            self.t = max(self.t, ent[0])
            self.call(ent)

    def sleep(self, d: float, until=None) -> bool:
        """a blocked wait of d on the single thread: run what is due meanwhile; stop early when until() holds"""
        deadline = self.t + d
        while True:
            if until is not None and until():
                return True
            ent = self._pop_due(deadline, self.tie_first)
            if ent is None:
                break
            self.t = max(self.t, ent[0])
            self.call(ent)
        if until is not None and until():
            return True
        if deadline > self.end:
            self.t = self.end
            raise SimHorizon()
        self.t = max(self.t, deadline)
        return False


def _shims(sim: Sim):
    class FakeTimer:
        def __init__(self, interval, function, args=None, kwargs=None):
            self.interval, self.function = interval, function
            self.daemon = True
            self.ent = None

        def start(self):
            self.ent = sim.add(sim.t + max(0.0, float(self.interval)), self.function)

        def cancel(self):
            if self.ent is not None:
                self.ent[3] = True

    class FakeEvent:
        def __init__(self):
            self.flag = False

        def set(self):
            self.flag = True

        def is_set(self):
            return self.flag

        def clear(self):
            self.flag = False

        def wait(self, timeout=None):
            if timeout is None:
                if self.flag:
                    return True
                raise SimHorizon()
            return sim.sleep(float(timeout), lambda: self.flag)

    class FakeCondition:
        def __init__(self, lock=None):
            self.lock = lock or _threading.RLock()
            self.notified = False

        def __enter__(self):
            return self.lock.__enter__()

        def __exit__(self, *a):
            return self.lock.__exit__(*a)

        def acquire(self, *a, **k):
            return self.lock.acquire(*a, **k)

        def release(self):
            return self.lock.release()

        def notify(self, n=1):
            self.notified = True

        notify_all = notify

        def wait(self, timeout=None):
            # single thread: nobody else can notify while we wait, so only the agenda can act
            self.lock.release()
            try:
                if timeout is None:
                    raise SimHorizon()
                sim.sleep(float(timeout), None)
                return False
            finally:
                self.lock.acquire()

    class DeferredThread:
        """thread_factory product: start() puts the target on the agenda at the current instant"""

        def __init__(self, target):
            self.target = target
            self.daemon = True

        def start(self):
            sim.add(sim.t, self.target)

    class ManualThread:
        def __init__(self, target):
            self.target = target
            self.started = False

        def start(self):
            self.started = True

    class FakeHandle:
        def __init__(self, ent):
            self.ent = ent

        def cancel(self):
            self.ent[3] = True

    class FakeLoop:
        """the part of an asyncio loop AsyncIOScheduler uses, on the agenda"""

        def call_soon(self, fn, *a):
            return FakeHandle(sim.add(sim.t, lambda: fn(*a)))

        def call_later(self, delay, fn, *a):
            return FakeHandle(sim.add(sim.t + max(0.0, float(delay)), lambda: fn(*a)))

        def time(self):
            return sim.t

    return FakeTimer, FakeEvent, FakeCondition, DeferredThread, ManualThread, FakeLoop


def perform_rt(scn: Dict[str, Any], kind: str, *, profile: str = "plain", order: str = "after",
               tie_first: bool = True, foreign_dispose: bool = False, watchdog: float = 4.0) -> Dict[str, Any]:
    import reactivex.scheduler.eventloopscheduler as elmod
    import reactivex.scheduler.newthreadscheduler as ntmod
    import reactivex.scheduler.scheduler as smod
    import reactivex.scheduler.timeoutscheduler as tomod
    from reactivex.scheduler import CatchScheduler, EventLoopScheduler, NewThreadScheduler, TimeoutScheduler
    form, p, t0, first, stop, dur, H = (scn[k] for k in ("form", "p", "t0", "first", "stop", "dur", "horizon"))
    assert form == "periodic"
    cod = Codec(profile, scn.get("noneAt", 0))
    over = bool(scn.get("over"))
    # stopping scenarios end by themselves well before; overrunning calls stretch the run
    end = float(H) if stop["kind"] == "none" else float(H + 2 + 4 * p + (12 * (max(dur) + p) if over else 0))
    # on the event loop the dispose is normally an action of the loop itself; from "another thread" (an agenda
    # entry that fires while the loop waits or while a call is executing) when asked, and always in overrun scenarios
    foreign_dispose = foreign_dispose or over
    sim = Sim(end, tie_first)
    FakeTimer, FakeEvent, FakeCondition, DeferredThread, ManualThread, FakeLoop = _shims(sim)
    ticks: List[Any] = []
    raised = [0]
    problems: List[str] = []
    disp: List[Any] = [None]
    want_dispose = [False]

    def handler(ex):
        if isinstance(ex, Boom):
            raised[0] = ex.k
            return True
        problems.append(f"foreign exception {type(ex).__name__}: {ex}")
        return False

    saved = (smod.default_now, tomod.Timer, ntmod.threading, elmod.threading)
    smod.default_now = sim.now
    tomod.Timer = FakeTimer
    ntmod.threading = types.SimpleNamespace(Event=FakeEvent, Thread=_threading.Thread)
    elmod.threading = types.SimpleNamespace(Condition=FakeCondition, Lock=_threading.RLock, Thread=_threading.Thread)
    old = signal.signal(signal.SIGALRM, vt_common._alarm)
    signal.setitimer(signal.ITIMER_REAL, watchdog)
    try:
        loop = None
        if kind == "timeout":
            target = TimeoutScheduler()
        elif kind == "catch_timeout":
            target = CatchScheduler(TimeoutScheduler(), handler)
        elif kind == "newthread":
            target = NewThreadScheduler(thread_factory=DeferredThread)
        elif kind == "eventloop":
            target = loop = EventLoopScheduler(thread_factory=ManualThread, exit_if_empty=True)
        elif kind == "asyncio":
            from reactivex.scheduler.eventloop import AsyncIOScheduler
            target = AsyncIOScheduler(FakeLoop())
        else:
            raise ValueError(kind)

        def action(state=None):
            k = len(ticks) + 1
            recv = cod.tok(state, k - 1)
            ticks.append([k, _num(sim.t), recv])
            d = dur[k % 2]
            if stop["kind"] == "raise" and stop["at"] == k:
                raise Boom(k)
            if d:
                sim.sleep(float(d))      # the action takes d units of the controlled clock; other threads run meanwhile
            if stop["kind"] == "self" and stop["at"] == k:
                disp[0].dispose()
            return cod.ret(k, recv)

        def begin(_s=None, _st=None):
            disp[0] = target.schedule_periodic(float(p), action, state=cod.val(0))
            if want_dispose[0]:
                disp[0].dispose()

        def do_dispose(_s=None, _st=None):
            if disp[0] is None:
                want_dispose[0] = True
            else:
                disp[0].dispose()

        def on_exc(ex):
            if raised[0]:
                problems.append("exception surfaced twice")
            raised[0] = ex.k

        sim.on_exc = on_exc
        guarded = lambda fn: fn

        if loop is not None:
            # everything is scheduled on the loop itself; the loop body runs on this thread
            on_loop = stop["kind"] == "dispose" and not foreign_dispose
            if stop["kind"] == "dispose" and foreign_dispose:
                sim.add(float(stop["at"]), do_dispose)
            if on_loop and order == "before":
                loop.schedule_absolute(sim.now() + timedelta(seconds=stop["at"]), do_dispose)
            loop.schedule_absolute(sim.now() + timedelta(seconds=t0), begin)
            if on_loop and order != "before":
                loop.schedule_absolute(sim.now() + timedelta(seconds=stop["at"]), do_dispose)
            for _ in range(3):
                try:
                    loop.run()
                    break
                except SimHorizon:
                    break
                except Boom as ex:
                    if raised[0]:
                        problems.append("exception surfaced twice")
                    raised[0] = ex.k
        else:
            if stop["kind"] == "dispose" and order == "before":
                sim.add(float(stop["at"]), guarded(do_dispose))
            sim.add(float(t0), guarded(begin))
            if stop["kind"] == "dispose" and order != "before":
                sim.add(float(stop["at"]), guarded(do_dispose))
            try:
                sim.run()
            except SimHorizon:
                pass
        n1 = sum(1 for t in ticks if t[1] <= H)
        return {"ticks": ticks, "n1": n1, "raised": raised[0], "problems": problems}
    except vt_common.Hang:
        return {"hang": True, "ticks": ticks[:12], "n1": -1, "raised": raised[0], "problems": problems}
    except Exception as e:
        return {"error": f"{type(e).__name__}: {e}", "ticks": ticks[:12], "n1": -1, "raised": raised[0], "problems": problems}
    finally:
        signal.setitimer(signal.ITIMER_REAL, 0)
        signal.signal(signal.SIGALRM, old)
        smod.default_now, tomod.Timer, ntmod.threading, elmod.threading = saved


# ---------------------------------------------------------------------------------------------
# judgement
# ---------------------------------------------------------------------------------------------
def _exact(e: Dict[str, Any], got: Dict[str, Any]) -> bool:
    return got["ticks"] == e["ticks"] and got["n1"] == e["n1"] and got["raised"] == e["raised"]


def _windowed(e: Dict[str, Any], got: Dict[str, Any], scn: Dict[str, Any]) -> bool:
    """real-time schedulers: 'once per period' - call k not before its instant and before the next one's;
    count, states and the raise as in the model"""
    if len(got["ticks"]) != len(e["ticks"]) or got["raised"] != e["raised"] or got["n1"] != e["n1"]:
        return False
    for g, x in zip(got["ticks"], e["ticks"]):
        if g[0] != x[0] or g[2] != x[2] or not (x[1] <= g[1] < x[1] + scn["p"]):
            return False
    return True


def _overrun_ok(scn: Dict[str, Any], allowed: List[Dict[str, Any]], got: Dict[str, Any]) -> Optional[str]:
    """Overrun scenarios (some call takes a period or more): the instants are not pinned; what is:
    state threading, never more than once per period, the first call at its instant, stop after
    self-dispose / raise, and no call starting after the dispose instant.  None = fine, else what failed."""
    e = allowed[0]
    stop, p = scn["stop"], scn["p"]
    t = got["ticks"]
    for i, x in enumerate(t):
        if x[0] != i + 1 or x[2] != i:
            return "state"
    for a, b in zip(t, t[1:]):
        if b[1] < a[1] + p:
            return "more_than_once_per_period"
    if e["ticks"] and (not t or t[0][1] != e["ticks"][0][1]):
        return "first_call"
    if stop["kind"] == "dispose" and any(x[1] > stop["at"] for x in t):
        return "call_after_dispose"
    if stop["kind"] in ("self", "raise") and len(t) != stop["at"]:
        return "call_after_dispose" if stop["kind"] == "self" and len(t) > stop["at"] else "count"
    if got["raised"] != e["raised"]:
        return "raise"
    return None


def classify(scn, allowed, got) -> Dict[str, Any]:
    if got.get("hang"):
        return {"failure": "hang"}
    if got.get("error"):
        return {"failure": "error"}
    if got["problems"]:
        return {"failure": "problem"}
    counts = sorted({len(e["ticks"]) for e in allowed})
    n = len(got["ticks"])
    if n not in counts:
        return {"failure": "extra_calls" if n > counts[-1] else "missing_calls", "expected_counts": counts, "observed_count": n,
                "stop_kind": scn["stop"]["kind"]}
    e = [x for x in allowed if len(x["ticks"]) == n][0]
    if [t[1] for t in got["ticks"]] != [t[1] for t in e["ticks"]]:
        return {"failure": "wrong_time", "stop_kind": scn["stop"]["kind"], "has_duration": any(scn["dur"])}
    if [t[2] for t in got["ticks"]] != [t[2] for t in e["ticks"]]:
        return {"failure": "state", "stop_kind": scn["stop"]["kind"]}
    if got["raised"] != e["raised"]:
        return {"failure": "raise"}
    return {"failure": "phase_count"}


_HANGS = [0, 0]  # per process: confirmed hangs, scenarios skipped after the hang budget was used up


def judge(scn: Dict[str, Any], allowed: List[Dict[str, Any]], target: str, **kw) -> Optional[Dict[str, Any]]:
    rt = target in RT_KINDS
    catch = target.startswith("catch_") and not rt

    def once(wd):
        if rt:
            return perform_rt(scn, target, watchdog=wd, **kw)
        return perform_vt(scn, target[6:] if catch else target, catch=catch, watchdog=wd, **kw)

    if scn.get("over") and not rt:
        raise ValueError("overrun scenarios are performed on the real-time targets only")
    if _HANGS[0] >= 3:   # do not spend hours on a tree that hangs
        _HANGS[1] += 1
        return None
    got = once(3.0)
    if got.get("hang"):  # confirm: a loaded machine must not turn into a verdict
        got = once(12.0)
        if got.get("hang"):
            _HANGS[0] += 1
    bad = got.get("hang") or got.get("error") or got["problems"]
    over = bool(scn.get("over"))
    why = None
    if not bad and over:
        why = _overrun_ok(scn, allowed, got)
        if why is None:
            return None
    elif not bad and any((_windowed(e, got, scn) if rt else _exact(e, got)) for e in allowed):
        return None
    if len(got.get("ticks", [])) > 12:
        got = dict(got, ticks=got["ticks"][:12] + ["..."])
    rec = {"engine": "periodic", "target": target, "variant": {k: v for k, v in kw.items() if k != "watchdog"}, "scn": scn,
           "expected": allowed, "observed": got, "form": scn["form"], "overrun": over}
    rec.update({"failure": why, "stop_kind": scn["stop"]["kind"]} if why else classify(scn, allowed, got))
    return rec


# ---------------------------------------------------------------------------------------------
# for other bundles: the model's expectation for one parameter point (TLC decides, not Python)
# ---------------------------------------------------------------------------------------------
_CACHE: Dict[Any, Any] = {}
INVS = ["TypeOK", "TicksExact", "OncePerPeriod", "NoCallAfterStop", "StopsOnRaise", "RefOK", "StateThreaded", "AtMostOncePerPeriod",
        "NotBeforeGrid", "NoCallAfterDispose", "NeverTwiceAtOnce", "LateFirstAtOnce"]


def periodic_expected(period: int, n: int, *, t0: int = 0, dispose_at: Optional[int] = None, self_dispose_at: Optional[int] = None,
                      raise_at: Optional[int] = None, durations=(0, 0)) -> List[Dict[str, Any]]:
    """Allowed observations of schedule_periodic(period, ...) started at instant t0 and observed for n
    periods (horizon t0 + n*period), as decided by TLC on Periodic.tla.  Each element:
    {"ticks": [[k, instant, state_token], ...], "n1": calls up to the horizon, "raised": k or 0}; the
    state token of call k is k-1 (0 = the initial state; the action returns token+1).  More than one
    element only when a dispose coincides with a tick.  Real-time schedulers under a controlled clock
    are expected to call k at an instant in [instant_k, instant_k + period) ("once per period")."""
    from harness import tlc
    horizon = t0 + n * period
    stop_n = sum(x is not None for x in (dispose_at, self_dispose_at, raise_at))
    if stop_n > 1:
        raise ValueError("one stop kind at a time")
    maxk = max(self_dispose_at or 1, raise_at or 1)
    key = (period, t0, horizon, tuple(durations), maxk)
    if key not in _CACHE:
        consts = dict(Forms={"periodic"}, Periods={period}, Starts={t0}, Firsts={period}, Durs=set(durations), Over=set(), NoneAts={0}, LateFirsts=set(), Horizon=horizon, MaxK=maxk)
        res = tlc.run("Periodic", tlc.cfg_text(consts, invariants=INVS + ["Export"]), workers=1, timeout=600, allow_violation=False)
        _CACHE[key] = res.lines
    if dispose_at is not None:
        stop = {"kind": "dispose", "at": dispose_at}
    elif self_dispose_at is not None:
        stop = {"kind": "self", "at": self_dispose_at}
    elif raise_at is not None:
        stop = {"kind": "raise", "at": raise_at}
    else:
        stop = {"kind": "none", "at": 0}
    out = []
    for ln in _CACHE[key]:
        s = ln["scn"]
        if s["stop"] == stop and tuple(s["dur"]) == tuple(durations) and ln["obs"] not in out:
            out.append(ln["obs"])
    if not out:
        raise ValueError("parameter point outside the model's bounds (dispose_at must be in t0..horizon+2)")
    return out
