"""C29 - virtual-time runs always finish.
Specs: VirtualTime.tla with the spin nudge enabled (liveness <>[]AtTop under fairness) and
Spin.tla (many same-instant actions, parameters relative to the spin limit).
Binding A: exported histories performed with MAX_SPINNING patched to 1 (so 3 same-instant
actions reach the nudge) on all three schedulers; Spin scenarios performed with the real
constant (100) and with small patched values, under a wall-clock watchdog."""
from __future__ import annotations

import json
import random

from harness import core, tlc
from props import vt_common

QUICK = dict(MaxCmds=4, MaxItems=4, MaxBody=1, RelD={1}, AbsT={0, 1}, AdvT={2}, AdvD={1}, Bump=True)
THOROUGH = dict(MaxCmds=5, MaxItems=4, MaxBody=1, RelD={1}, AbsT={0, 1}, AdvT={2}, AdvD={1}, Bump=True)
TICK = 0.001  # the datetime nudge is 1000 microseconds: one model tick on the historical scheduler


def _job(args):
    import reactivex.scheduler.virtualtimescheduler as vmod
    scn, allowed = args
    saved = vmod.MAX_SPINNING
    vmod.MAX_SPINNING = 1
    try:
        out = []
        for k in vt_common.KINDS:
            f = vt_common.judge(scn, allowed, k, watchdog=5.0, tick=TICK if k in ("hist", "histn") else 1.0)
            if f:
                f["max_spinning"] = 1
                out.append(f)
        return out
    finally:
        vmod.MAX_SPINNING = saved


def _spin_job(args):
    scn, exp, kind, ms = args
    if vt_common._HANGS[0] >= 4:
        return None
    got = vt_common.spin_run(scn, kind, ms)
    if not got["returned"]:
        got = vt_common.spin_run(scn, kind, ms, watchdog=40.0)
        if not got["returned"]:
            vt_common._HANGS[0] += 1
    n = scn["mult"] * ms + scn["delta"]
    want = (2 if scn["restart"] else 1) * (0 if n == 0 else n + scn["chain"])
    ok = got["returned"] and not got.get("raised") and got["count"] == want and got["fifo"] and got["monotone"]
    if ok:
        return None
    return {"engine": "spin", "sched": kind, "max_spinning": ms, "scn": scn, "expected": {"returned": True, "count": want},
            "observed": got, "failure": "hang" if not got["returned"] else "mismatch",
            "same_instant_actions": n, "over_limit": n + scn["chain"] > ms + 1}


def run(tier: str) -> int:
    ck = core.Check("C29", tier)
    ck.rule = ("(a) histories from VirtualTime.tla with the spin nudge enabled, performed with MAX_SPINNING=1; "
               "(b) Spin.tla scenarios n = mult*MAX_SPINNING+delta same-instant actions, self-rescheduling chain, start/advance_to, "
               "restart, performed with MAX_SPINNING in {1,2,100(real)}; non-trivial = the nudge path is reached (more same-instant "
               "actions than the limit)")
    consts = QUICK if tier == "quick" else THOROUGH
    # liveness of the design: every driver call returns, on the unconstrained fair spec
    live = tlc.run("VirtualTime", tlc.cfg_text(consts, spec="Spec", invariants=["TypeOK", "NotEarly", "RunOnce", "Fifo"],
                                               properties=["Monotone", "Terminates"]),
                   workers=8, timeout=3000, xmx="8g", allow_violation=False)
    ck.add_tlc(live, "liveness Terminates under WF, nudge enabled")
    exp = tlc.run("VirtualTime", tlc.cfg_text(consts, invariants=["Export"]), workers=1, timeout=3000, xmx="8g",
                  allow_violation=False)
    ck.add_tlc(exp, "export, nudge enabled")
    groups = core.group_allowed(exp.lines)
    if tier == "quick" and len(groups) > 30000:
        rnd = random.Random(ck.seed)
        groups = rnd.sample(groups, 30000)
    for fails in core.parallel_map(_job, groups):
        for f in fails:
            ck.fail(f)
    ck.impl += len(groups) * 3
    ck.note("histories_with_nudge_choice", sum(1 for g in groups if len(g[1]) > 1))
    nontriv = sum(1 for g in groups if len(g[1]) > 1)
    # at scale
    sp = tlc.run("Spin", tlc.cfg_text(dict(MaxSpin=3, Mults={0, 1, 2, 3}, Deltas={0, 1, 2}, Chains={0, 1, 5}), spec="Spec",
                                      invariants=["AllRan", "Export"], properties=["Monotone", "Finishes"]),
                 workers=1, timeout=600, allow_violation=False)
    ck.add_tlc(sp, "Spin.tla liveness + export")
    jobs = []
    for ln in sp.lines:
        for kind in vt_common.KINDS:
            for ms in ((1, 2, 100) if tier == "quick" else (0, 1, 2, 3, 100)):
                jobs.append((ln["scn"], ln["obs"], kind, ms))
    for f in core.parallel_map(_spin_job, jobs, chunk=20):
        if f:
            ck.fail(f)
    ck.impl += len(jobs)
    nontriv += sum(1 for j in jobs if j[0]["mult"] * j[3] + j[0]["delta"] + j[0]["chain"] > j[3] + 1)
    ck.nontrivial = nontriv
    ck.exhaustive = True
    ck.sample({"history": groups[0][0], "allowed": groups[0][1][:3]})
    ck.sample({"spin_scenario": jobs[len(jobs) // 2][0], "sched": jobs[len(jobs) // 2][2], "max_spinning": jobs[len(jobs) // 2][3]})
    ck.assumptions = ["a run that does not return within the watchdog (5-10 s for at most a few hundred actions) is a hang",
                      "MAX_SPINNING is patched as a module attribute for the small-limit variants; the real value 100 is also run"]
    return ck.finish()


def replay(rec) -> int:
    if rec.get("engine") == "spin":
        f = _spin_job((rec["scn"], rec["expected"], rec["sched"], rec["max_spinning"]))
    else:
        fs = _job((rec["scn"], rec["expected"]))
        f = fs[0] if fs else None
    print(json.dumps(f, default=str)[:2000] if f else "replay: observation allowed by the spec")
    return 1 if f else 0


META = {
    'technique': 'TLC liveness check of the run loop (VirtualTime.tla with the spin nudge, Spin.tla) + exported histories and at-scale same-instant batches performed on the real schedulers under a watchdog',
    'level': 'TLC checks <>[](driver returned) under weak fairness on the run-loop model with the clock nudge enabled, and on Spin.tla (n = k*limit+delta same-instant actions, self-rescheduling, restart); every exported history is performed with the spin limit patched to 1 and every Spin scenario with limits 1, 2 and the real 100 on numeric and datetime clocks; a driver call that does not return within the watchdog (confirmed by a longer retry) is a violation.',
    'note': 'TLC 1.8; watchdog = wall clock (5 s, confirmed with 20-40 s); MAX_SPINNING patched as a module attribute for the small variants',
    'ref': 'DESIGN.md 6 C29',
}
