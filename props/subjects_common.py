"""Binding A for Subjects.tla / SubjectsReplay.tla: perform an exported call history on a real
subject and project the run to the record the specification exports.

Only the codec lives here: tokens <-> Python values (identity based, so that None, 0, False,
'', [] ... stay distinguishable), subscription ids <-> creation order, call names <-> API calls.
What each observer must have received is decided by the TLA+ modules."""
from __future__ import annotations

import json
from typing import Any, Dict, List, Optional

from harness import core, tlc

# ---------------------------------------------------------------------------------------------
# value codec.  Token t of a run is POOL[(t + salt) % len(POOL)]; the reverse map is by identity.
# The first eight are the falsy profile of C08, pairwise distinguishable by type/identity.
_FALSY = [None, 0, "", False, [], (), {}, 0.0]
_PLAIN = [1, "a", 2, "b", 3, "c", 4, "d"]
POOLS = {"falsy": _FALSY + _PLAIN, "plain": _PLAIN + _FALSY}


def _equal_objects(n):
    """n pairwise DISTINCT objects (identity, and mostly type) that all compare == to each other: 1, True, 1.0,
    Fraction(1), Decimal(1), (1+0j) and further fresh float / Fraction / Decimal / complex objects.  The profile of
    "equal but distinguishable" values: a subject must hand on the value it was given, not one that equals it."""
    from decimal import Decimal
    from fractions import Fraction
    out = [1, True, 1.0, Fraction(1), Decimal(1), complex(1, 0)]
    makers = [lambda: float("1.0"), lambda: Fraction(2, 2), lambda: Decimal("1.0"), lambda: complex("1+0j")]
    k = 0
    while len(out) < n:
        out.append(makers[k % len(makers)]())
        k += 1
    assert all(a == b for a in out for b in out) and len({id(x) for x in out}) == len(out)
    return out[:n]


_EQUAL = _equal_objects(48)
DISPOSED_TOK = 99


class SizedError(Exception):
    """An aggregate error: truthiness follows the number of collected causes (a falsy exception object)."""

    def __len__(self):
        return len(self.args)


def _pool(variant):
    """Token t -> pool[t].  The FIRST EIGHT tokens are a rotation of the eight falsy values among
    themselves (salt), so that every token position - the initial value, the first value, the last
    value before a completion ... - meets None, 0, '', False, [], (), {} and 0.0 over the variants;
    later tokens are plain values.  (An earlier version rotated the whole 16-element pool by a salt
    < 8: token 0 could become None but an EMITTED token, >= 1, never could.)"""
    if variant.get("profile") == "equal":       # every token an object == to every other one; salt rotates which type sits where
        s = variant.get("salt", 0) % 16
        return _EQUAL[s:16] + _EQUAL[:s]
    s = variant.get("salt", 0) % len(_FALSY)
    rot = _FALSY[s:] + _FALSY[:s]
    if variant.get("profile", "falsy") == "plain":      # plain values first, the falsy rotation after them
        return _PLAIN + rot
    return rot + _PLAIN


def _focus_salt(focus, target):
    """Salt under which token `focus` (< 8) is the falsy value number `target` (0 = None)."""
    return (target - focus) % len(_FALSY)


def _script_tokens(scn):
    """on_next tokens of a script, in the order the model made the calls (tokens are call numbers)."""
    toks = [c["a"] for c in scn["top"] if c["c"] == "next"]
    for per_obs in scn.get("body", []):
        for cmds in per_obs:
            toks += [c["a"] for c in cmds if c["c"] == "next"]
    return sorted(toks)


def _errors(variant, n=12):
    if variant.get("err") == "sized":
        return [SizedError() for _ in range(n)]
    return [Exception("e%d" % i) for i in range(n)]


def _ident(pool, v):
    for i, x in enumerate(pool):
        if x is v:
            return i
    return -1


EMITS = ("next", "error", "completed")

INVS = {
    "subject": ["TypeOK", "Grammar", "CallOrder", "Broadcast", "Silenced", "LateTerminal", "DisposedRaises"],
    "behavior": ["TypeOK", "Grammar", "CallOrder", "Broadcast", "Silenced", "LateTerminal", "DisposedRaises",
                 "CurrentFirst", "ThenLikeSubject"],
    "async": ["TypeOK", "Grammar", "CallOrder", "Broadcast", "Silenced", "DisposedRaises", "SilentUntilDone",
              "LastThenCompleted", "ErrorOnly", "LateSameAsCurrent"],
}
TOP_ALL = {"sub", "subnh", "unsub", "next", "error", "completed", "dispose"}


# ---------------------------------------------------------------------------------------------
def perform(scn: Dict[str, Any], variant: Dict[str, Any]) -> Dict[str, Any]:
    """Run the scripted history on the real subject of scn['kind']."""
    from reactivex.internal import DisposedException
    from reactivex.observer import Observer
    from reactivex.subject import AsyncSubject, BehaviorSubject, Subject

    pool = _pool(variant)
    errs = _errors(variant)
    kind = scn["kind"]
    if kind == "subject":
        subject = Subject()
    elif kind == "behavior":
        subject = BehaviorSubject(pool[0])
    else:
        subject = AsyncSubject()
    body = scn["body"]
    logs: Dict[int, List[Any]] = {}
    subs: Dict[int, Any] = {}
    receipts: Dict[int, int] = {}
    disp_delivered: Dict[int, bool] = {}
    res: List[Any] = []
    problems: List[Any] = []      # [top-level step, what]: the real run left the script (e.g. a handle that does not exist yet)
    nsub = [0]
    cur = [0]

    def react(o):
        receipts[o] += 1
        r = receipts[o]
        script = body[o - 1] if o - 1 < len(body) else []
        for cmd in (script[r - 1] if r - 1 < len(script) else []):
            do(cmd)

    def observer_callbacks(o):
        def on_next(v):
            logs[o].append(["N", _ident(pool, v)])
            react(o)

        def on_error(e):
            if isinstance(e, DisposedException):
                disp_delivered[o] = True
                logs[o].append(["E", DISPOSED_TOK])
            else:
                logs[o].append(["E", _ident(errs, e)])
            react(o)

        def on_completed():
            logs[o].append(["C", 0])
            react(o)

        return on_next, on_error, on_completed

    def do(cmd):
        c, a = cmd["c"], cmd["a"]
        slot = len(res)
        res.append(None)
        out: Any = 0
        try:
            if c in ("sub", "subnh"):
                nsub[0] += 1
                n = nsub[0]
                if n != a:
                    problems.append([cur[0], "subscription id %d != scripted %d" % (n, a)])
                logs[n] = []
                receipts[n] = 0
                on_next, on_error, on_completed = observer_callbacks(n)
                if c == "subnh":
                    on_error = None
                if variant.get("form") == "observer":
                    d = subject.subscribe(Observer(on_next, on_error, on_completed))
                else:
                    d = subject.subscribe(on_next, on_error, on_completed)
                subs[n] = d
                if disp_delivered.get(n):
                    out = 2
            elif c == "unsub":
                if a in subs:
                    subs[a].dispose()
                else:
                    problems.append([cur[0], "unsub %d: no handle yet" % a])
            elif c == "next":
                subject.on_next(pool[a])
            elif c == "error":
                subject.on_error(errs[a])
            elif c == "completed":
                subject.on_completed()
            elif c == "dispose":
                subject.dispose()
            else:
                raise ValueError(c)
        except DisposedException:
            out = 1
        except Exception as e:  # anything else escaping a call is itself an observation
            out = "X:" + type(e).__name__
        res[slot] = out

    steps: List[List[int]] = []
    for cmd in scn["top"]:
        cur[0] += 1
        do(cmd)
        steps.append([len(logs[i]) for i in range(1, nsub[0] + 1)])
    return {"res": res, "steps": steps, "logs": [logs.get(i, []) for i in range(1, len(body) + 1)],
            "problems": problems}


def _same(got, exp):
    return got["res"] == exp["res"] and got["steps"] == exp["steps"] and got["logs"] == exp["logs"]


def _first_div(got, exp):
    """1-based index of the first top-level call after which the observations differ (0: none)."""
    n = len(exp["steps"])
    ei = 0
    for s in range(1, n + 1):
        # outcomes of the calls invoked during top-level call s, in invocation order
        e_res = [exp["res"][i] for i, at in enumerate(exp["at"]) if at[0] == s]
        g_res = got["res"][ei:ei + len(e_res)]
        ei += len(e_res)
        if s - 1 >= len(got["steps"]) or got["steps"][s - 1] != exp["steps"][s - 1] or g_res != e_res:
            return s
        # same lengths: the items received up to this call must agree too
        for o, ln in enumerate(exp["steps"][s - 1]):
            if got["logs"][o][:ln] != exp["logs"][o][:ln]:
                return s
    return 0


def judge(scn: Dict[str, Any], allowed: List[Dict[str, Any]], variant: Dict[str, Any]) -> Optional[Dict[str, Any]]:
    got = perform(scn, variant)
    if not got["problems"] and any(_same(got, e) for e in allowed):
        return None
    # diagnosis against the allowed observation that agrees longest
    best = max(allowed, key=lambda e: (_first_div(got, e) or 10 ** 6))
    s = _first_div(got, best)
    if got["problems"]:     # the run left the script at that step, whatever became visible later
        s = min([x for x in (s, got["problems"][0][0]) if x])
    cmd = scn["top"][s - 1]["c"] if s else "end"
    nested = [best["cs"][i] for i, at in enumerate(best["at"]) if (at[0] == s or s == 0) and at[1] == 1]
    nested_eff = [best["cs"][i] for i, at in enumerate(best["at"]) if (at[0] == s or s == 0) and at[1] == 1 and at[2] == 1]
    exp_l, got_l = best["logs"], got["logs"]
    same_multiset = all(sorted(map(json.dumps, a)) == sorted(map(json.dumps, b)) for a, b in zip(exp_l, got_l))
    raised = [r for r in got["res"] if isinstance(r, str)]
    return {"engine": "subjects", "kind": scn["kind"], "variant": variant, "scn": scn, "expected": allowed,
            "observed": got, "failure": "raised" if raised else ("script_diverged" if got["problems"] else "mismatch"),
            "diverges_step": s, "diverges_at": cmd,
            # witness for the re-entrancy finding: the first diverging top-level call is one during
            # which an observer emitted into the subject from inside its callback
            # (and that emission was effective: the subject was neither stopped nor disposed)
            "reentrant_emit": bool(nested_eff),
            "nested_calls": nested, "same_items_other_order": same_multiset,
            "err_profile": variant.get("err", "plain"),
            # some observer was terminated with the other kind of terminal notification (E vs C)
            "terminal_kind_differs": any(a and b and a != b for a, b in zip(_terminal_kinds(exp_l), _terminal_kinds(got_l)))}


def _terminal_kinds(logs):
    return [l[-1][0] if l and l[-1][0] in ("E", "C") else "" for l in logs]


# ---------------------------------------------------------------------------------------------
def _canon(lines):
    """Script normal form: an empty reaction list at the end of an observer's script is the same program as no
    entry (the observer does nothing on that receipt, whether or not the receipt happens).  Needed where the model
    leaves open whether a receipt happens at all (dispose() from inside a callback), so that both resolutions of
    one program are grouped under one key."""
    for ln in lines:
        for per_obs in ln["scn"]["body"]:
            while per_obs and not per_obs[-1]:
                per_obs.pop()
    return lines


def export(ck: core.Check, kind: str, consts: Dict[str, Any], label: str, simulate: Optional[str] = None,
           depth: Optional[int] = None, timeout: int = 900, xmx: str = "2g"):
    c = dict(consts)
    c["Kind"] = kind
    cfg = tlc.cfg_text(c, invariants=INVS[kind] + ["Export"])
    res = tlc.run("Subjects", cfg, workers=1, timeout=timeout, simulate=simulate, depth=depth,
                  seed=(ck.seed + 11) if simulate else None, xmx=xmx, allow_violation=False)
    ck.add_tlc(res, label)
    return _canon(res.lines)


def _job(args):
    scn, allowed, variants = args
    return [f for f in (judge(scn, allowed, v) for v in variants) if f]


def replay_groups(ck: core.Check, groups, variants_of, procs: int = 6):
    items = [(scn, allowed, variants_of(scn)) for scn, allowed in groups]
    n = 0
    for (scn, allowed, vs), fails in zip(items, core.parallel_map(_job, items, procs=procs, chunk=300)):
        n += len(vs)
        for f in fails:
            ck.fail(f)
    ck.impl += n


def generic_replay(rec) -> int:
    if rec.get("engine") == "subjects-conc":
        return conc_replay(rec)
    f = judge(rec["scn"], rec["expected"], rec["variant"])
    print(json.dumps(f, default=str)[:3000] if f else "replay: observation allowed by the spec")
    return 1 if f else 0


# ---------------------------------------------------------------------------------------------
# the runner shared by C20 / C21 / C23
ALL_CB = {"unsub", "sub", "next", "error", "completed"}
CB_DISPOSE = {"unsub", "sub", "dispose"}
SIM_TOP = TOP_ALL - {"dispose", "subnh"}    # simulation digs into long live histories; disposal is covered exhaustively
TIERS = {
    "quick": {
        "exhaustive": [
            ("callbacks unsubscribe/subscribe", dict(MaxCmds=5, MaxSubs=3, MaxBody=1, CbCmds={"unsub", "sub"}, TopCmds=TOP_ALL)),
            ("callbacks also emit", dict(MaxCmds=4, MaxSubs=3, MaxBody=1, CbCmds=ALL_CB, TopCmds=TOP_ALL - {"subnh"})),
            ("callbacks dispose the subject", dict(MaxCmds=5, MaxSubs=3, MaxBody=1, CbCmds={"dispose"}, TopCmds=TOP_ALL - {"subnh", "dispose", "unsub"})),
        ],
        "simulate": (dict(MaxCmds=10, MaxSubs=4, MaxBody=2, CbCmds={"unsub", "sub"}, TopCmds=SIM_TOP), 600, 250),
    },
    "thorough": {
        "exhaustive": [
            ("callbacks unsubscribe/subscribe", dict(MaxCmds=6, MaxSubs=3, MaxBody=1, CbCmds={"unsub", "sub"}, TopCmds=TOP_ALL)),
            ("callbacks unsubscribe/subscribe/emit, two calls per callback", dict(MaxCmds=5, MaxSubs=3, MaxBody=2, CbCmds=ALL_CB, TopCmds=TOP_ALL)),
            ("four subscribers", dict(MaxCmds=6, MaxSubs=4, MaxBody=1, CbCmds={"unsub"}, TopCmds=TOP_ALL - {"subnh"})),
            ("callbacks dispose the subject", dict(MaxCmds=6, MaxSubs=3, MaxBody=2, CbCmds=CB_DISPOSE, TopCmds=TOP_ALL - {"subnh", "dispose"})),
        ],
        "simulate": (dict(MaxCmds=14, MaxSubs=5, MaxBody=3, CbCmds={"unsub", "sub"}, TopCmds=SIM_TOP), 20000, 400),
    },
}


def _variants(scn, tier="thorough"):
    """Value/error/observer-form variants of one history.  The first always makes the LAST value the
    script emits (the initial value if it emits none) None - the final value of an AsyncSubject, the
    current value of a BehaviorSubject; the others put another falsy value there / None elsewhere."""
    h = len(json.dumps(scn, sort_keys=True))
    toks = _script_tokens(scn)
    last = toks[-1] if toks and toks[-1] < 8 else 0
    first = toks[0] if toks and toks[0] < 8 else 0
    vs = [dict(profile="falsy", salt=_focus_salt(last, 0), form="callbacks", err="plain"),
          dict(profile="falsy", salt=_focus_salt(last, 1 + h % 7), form="observer", err="sized"),
          dict(profile="falsy", salt=_focus_salt(first, 0), form="callbacks", err="sized"),
          dict(profile="plain", salt=h % 8, form="callbacks", err="plain")]
    # equal-but-distinguishable values (1, True, 1.0, Fraction(1) ...): only where the history holds two values
    # (a BehaviorSubject's initial value counts) - with one value the profile adds nothing over the others
    eq = [dict(profile="equal", salt=h % 16, form="callbacks" if h % 2 else "observer", err="plain")] \
        if len(toks) + (scn["kind"] == "behavior") >= 2 else []
    if tier == "quick":     # the first, and one of the others, alternating
        return [vs[0], vs[1 + h % 3]] + eq
    return vs + eq


def _nontrivial(scn, allowed):
    obs = allowed[0]
    received = any(obs["logs"])
    shaped = any(at[1] == 1 for at in obs["at"]) or any(c["c"] == "unsub" for c in scn["top"]) or \
        any(l and l[0][0] in ("E", "C") for l in obs["logs"])
    return received and shaped


def run_kind(pid: str, kind: str, tier: str) -> int:
    from concurrent.futures import ThreadPoolExecutor
    ck = core.Check(pid, tier)
    plan = TIERS[tier]
    lines: List[Any] = []

    def one(job):
        label, consts = job
        return export(ck, kind, consts, "exhaustive: " + label + " " + _fmt(consts), timeout=3000)

    with ThreadPoolExecutor(max_workers=3) as ex:
        futs = [ex.submit(one, j) for j in plan["exhaustive"]]
        sconsts, num, depth = plan["simulate"]
        fsim = ex.submit(export, ck, kind, sconsts, "simulate " + _fmt(sconsts), "num=%d" % num, depth, 3000)
        for f in futs:
            lines += f.result()
        sim = fsim.result()
    ck.exhaustive = True
    # vacuity guard: the situations the invariants are about must occur in the exhaustive part
    wit = {"snapshot_member_skipped_after_unsubscribe": sum(1 for ln in lines if ln["obs"]["skips"]),
           "late_subscriber": sum(1 for ln in lines if ln["obs"]["late"]),
           "call_on_disposed_subject": sum(1 for ln in lines if any(r in (1, 2) for r in ln["obs"]["res"])),
           "subscribe_inside_callback": sum(1 for ln in lines if any(c == "sub" and at[1] == 1 for c, at in zip(ln["obs"]["cs"], ln["obs"]["at"]))),
           "unsubscribe_inside_callback": sum(1 for ln in lines if any(c == "unsub" and at[1] == 1 for c, at in zip(ln["obs"]["cs"], ln["obs"]["at"])))}
    ck.note("reachability_witnesses", wit)
    if not all(wit.values()):
        raise RuntimeError("vacuous exhaustive run: %r" % wit)
    # a simulated behaviour shows one resolution of the model's nondeterminism only: histories with a
    # subscribe on the disposed subject (two accepted outcomes) are judged in the exhaustive part
    lines += [ln for ln in sim if not ln["obs"]["amb"]]
    ck.note("simulated_histories", len(sim))
    ck.note("simulated_histories_skipped_as_ambiguous", sum(1 for ln in sim if ln["obs"]["amb"]))
    groups = core.group_allowed(lines)
    ck.note("histories", len(groups))
    ck.note("histories_with_two_accepted_outcomes", sum(1 for g in groups if len(g[1]) > 1))
    ck.note("histories_with_callback_reactions", sum(1 for g in groups if any(at[1] == 1 for at in g[1][0]["at"])))
    ck.note("histories_with_reentrant_emission", sum(1 for g in groups if any(at[1] == 1 and at[2] == 1 for at in g[1][0]["at"])))
    replay_groups(ck, groups, (lambda scn: _variants(scn, tier)))
    ck.nontrivial = sum(1 for g in groups if _nontrivial(*g))
    # Binding C: adjacent calls of reaction-free histories issued concurrently on two threads (DetSched), judged
    # against the two sequential histories the specification exported
    # (five pairs per kind since subscribe || unsubscribe was added: 15 / 200 scenarios per pair as before)
    want, bound, per_level = (75, 2, (1, 40, 40)) if tier == "quick" else (1000, 3, (1, 80, 120, 60))
    scen, total = conc_scenarios(lines, kind, want, ck.seed)
    execs = 0
    for sc_ in scen:
        for v in _variants(sc_["scn"], tier)[:1 if tier == "quick" else 2]:
            k, fails = conc_judge((sc_["scn"], sc_["i"], sc_["allowed"], v, bound, per_level, ck.seed))
            execs += k
            for f in fails:
                ck.fail(f)
    ck.impl += execs
    ck.note("concurrent_scenarios", {"driven": len(scen), "available": total, "schedules_executed": execs, "preemption_bound": bound,
                                     "pairs": sorted({"%s || %s" % tuple(x["pair"]) for x in scen})})
    if not scen or not execs:
        raise RuntimeError("no concurrent scenario was driven")
    for g in groups[:: max(1, len(groups) // 5)][:5]:
        ck.sample({"scn": g[0], "allowed": [{k: o[k] for k in ("res", "steps", "logs")} for o in g[1]]})
    ck.rule = ("call histories of subscribe (with / without on_error), unsubscribe, on_next, on_error, on_completed, dispose at "
               "top level and from inside observer callbacks, enumerated lazily by TLC on Subjects.tla (Kind=%s); each "
               "performed on the real subject under 2-4 value/error/observer-form variants (one always makes the last emitted value None), compared after every top-level "
               "call; non-trivial = some observer received something and the history has a callback reaction, an "
               "unsubscription or a late subscription" % kind)
    ck.assumptions = [
        "single thread; subscribers attach through the public Observable.subscribe (auto-detaching observer)",
        "values are compared by identity; the first eight value tokens are a rotation of None, 0, '', False, [], (), {}, 0.0; per history one variant makes the last emitted value None, another the first",
        "subscribe on a disposed subject: DisposedException raised to the caller or delivered to the subscriber's on_error are both accepted (DESIGN D.8)",
        "dispose() of the subject from inside a callback is not driven (the statement does not say whether the remaining members of the snapshot still receive the notification)",
        "observer callbacks do not raise (fault dimension belongs to C09)",
        "re-entrant emission is specified as call order (queued); the real depth-first delivery is a known finding",
        "threads: only a subscribe racing with one emitting call or with the unsubscription of another observer, and (AsyncSubject) on_next racing with on_completed, are driven "
        "(two logical threads under DetSched, switch points at every shim lock operation and at call-bearing lines of the subject/observer "
        "modules, preemption bound 2 quick / 3 thorough); the outcome must equal the specification's outcome for one of the two sequential orders",
        "dispose() from inside a callback: any subset of the observers whose turn has not come may be cut off; whoever is served gets the notification as made at the call",
    ]
    return ck.finish()


def _fmt(consts):
    return json.dumps({k: (sorted(v) if isinstance(v, (set, frozenset)) else v) for k, v in consts.items()}, sort_keys=True)


# =============================================================================================
# ReplaySubject (SubjectsReplay.tla)
REPLAY_INVS = ["TypeOK", "Grammar", "RetainedOK", "FedOK", "ReplayThenLive", "Complete", "Silenced", "NoDuplicates",
               "DisposedRaises", "ZeroBuffer"]
NOLIMIT = 99
_BIG = _FALSY + list(range(1, 41))      # 48 pairwise distinguishable objects (ints 1..40 are interned singletons)


def _rtok_to_val(tok, salt, big=_BIG):
    # tokens 0..7 (top-level on_next calls) rotate over the eight falsy values, the rest are plain ints
    # (big=_EQUAL: the same positions hold pairwise == but distinct objects)
    i = tok if tok < 100 else 20 + (tok - 100)
    return big[(i + salt) % 8] if i < 8 else big[i]


def _rval_to_tok(v, salt, big=_BIG):
    idx = _ident(big, v)
    if idx < 0:
        return -1
    i = (idx - salt) % 8 if idx < 8 else idx
    return i if i < 20 else 100 + (i - 20)


def perform_replay(scn: Dict[str, Any], variant: Dict[str, Any]) -> Dict[str, Any]:
    """Run a SubjectsReplay history on a real ReplaySubject whose scheduler is a virtual-time one."""
    from datetime import timedelta

    from reactivex.internal import DisposedException
    from reactivex.scheduler import HistoricalScheduler, VirtualTimeScheduler
    from reactivex.subject import ReplaySubject
    from reactivex.testing import TestScheduler

    salt = variant.get("salt", 0)
    big = _EQUAL if variant.get("profile") == "equal" else _BIG
    hist = variant.get("clock") == "hist"
    eager = bool(scn.get("eager"))
    # Eager: the default scheduler (current-thread trampoline) - every call returns after its deliveries
    sched = None if eager else (HistoricalScheduler() if hist else TestScheduler())
    unit = variant.get("unit", 1.0)     # seconds of virtual time per model tick

    def rel(d):
        return timedelta(seconds=d * unit) if (hist or variant.get("window_as") == "timedelta") else float(d * unit)

    bs = None if scn["bs"] == NOLIMIT else scn["bs"]
    win = None if scn["win"] == NOLIMIT else rel(scn["win"])
    subject = ReplaySubject(bs, win, sched)
    errs = _errors(variant)
    ms = scn["ms"]
    nids = 2 * ms
    logs: Dict[int, List[Any]] = {i: [] for i in range(1, nids + 1)}
    subs: Dict[int, Any] = {}
    disp_delivered: Dict[int, bool] = {}
    res: List[Any] = []
    problems: List[str] = []
    nsub = [0]

    def subscribe(o, plan):
        count = [0]

        def react():
            count[0] += 1
            if plan[0] != count[0]:
                return
            what = plan[1]
            try:
                if what == "unsub":
                    subs[o].dispose()
                elif what == "next":
                    subject.on_next(_rtok_to_val(100 + o, salt, big))
                elif what == "completed":
                    subject.on_completed()
                elif what == "sub":
                    subscribe(ms + o, [0, "none"])
            except Exception as e:  # the model has no raising reaction
                problems.append("reaction %s of %d raised %s" % (what, o, type(e).__name__))

        def on_next(v):
            logs[o].append(["N", _rval_to_tok(v, salt, big)])
            react()

        def on_error(e):
            if isinstance(e, DisposedException):
                disp_delivered[o] = True
                logs[o].append(["E", DISPOSED_TOK])
            else:
                logs[o].append(["E", _ident(errs, e)])
            react()

        def on_completed():
            logs[o].append(["C", 0])
            react()

        subs[o] = subject.subscribe(on_next, on_error, on_completed)

    def lens():
        return [len(logs[i]) for i in range(1, nids + 1)]

    steps: List[List[int]] = []
    for cmd in scn["top"]:
        c, a = cmd["c"], cmd["a"]
        out: Any = 0
        try:
            if c == "sub":
                nsub[0] += 1
                if nsub[0] != a:
                    problems.append("subscription id")
                subscribe(a, cmd["p"])
                if disp_delivered.get(a):
                    out = 2
            elif c == "unsub":
                subs[a].dispose()
            elif c == "next":
                subject.on_next(_rtok_to_val(a, salt, big))
            elif c == "error":
                subject.on_error(errs[a])
            elif c == "completed":
                subject.on_completed()
            elif c == "dispose":
                subject.dispose()
            elif c == "drain":
                VirtualTimeScheduler.start(sched)
            elif c == "tick":
                sched.advance_by(timedelta(seconds=a * unit) if hist else float(a * unit))
            else:
                raise ValueError(c)
        except DisposedException:
            out = 1
        except Exception as e:
            out = "X:" + type(e).__name__
        res.append(out)
        steps.append(lens())
    try:
        if not eager:
            VirtualTimeScheduler.start(sched)     # the final run of the scheduler (FinalDrain)
    except Exception as e:
        problems.append("final drain raised " + type(e).__name__)
    return {"res": res, "steps": steps, "logs": [logs[i] for i in range(1, nids + 1)], "problems": problems}


def _replay_same(scn, got, exp):
    """Asserted projection: outcome of every call, per-subscriber log lengths at the points where the
    scheduler has run (drain / tick), final logs.  Between them the statement pins nothing."""
    if got["res"] != exp["res"] or got["logs"] != exp["logs"]:
        return False
    for i, cmd in enumerate(scn["top"]):
        if (cmd["c"] in ("drain", "tick") or scn.get("eager")) and got["steps"][i] != exp["steps"][i]:
            return False
    return True


def judge_replay(scn, allowed, variant):
    got = perform_replay(scn, variant)
    if not got["problems"] and any(_replay_same(scn, got, e) for e in allowed):
        return None
    best = allowed[0]
    exp_l, got_l = best["logs"], got["logs"]
    kinds = []
    for a, b in zip(exp_l, got_l):
        if a == b:
            continue
        ea, eb = [json.dumps(x) for x in a], [json.dumps(x) for x in b]
        if len(set(eb)) < len(eb):
            kinds.append("duplicate")
        elif sorted(ea) == sorted(eb):
            kinds.append("reordered")
        elif set(eb) < set(ea):
            kinds.append("missing")
        elif set(ea) < set(eb):
            kinds.append("extra")
        else:
            kinds.append("different")
    raised = [r for r in got["res"] if isinstance(r, str)]
    return {"engine": "subjects", "kind": "replay", "variant": variant, "scn": scn, "expected": allowed, "observed": got,
            "failure": "raised" if raised else ("script_diverged" if got["problems"] else "mismatch"),
            "log_defects": sorted(set(kinds)), "bs": scn["bs"], "win": scn["win"], "clock": variant.get("clock", "test"),
            "has_reaction": any(c["p"][0] for c in scn["top"]), "eager": bool(scn.get("eager"))}


def export_replay(ck, consts, label, simulate=None, depth=None, timeout=900, xmx="2g"):
    cfg = tlc.cfg_text(consts, invariants=REPLAY_INVS + ["Export"])
    res = tlc.run("SubjectsReplay", cfg, workers=1, timeout=timeout, simulate=simulate, depth=depth,
                  seed=(ck.seed + 13) if simulate else None, xmx=xmx, allow_violation=False)
    ck.add_tlc(res, label)
    return res.lines


def _job_replay(args):
    scn, allowed, variants = args
    return [f for f in (judge_replay(scn, allowed, v) for v in variants) if f]


REPLAY_TOP = {"sub", "unsub", "next", "error", "completed", "dispose", "drain", "tick"}
# codes 100 * buffer_size + window, 99 = None
CONFS_Q = {9999, 99, 199, 201, 9901, 102}
CONFS_T = {9999, 99, 199, 299, 9900, 9901, 9902, 100, 101, 102, 201, 202, 302, 399}
PLANS_ALL = {11, 12, 13, 14, 21, 22, 23, 24}
REPLAY_TIERS = {
    "quick": {
        "exhaustive": [
            ("no callback reactions", dict(MaxCmds=4, MaxSubs=2, Ticks={1, 2}, Confs=CONFS_Q, PlanCodes=set(), MaxNext=3, MaxTerm=1,
                                           MaxTick=2, MaxDrain=1, MaxUnsub=1, Eager=False, TopCmds=REPLAY_TOP)),
            ("callback reactions", dict(MaxCmds=4, MaxSubs=2, Ticks={1}, Confs={101}, PlanCodes={11, 12, 14}, MaxNext=2,
                                        MaxTerm=1, MaxTick=1, MaxDrain=1, MaxUnsub=1, Eager=False, TopCmds=REPLAY_TOP - {"dispose", "error"})),
        ],
        "eager": [
            ("default scheduler (trampoline)", dict(MaxCmds=4, MaxSubs=2, Ticks={1}, Confs={199, 9999}, PlanCodes={12}, MaxNext=3, MaxTerm=1,
                                                    MaxTick=1, MaxDrain=1, MaxUnsub=1, Eager=True, TopCmds=REPLAY_TOP - {"drain", "tick"})),
        ],
        "simulate": (dict(MaxCmds=9, MaxSubs=3, Ticks={1, 2, 3}, Confs=CONFS_T, PlanCodes={11, 21, 31, 12, 14, 22}, MaxNext=5, MaxTerm=2, MaxTick=4,
                          MaxDrain=3, MaxUnsub=2, Eager=False, TopCmds=REPLAY_TOP - {"dispose"}), 600, 200),
    },
    "thorough": {
        "exhaustive": [
            ("no callback reactions", dict(MaxCmds=6, MaxSubs=2, Ticks={1, 2}, Confs=CONFS_T, PlanCodes=set(), MaxNext=3, MaxTerm=1,
                                           MaxTick=2, MaxDrain=1, MaxUnsub=1, Eager=False, TopCmds=REPLAY_TOP)),
            ("callback reactions", dict(MaxCmds=4, MaxSubs=2, Ticks={1, 2}, Confs=CONFS_Q, PlanCodes=PLANS_ALL - {23}, MaxNext=3, MaxTerm=1,
                                        MaxTick=2, MaxDrain=1, MaxUnsub=1, Eager=False, TopCmds=REPLAY_TOP)),
            ("three subscribers", dict(MaxCmds=6, MaxSubs=3, Ticks={1}, Confs={9999, 101, 200}, PlanCodes={11}, MaxNext=2, MaxTerm=1,
                                       MaxTick=1, MaxDrain=1, MaxUnsub=1, Eager=False, TopCmds=REPLAY_TOP - {"dispose"})),
        ],
        "eager": [
            ("default scheduler (trampoline)", dict(MaxCmds=5, MaxSubs=2, Ticks={1}, Confs={9999, 99, 199, 299}, PlanCodes={12, 13, 14, 22, 24}, MaxNext=3,
                                                    MaxTerm=1, MaxTick=1, MaxDrain=1, MaxUnsub=1, Eager=True, TopCmds=REPLAY_TOP - {"drain", "tick"})),
        ],
        "simulate": (dict(MaxCmds=14, MaxSubs=4, Ticks={1, 2, 3}, Confs=CONFS_T, PlanCodes=PLANS_ALL | {31, 32, 34}, MaxNext=8, MaxTerm=2,
                          MaxTick=5, MaxDrain=4, MaxUnsub=3, Eager=False, TopCmds=REPLAY_TOP - {"dispose"}), 20000, 300),
    },
}


def _replay_variants(tier):
    def f(scn):
        h = len(json.dumps(scn, sort_keys=True))
        toks = [c["a"] for c in scn["top"] if c["c"] == "next" and c["a"] < 8]
        last, first = (toks[-1], toks[0]) if toks else (1, 1)
        none_last, none_first, other = (0 - last) % 8, (0 - first) % 8, (1 + h % 7 - last) % 8   # salts: that token is None / another falsy value
        nvals = sum(1 for c in scn["top"] if c["c"] == "next") + sum(1 for c in scn["top"] if c["c"] == "sub" and c["p"][1] == "next")
        # equal-but-distinguishable values (1, True, 1.0 ...) where the history can hold two values
        eq = [dict(profile="equal", salt=h % 8, clock="current" if scn.get("eager") else ("hist" if h % 2 else "test"), err="plain")] if nvals >= 2 else []
        if scn.get("eager"):     # no virtual clock: one run per value rotation
            return [dict(salt=none_last, clock="current", err="plain"), dict(salt=other, clock="current", err="sized")] + eq
        vs = [dict(salt=none_last, clock="test", err="plain"), dict(salt=other if h % 2 else none_first, clock="hist", err="sized")]
        if tier != "quick":
            vs.append(dict(salt=none_first, clock="test", window_as="timedelta", unit=0.25))
            vs.append(dict(salt=other, clock="hist", err="plain"))
        return vs + eq
    return f


def run_replay(pid: str, tier: str) -> int:
    from concurrent.futures import ThreadPoolExecutor
    ck = core.Check(pid, tier)
    plan = REPLAY_TIERS[tier]
    lines: List[Any] = []
    with ThreadPoolExecutor(max_workers=4) as ex:
        futs = [ex.submit(export_replay, ck, c, "exhaustive: " + label + " " + _fmt(c), None, None, 3000)
                for label, c in plan["exhaustive"] + plan["eager"]]
        sconsts, num, depth = plan["simulate"]
        fsim = ex.submit(export_replay, ck, sconsts, "simulate " + _fmt(sconsts), "num=%d" % num, depth, 3000)
        for f in futs:
            lines += f.result()
        sim = fsim.result()
    ck.exhaustive = True
    exh_groups = core.group_allowed(lines)
    wit = {k: sum(1 for ln in lines if ln["obs"][k]) for k in ("edge", "aged", "same", "over")}
    wit["callback_reaction"] = sum(1 for ln in lines if any(c["p"][0] for c in ln["scn"]["top"]))
    wit["call_on_disposed_subject"] = sum(1 for ln in lines if any(r in (1, 2) for r in ln["obs"]["res"]))
    ck.note("reachability_witnesses", {"write_exactly_window_old_at_subscription": wit["edge"], "write_older_than_window": wit["aged"],
                                       "subscription_at_the_instant_of_a_write": wit["same"], "more_writes_than_buffer_size": wit["over"],
                                       "callback_reaction": wit["callback_reaction"], "call_on_disposed_subject": wit["call_on_disposed_subject"]})
    if not all(wit.values()):
        raise RuntimeError("vacuous exhaustive run: %r" % wit)
    # the claim behind the `amb` flag (used to filter simulated behaviours): unflagged histories have one accepted observation
    bad = sum(1 for scn, allowed in exh_groups if len(allowed) > 1 and not allowed[0]["amb"])
    if bad:
        raise RuntimeError("%d exhaustively enumerated histories not flagged amb have several accepted observations" % bad)
    lines += [ln for ln in sim if not ln["obs"]["amb"]]
    ck.note("simulated_histories", len(sim))
    ck.note("simulated_histories_skipped_as_ambiguous", sum(1 for ln in sim if ln["obs"]["amb"]))
    groups = core.group_allowed(lines)
    ck.note("histories", len(groups))
    ck.note("histories_with_several_accepted_observations", sum(1 for g in groups if len(g[1]) > 1))
    ck.note("histories_with_callback_reactions", sum(1 for g in groups if any(c["p"][0] for c in g[0]["top"])))
    ck.note("configurations", sorted({"buffer_size=%s window=%s" % tuple("None" if x == NOLIMIT else x for x in (g[0]["bs"], g[0]["win"])) for g in groups}))
    vf = _replay_variants(tier)
    items = [(scn, allowed, vf(scn)) for scn, allowed in groups]
    for (scn, allowed, vs), fails in zip(items, core.parallel_map(_job_replay, items, procs=6, chunk=300)):
        ck.impl += len(vs)
        for f in fails:
            ck.fail(f)

    # Binding C: a subscribe and the adjacent emitting call of reaction-free exhaustive histories on two threads
    want, bound, per_level = (24, 2, (1, 30, 30)) if tier == "quick" else (300, 3, (1, 80, 120, 60))
    scen, total = rconc_scenarios(lines, want, ck.seed)
    execs = 0
    for sc_ in scen:
        v = dict(salt=0, profile="equal" if sc_["i"] % 2 else "falsy")
        k, fails = rconc_judge((sc_["scn"], sc_["i"], sc_["allowed"], v, bound, per_level, ck.seed))
        execs += k
        for f in fails:
            ck.fail(f)
    ck.impl += execs
    ck.note("concurrent_scenarios", {"driven": len(scen), "available": total, "schedules_executed": execs, "preemption_bound": bound,
                                     "pairs": sorted({"%s || %s" % tuple(x["pair"]) for x in scen})})
    if not scen or not execs:
        raise RuntimeError("no concurrent scenario was driven")

    def nontrivial(scn, allowed):   # some subscriber was replayed a retained value: its log starts with a value written before it subscribed
        seen_next = 0
        for c in scn["top"]:
            if c["c"] == "next":
                seen_next += 1
            if c["c"] == "sub" and seen_next and c["a"] <= len(allowed[0]["logs"]):
                lg = allowed[0]["logs"][c["a"] - 1]
                if lg and lg[0][0] == "N" and lg[0][1] <= seen_next:
                    return True
        return False
    ck.nontrivial = sum(1 for g in groups if nontrivial(*g))
    ck.note("histories_where_trimming_dropped_a_value", sum(1 for g in groups if _trimmed(*g)))
    for g in groups[:: max(1, len(groups) // 5)][:5]:
        ck.sample({"scn": g[0], "allowed": [{k: o[k] for k in ("res", "steps", "logs")} for o in g[1]]})
    ck.rule = ("histories of subscribe (with a per-subscriber callback plan), unsubscribe, on_next, on_error, on_completed, dispose, "
               "run-the-scheduler and advance_by at virtual times x (buffer_size, window) configurations, enumerated lazily by TLC on "
               "SubjectsReplay.tla; each performed on a real ReplaySubject on TestScheduler and on HistoricalScheduler (datetime clock), "
               "plus count-only configurations on the default current-thread scheduler (every call followed by its deliveries); "
               "non-trivial = some subscriber was replayed at least one value written before it subscribed")
    ck.assumptions = [
        "the subject's scheduler is a virtual-time scheduler (verified separately: C28); 1 model tick = 1 s (thorough also 0.25 s, window given as timedelta)",
        "per-subscriber logs are compared where the scheduler has run (after drain / advance_by and at the end); that nothing is delivered inside subscribe()/on_next() is not asserted",
        "the relative order in which different subscribers are served is the scheduler's choice (all interleavings accepted)",
        "dispose() while deliveries are pending is not driven; subscribe on a disposed subject may raise or deliver the DisposedException",
        "values compared by identity over a pool starting with None, 0, '', False, [], (), {}, 0.0; one more run per history with pairwise == but distinct values (1, True, 1.0, Fraction(1) ...)",
        "threads: only a subscribe racing with the adjacent on_next / on_error / on_completed is driven (two logical threads under DetSched, switch points at the shim lock "
        "operations and call-bearing lines of replaysubject.py / subject.py / scheduledobserver.py, preemption bound 2 quick / 3 thorough, TestScheduler run afterwards); the outcome must be "
        "the specification's outcome for one of the two sequential orders",
    ]
    return ck.finish()


def _trimmed(scn, allowed):
    """A subscriber that arrived after k writes was replayed fewer than k values."""
    k = 0
    for c in scn["top"]:
        if c["c"] == "next":
            k += 1
        if c["c"] == "sub" and k:
            lg = allowed[0]["logs"][c["a"] - 1] if c["a"] <= len(allowed[0]["logs"]) else []
            if sum(1 for x in lg if x[0] == "N" and x[1] <= k) < k:
                return True
    return False


def replay_replay(rec) -> int:
    if rec.get("engine") == "replay-conc":
        return rconc_replay(rec)
    f = judge_replay(rec["scn"], rec["expected"], rec["variant"])
    print(json.dumps(f, default=str)[:3000] if f else "replay: observation allowed by the spec")
    return 1 if f else 0


# =============================================================================================
# Binding C: two calls of a history issued CONCURRENTLY on two threads (DetSched), judged against the
# sequential histories of Subjects.tla: the outcome must be the one the spec exports for `... A B ...` or for
# `... B A ...` (each call takes effect at one point between its invocation and its return).
# Only pairs whose effects the statement orders for every interleaving are driven: a subscribe racing with an
# emitting call, and (AsyncSubject) an on_next racing with on_completed.  Two racing emitting calls on a plain
# Subject are NOT driven (their deliveries run outside the lock and may interleave per observer - C43's matter).
CONC_FOCUS = ("reactivex/subject/subject.py", "reactivex/subject/behaviorsubject.py", "reactivex/subject/asyncsubject.py",
              "reactivex/subject/innersubscription.py", "reactivex/observer/observer.py")
# A subscribe racing with the unsubscription of ANOTHER observer (both orders give the same membership; a lost or a
# resurrected subscriber shows in the emissions of the sequential suffix) - the two calls update the observer list
# under different locks (InnerSubscription.lock / Subject.lock).
CONC_PAIRS = {("sub", "completed"), ("sub", "error"), ("sub", "next"), ("next", "completed"), ("unsub", "sub"), ("sub", "unsub")}


def _conc_patches():
    from harness import shims
    return {"reactivex.subject.subject": {"threading": shims.threading_ns},
            "reactivex.subject.innersubscription": {"threading": shims.threading_ns},
            "reactivex.observable.observable": {"threading": shims.threading_ns}}


def conc_scenarios(lines, kind, want, seed):
    """Pairs of exported histories without callback reactions that differ by swapping two adjacent top-level calls
    (one of CONC_PAIRS): the concurrent scenario and its accepted sequential outcomes.  Codec-level pairing only."""
    import random
    plain = {}
    for ln in lines:
        scn, obs = ln["scn"], ln["obs"]
        if obs["amb"] or any(per for per in scn["body"]) or any(at[1] for at in obs["at"]):
            continue
        plain[json.dumps(scn["top"])] = ln
    out = []
    for key, ln in plain.items():
        top = ln["scn"]["top"]
        for i in range(len(top) - 1):
            a, b = top[i], top[i + 1]
            if (a["c"], b["c"]) not in CONC_PAIRS:
                continue
            if (a["c"], b["c"]) == ("next", "completed") and kind != "async":
                continue
            if (a["c"], b["c"]) == ("sub", "next") and kind == "async":
                continue
            sw = top[:i] + [b, a] + top[i + 2:]
            other = plain.get(json.dumps(sw))
            if other is None:
                continue
            nlive = ln["obs"]["steps"][i - 1] if i else []
            out.append({"scn": ln["scn"], "i": i, "pair": [a["c"], b["c"]], "allowed": [ln["obs"], other["obs"]],
                        "weight": len(nlive),
                        # an emitting call after the pair shows who is subscribed once both calls have returned
                        "emits_after": any(c["c"] in EMITS for c in top[i + 2:])})
    rnd = random.Random(seed)
    rnd.shuffle(out)
    # prefer scenarios with observers already attached and the subject still live (more to get wrong), one stratum per pair
    by = {}
    for s in out:
        by.setdefault(tuple(s["pair"]), []).append(s)
    chosen = []
    per = max(1, want // max(1, len(by)))
    for pair, ss in sorted(by.items()):
        if "unsub" in pair:     # membership-only pairs: nothing is observable without a later emission
            ss = [s for s in ss if s["emits_after"]]
        ss.sort(key=lambda s: -s["weight"])
        chosen += ss[:per]
    return chosen, len(out)


def conc_perform(scn, i, variant, choose, max_steps=6000):
    """prefix sequentially, calls i and i+1 on two logical threads under the schedule `choose`, suffix sequentially"""
    from harness import fastsched, shims
    from reactivex.internal import DisposedException
    from reactivex.subject import AsyncSubject, BehaviorSubject, Subject

    pool = _pool(variant)
    errs = _errors(variant)
    kind = scn["kind"]
    top = scn["top"]
    state: Dict[str, Any] = {}

    def build(ds):
        subject = Subject() if kind == "subject" else (BehaviorSubject(pool[0]) if kind == "behavior" else AsyncSubject())
        logs: Dict[int, List[Any]] = {}
        subs: Dict[int, Any] = {}
        res: Dict[int, Any] = {}
        state.update(subject=subject, logs=logs, subs=subs, res=res)

        def callbacks(o):
            def on_next(v):
                logs[o].append(["N", _ident(pool, v)])

            def on_error(e):
                logs[o].append(["E", DISPOSED_TOK if isinstance(e, DisposedException) else _ident(errs, e)])

            def on_completed():
                logs[o].append(["C", 0])
            return on_next, on_error, on_completed

        def do(k):
            cmd = top[k]
            c, a = cmd["c"], cmd["a"]
            out: Any = 0
            try:
                if c in ("sub", "subnh"):
                    logs[a] = []
                    on_next, on_error, on_completed = callbacks(a)
                    subs[a] = subject.subscribe(on_next, None if c == "subnh" else on_error, on_completed)
                    if logs[a] and logs[a][-1] == ["E", DISPOSED_TOK]:
                        out = 2
                elif c == "unsub":
                    subs[a].dispose()
                elif c == "next":
                    subject.on_next(pool[a])
                elif c == "error":
                    subject.on_error(errs[a])
                elif c == "completed":
                    subject.on_completed()
                elif c == "dispose":
                    subject.dispose()
            except DisposedException:
                out = 1
            except Exception as e:
                out = "X:" + type(e).__name__
            res[k] = out
        state["do"] = do
        for k in range(i):
            do(k)
        ds.spawn("TA", lambda: do(i))
        ds.spawn("TB", lambda: do(i + 1))

    ds = fastsched.run_execution(build, choose, CONC_FOCUS, max_steps, reuse_threads=True)
    hung = ds.deadlocked or ds.step_limit_hit
    crashed = [repr(t.exc) for t in ds.threads if t.exc is not None]
    if not hung and not crashed:
        for k in range(i + 2, len(top)):
            state["do"](k)
    logs, res = state["logs"], state["res"]
    n = max([0] + list(logs))
    return ds, {"res": [res.get(k) for k in range(len(top))], "logs": [logs.get(o, []) for o in range(1, n + 1)],
                "hung": hung, "crashed": crashed}


def _conc_same(scn, i, got, exp, swapped):
    """got vs one sequential outcome: result of every call (per call, not per position) and the final logs"""
    order = list(range(len(scn["top"])))
    if swapped:
        order[i], order[i + 1] = i + 1, i
    exp_res = {k: exp["res"][pos] for pos, k in enumerate(order)}
    if any(got["res"][k] != exp_res[k] for k in range(len(scn["top"]))):
        return False
    n = len(got["logs"])
    return got["logs"] == exp["logs"][:n] and not any(exp["logs"][n:])


def conc_judge(item):
    """explore the schedules of one concurrent scenario; returns (executions, failure records)"""
    from harness import fastsched, shims
    scn, i, allowed, variant, bound, per_level, seed = item
    fails = []
    seen_sig = set()
    n = 0
    with shims.patched(extra=_conc_patches(), only=list(_conc_patches())):
        ex = fastsched.LevelExplorer(bound=bound, per_level=per_level, random_schedules=0, seed=seed)
        last = {}

        def run_one(choose):
            ds, got = conc_perform(scn, i, variant, choose)
            last["got"] = got
            return ds
        for ds in ex.explore(run_one):
            n += 1
            got = last["got"]
            ok = not got["hung"] and not got["crashed"] and (
                _conc_same(scn, i, got, allowed[0], False) or _conc_same(scn, i, got, allowed[1], True))
            sig = json.dumps([got["logs"], got["res"], got["hung"]], default=str)
            if not ok and len(fails) < 4 and sig not in seen_sig:
                seen_sig.add(sig)
                exp_kinds = {json.dumps(_terminal_kinds(e["logs"])) for e in allowed}
                top = scn["top"]
                pair = [top[i]["c"], top[i + 1]["c"]]
                early = {c["a"] for c in top[:i] if c["c"] == "sub"}        # subscribed before the racing pair
                racer = top[i]["a"] if pair[0] == "sub" else None
                glogs = got["logs"] + [[]] * 8

                def others_as(e):
                    return all(glogs[o] == lg for o, lg in enumerate(e["logs"]) if o + 1 != racer)
                # witnesses of the two races of the unchanged tree (narrow known findings)
                racer_c_for_e = bool(pair == ["sub", "error"] and racer and glogs[racer - 1][-1:] == [["C", 0]]
                                     and others_as(allowed[0]) and not got["hung"] and not got["crashed"]
                                     and all(r == 0 for r in got["res"]))
                second = allowed[1]     # the order "completed, then next": the value is ignored
                late_only = bool(pair == ["next", "completed"] and not got["hung"] and not got["crashed"]
                                 and all(glogs[o - 1] == second["logs"][o - 1] for o in early)
                                 and all(r == 0 for r in got["res"]))
                fails.append({"engine": "subjects-conc", "kind": scn["kind"], "variant": variant, "scn": scn, "i": i,
                              "pair": [scn["top"][i]["c"], scn["top"][i + 1]["c"]],
                              "pair_name": scn["top"][i]["c"] + "||" + scn["top"][i + 1]["c"],
                              "expected": [{k: e[k] for k in ("res", "logs")} for e in allowed], "observed": got,
                              "failure": "hang" if got["hung"] else ("crashed" if got["crashed"] else "not_linearizable"),
                              "schedule": [d[1] for d in ds.decisions],
                              "preemptions": sum(1 for d in ds.decisions if d[2] != -1 and d[1] != d[2]),
                              "terminal_kinds_unexpected": json.dumps(_terminal_kinds(got["logs"])) not in exp_kinds,
                              "racing_subscriber_completed_instead_of_error": racer_c_for_e,
                              "only_later_subscribers_see_the_racing_value": late_only,
                              "err_profile": variant.get("err", "plain")})
    return n, fails


def conc_replay(rec) -> int:
    """re-run the recorded schedule of a concurrent failure"""
    from harness import shims
    pre = rec["schedule"]
    with shims.patched(extra=_conc_patches(), only=list(_conc_patches())):
        from harness import fastsched
        ds, got = conc_perform(rec["scn"], rec["i"], rec["variant"], fastsched.LevelExplorer._chooser(pre))
    ok = not got["hung"] and not got["crashed"] and (
        _conc_same(rec["scn"], rec["i"], got, rec["expected"][0], False) or _conc_same(rec["scn"], rec["i"], got, rec["expected"][1], True))
    print("replay: " + ("one of the two sequential outcomes" if ok else "NOT a sequential outcome: " + json.dumps(got, default=str)[:1500]))
    return 0 if ok else 1


# =============================================================================================
# Binding C for the ReplaySubject: a subscribe and the adjacent emitting call (on_next / on_error / on_completed) of an
# exported reaction-free SubjectsReplay history issued on two threads (DetSched); prefix and suffix (including every
# run of the virtual-time scheduler) sequentially.  "Replay, then terminal if one occurred, then every later
# notification, nothing duplicated or reordered" holds for both orders of the two calls, so the final per-subscriber
# logs and the call outcomes must be those the specification exported for `... A B ...` or for `... B A ...`.
RCONC_FOCUS = ("reactivex/subject/replaysubject.py", "reactivex/subject/subject.py", "reactivex/observer/scheduledobserver.py")
RCONC_PAIRS = {("sub", "next"), ("sub", "completed"), ("sub", "error"), ("next", "sub"), ("completed", "sub"), ("error", "sub")}


def _rconc_patches():
    from harness import shims
    return {"reactivex.subject.subject": {"threading": shims.threading_ns},
            "reactivex.observer.scheduledobserver": {"threading": shims.threading_ns},
            "reactivex.observable.observable": {"threading": shims.threading_ns}}


def rconc_scenarios(lines, want, seed):
    import random
    plain = {}
    for ln in lines:
        scn, obs = ln["scn"], ln["obs"]
        if obs["amb"] or scn.get("eager") or any(c["p"][0] for c in scn["top"]):
            continue
        plain.setdefault(json.dumps([scn["bs"], scn["win"], scn["top"]]), []).append(ln)
    out = []
    for key, lns in plain.items():
        scn = lns[0]["scn"]
        top = scn["top"]
        for i in range(len(top) - 1):
            a, b = top[i], top[i + 1]
            if (a["c"], b["c"]) not in RCONC_PAIRS or a["c"] != "sub":     # each unordered pair once (the swap is the other order)
                continue
            other = plain.get(json.dumps([scn["bs"], scn["win"], top[:i] + [b, a] + top[i + 2:]]))
            if other is None:
                continue
            retained = sum(1 for c in top[:i] if c["c"] == "next")
            out.append({"scn": scn, "i": i, "pair": [a["c"], b["c"]], "allowed": [[l["obs"] for l in lns], [l["obs"] for l in other]],
                        "weight": retained})
    rnd = random.Random(seed)
    rnd.shuffle(out)
    by = {}
    for s in out:
        by.setdefault(tuple(s["pair"]), []).append(s)
    chosen = []
    per = max(1, want // max(1, len(by)))
    for pair, ss in sorted(by.items()):
        ss.sort(key=lambda s: -min(s["weight"], 2))      # a backlog to replay (values written before the racing subscribe)
        chosen += ss[:per]
    return chosen, len(out)


def rconc_perform(scn, i, variant, choose, max_steps=8000):
    from harness import fastsched
    from reactivex.internal import DisposedException
    from reactivex.scheduler import VirtualTimeScheduler
    from reactivex.subject import ReplaySubject
    from reactivex.testing import TestScheduler

    salt = variant.get("salt", 0)
    big = _EQUAL if variant.get("profile") == "equal" else _BIG
    errs = _errors(variant)
    top = scn["top"]
    state: Dict[str, Any] = {}

    def build(ds):
        sched = TestScheduler()
        bs = None if scn["bs"] == NOLIMIT else scn["bs"]
        win = None if scn["win"] == NOLIMIT else float(scn["win"])
        subject = ReplaySubject(bs, win, sched)
        logs: Dict[int, List[Any]] = {}
        subs: Dict[int, Any] = {}
        res: Dict[int, Any] = {}
        state.update(logs=logs, res=res, sched=sched)

        def do(k):
            cmd = top[k]
            c, a = cmd["c"], cmd["a"]
            out: Any = 0
            try:
                if c == "sub":
                    lg = logs[a] = []
                    subs[a] = subject.subscribe(lambda v: lg.append(["N", _rval_to_tok(v, salt, big)]),
                                                lambda e: lg.append(["E", DISPOSED_TOK if isinstance(e, DisposedException) else _ident(errs, e)]),
                                                lambda: lg.append(["C", 0]))
                    if lg and lg[-1] == ["E", DISPOSED_TOK]:
                        out = 2
                elif c == "unsub":
                    subs[a].dispose()
                elif c == "next":
                    subject.on_next(_rtok_to_val(a, salt, big))
                elif c == "error":
                    subject.on_error(errs[a])
                elif c == "completed":
                    subject.on_completed()
                elif c == "dispose":
                    subject.dispose()
                elif c == "drain":
                    VirtualTimeScheduler.start(sched)
                elif c == "tick":
                    sched.advance_by(float(a))
                else:
                    raise ValueError(c)
            except DisposedException:
                out = 1
            except Exception as e:
                out = "X:" + type(e).__name__
            res[k] = out
        state["do"] = do
        for k in range(i):
            do(k)
        ds.spawn("TA", lambda: do(i))
        ds.spawn("TB", lambda: do(i + 1))

    ds = fastsched.run_execution(build, choose, RCONC_FOCUS, max_steps, reuse_threads=True)
    hung = ds.deadlocked or ds.step_limit_hit
    crashed = [repr(t.exc) for t in ds.threads if t.exc is not None]
    if not hung and not crashed:
        for k in range(i + 2, len(top)):
            state["do"](k)
        try:
            VirtualTimeScheduler.start(state["sched"])
        except Exception as e:
            crashed.append("final drain raised " + type(e).__name__)
    logs, res = state["logs"], state["res"]
    nids = 2 * scn["ms"]
    return ds, {"res": [res.get(k) for k in range(len(top))], "logs": [logs.get(o, []) for o in range(1, nids + 1)],
                "hung": hung, "crashed": crashed}


def _rconc_ok(scn, i, got, allowed):
    if got["hung"] or got["crashed"]:
        return False
    n = len(scn["top"])
    for swapped, exps in ((False, allowed[0]), (True, allowed[1])):
        order = list(range(n))
        if swapped:
            order[i], order[i + 1] = i + 1, i
        for exp in exps:
            exp_res = {k: exp["res"][pos] for pos, k in enumerate(order)}
            if all(got["res"][k] == exp_res[k] for k in range(n)) and got["logs"] == exp["logs"]:
                return True
    return False


def rconc_judge(item):
    from harness import fastsched, shims
    scn, i, allowed, variant, bound, per_level, seed = item
    fails, seen_sig, n = [], set(), 0
    with shims.patched(extra=_rconc_patches(), only=list(_rconc_patches())):
        ex = fastsched.LevelExplorer(bound=bound, per_level=per_level, random_schedules=0, seed=seed)
        last = {}

        def run_one(choose):
            ds, got = rconc_perform(scn, i, variant, choose)
            last["got"] = got
            return ds
        for ds in ex.explore(run_one):
            n += 1
            got = last["got"]
            sig = json.dumps(got, default=str)
            if not _rconc_ok(scn, i, got, allowed) and len(fails) < 3 and sig not in seen_sig:
                seen_sig.add(sig)
                fails.append({"engine": "replay-conc", "kind": "replay", "variant": variant, "scn": scn, "i": i,
                              "pair_name": scn["top"][i]["c"] + "||" + scn["top"][i + 1]["c"],
                              "expected": [[{k: e[k] for k in ("res", "logs")} for e in es] for es in allowed], "observed": got,
                              "failure": "hang" if got["hung"] else ("crashed" if got["crashed"] else "not_linearizable"),
                              "schedule": [d[1] for d in ds.decisions], "bs": scn["bs"], "win": scn["win"]})
    return n, fails


def rconc_replay(rec) -> int:
    from harness import fastsched, shims
    with shims.patched(extra=_rconc_patches(), only=list(_rconc_patches())):
        ds, got = rconc_perform(rec["scn"], rec["i"], rec["variant"], fastsched.LevelExplorer._chooser(rec["schedule"]))
    ok = _rconc_ok(rec["scn"], rec["i"], got, rec["expected"])
    print("replay: " + ("one of the two sequential outcomes" if ok else "NOT a sequential outcome: " + json.dumps(got, default=str)[:1500]))
    return 0 if ok else 1
