"""C35 - periodic scheduling threads state, keeps the period and stops.
Spec: Periodic.tla (self-rescheduling machine + reference tick function; dispose instant incl. the
tie with a tick; self-dispose and raise at the k-th call; action durations).  Binding A on the
virtual-time schedulers (bare and under CatchScheduler), on reactivex.interval / reactivex.timer, and
- on ONE thread under a controlled clock, see props/misc_c35.py - on TimeoutScheduler,
NewThreadScheduler and EventLoopScheduler."""
from __future__ import annotations

import json
import random

from harness import core, tlc
from props import misc_c35 as pc

QUICK = dict(Forms={"periodic", "interval", "timer"}, Periods={1, 2, 3}, Starts={0, 2}, Firsts={0, 1, 3}, Durs={0, 1, 2},
             Over={0, 1}, NoneAts={0, 2}, LateFirsts={1, 3}, Horizon=8, MaxK=4)
THOROUGH = dict(Forms={"periodic", "interval", "timer"}, Periods={1, 2, 3, 5}, Starts={0, 1, 3}, Firsts={0, 1, 2, 4}, Durs={0, 1, 2},
                Over={0, 1, 3}, NoneAts={0, 1, 3}, LateFirsts={1, 2, 5, 7}, Horizon=11, MaxK=5)


def variants(scn):
    """(target, kwargs) combinations a scenario is performed under (codec/driver dimensions only)."""
    h = len(json.dumps(scn, sort_keys=True))
    orders = ("before", "after") if scn["stop"]["kind"] == "dispose" else ("after",)
    out = []
    if scn.get("over"):
        # some call takes a period or more: real-time targets, the dispose coming from another thread
        for i, k in enumerate(pc.RT_KINDS):
            for tie in ((True, False) if scn["stop"]["kind"] == "dispose" else (True,)):
                out.append((k, dict(tie_first=tie, profile="falsy" if (h + i) % 2 else "plain")))
        return out
    if scn["form"] == "periodic":
        for i, k in enumerate(pc.VT_KINDS):
            for o in orders:
                out.append((k, dict(order=o, profile="falsy" if (h + i) % 2 else "plain", direct=(h + i) % 3 == 0)))
                out.append(("catch_" + k, dict(order=o, profile="plain" if (h + i) % 2 else "falsy")))
        for i, k in enumerate(pc.RT_KINDS):
            for o in orders:
                for tie in ((True, False) if scn["stop"]["kind"] == "dispose" and k == "newthread" else (True,)):
                    out.append((k, dict(order=o, tie_first=tie, profile="falsy" if (h + i) % 2 else "plain")))
            if k == "eventloop" and scn["stop"]["kind"] == "dispose":
                out.append((k, dict(foreign_dispose=True, profile="plain")))
    else:
        for i, k in enumerate(pc.VT_KINDS):
            for o in orders:
                if scn.get("late"):   # first due time in the past: as a negative relative time and as a past absolute datetime
                    for ab in (False, True):
                        out.append((k, dict(order=o, sched_arg="factory" if (h + i) % 2 else "subscribe", abs_due=ab)))
                    continue
                out.append((k, dict(order=o, sched_arg="factory" if (h + i) % 2 else "subscribe",
                                    abs_due=scn["form"] == "timer" and (h + i) % 3 == 0)))
    return out


def _job(args):
    scn, allowed = args
    fails = []
    n = 0
    for target, kw in variants(scn):
        n += 1
        f = pc.judge(scn, allowed, target, **kw)
        if f:
            fails.append(f)
    return n, fails


def _pmap(fn, items):
    # measured on the loaded box: a fork pool is SLOWER than a plain loop for these sub-millisecond replays
    # until there are some 10^5 of them (14 500 programs: 8 s serial, 17-67 s with 2-8 processes)
    if len(items) < 60000:
        return [fn(x) for x in items]
    return core.parallel_map(fn, items, procs=8, chunk=2000)


def run(tier: str) -> int:
    ck = core.Check("C35", tier)
    consts = QUICK if tier == "quick" else THOROUGH
    ck.rule = ("form (schedule_periodic / interval / timer(first, p)) x period x start instant x first-tick offset x action "
               "durations (< period, alternating) x stop (none / dispose at instant T incl. tick instants / self-dispose at "
               "call K / raise at call K), enumerated by TLC on Periodic.tla; each performed on the three virtual-time "
               "schedulers bare and under CatchScheduler, and on TimeoutScheduler / NewThreadScheduler / EventLoopScheduler / "
               "AsyncIOScheduler / CatchScheduler(TimeoutScheduler) on one thread under a controlled clock; non-trivial = the scenario stops "
               "(dispose, self-dispose or raise) or the action takes time")
    res = tlc.run("Periodic", tlc.cfg_text(consts, spec="Spec", invariants=pc.INVS + ["Export"], properties=["Terminates"]),
                  workers=1, timeout=3000, allow_violation=False)
    ck.add_tlc(res, "exhaustive " + json.dumps({k: sorted(v) if isinstance(v, set) else v for k, v in consts.items()}))
    ck.exhaustive = True
    groups = core.group_allowed(res.lines)
    ck.note("scenarios", len(groups))
    vac = {
        "tie_dispose_with_tick": sum(1 for g in groups if len(g[1]) > 1),
        "raise": sum(1 for g in groups if g[0]["stop"]["kind"] == "raise"),
        "self_dispose": sum(1 for g in groups if g[0]["stop"]["kind"] == "self"),
        "dispose_between_ticks": sum(1 for g in groups if g[0]["stop"]["kind"] == "dispose" and len(g[1]) == 1),
        "action_takes_time": sum(1 for g in groups if any(g[0]["dur"])),
        "runs_to_horizon": sum(1 for g in groups if g[0]["stop"]["kind"] == "none"),
        "overrun": sum(1 for g in groups if g[0]["over"]),
        "timer_first_due_a_period_or_more_in_the_past": sum(1 for g in groups if g[0]["late"] and -g[0]["first"] >= g[0]["p"]),
        "timer_first_due_less_than_a_period_in_the_past": sum(1 for g in groups if g[0]["late"] and -g[0]["first"] < g[0]["p"]),
        "action_returns_none_then_called_again": sum(1 for g in groups if g[0]["noneAt"] and any(
            len(o["ticks"]) >= g[0]["noneAt"] + 2 for o in g[1])),
        "overrun_dispose_during_call": sum(1 for g in groups if g[0]["over"] and g[0]["stop"]["kind"] == "dispose" and any(
            t[1] < g[0]["stop"]["at"] < t[1] + g[0]["dur"][t[0] % 2] for t in g[1][0]["ticks"])),
        "timer_first_differs_from_period": sum(1 for g in groups if g[0]["form"] == "timer" and g[0]["first"] != g[0]["p"]),
    }
    ck.note("vacuity", vac)
    if not all(vac.values()):
        raise RuntimeError(f"vacuous model run: {vac}")
    n_impl = 0
    per_target: dict = {}
    for g in groups:
        for t, _ in variants(g[0]):
            per_target[t] = per_target.get(t, 0) + 1
    for n, fails in _pmap(_job, groups):
        n_impl += n
        for f in fails:
            ck.fail(f)
    ck.impl = n_impl
    ck.note("runs_per_target", per_target)
    ck.nontrivial = sum(1 for g in groups if g[0]["stop"]["kind"] != "none" or any(g[0]["dur"]))
    rnd = random.Random(ck.seed)
    for g in rnd.sample(groups, min(5, len(groups))):
        ck.sample({"scn": g[0], "allowed": g[1]})
    ck.assumptions = [
        "virtual-time schedulers run actions in due order (C28); an action 'takes time' by calling sleep() on them",
        "a dispose due at the very instant of a tick may fall before or after it (both outcomes allowed; both scheduling orders are driven)",
        "virtual time: call k exactly at its instant; real-time schedulers under the controlled clock: call k in [instant_k, instant_k + period) "
        "('once per period'), same count, states and raise",
        "real-time schedulers are driven on ONE thread by a discrete-event harness (threading.Timer / Event.wait / Condition.wait replaced by agenda "
        "entries and clock advances, default_now patched): the periodic logic of the real classes runs unmodified, thread interleavings are not "
        "explored here (left to the concurrency bundle, which can call props.misc_c35.periodic_expected)",
        "an exception raised by the action surfaces once: out of start()/advance_to() on virtual time, at the CatchScheduler handler, or as the end of the (simulated) thread",
        "after an escaped exception the replayer calls stop() on the virtual-time scheduler before driving on",
        "period > 0; overrun scenarios (a call takes one period or more; real-time targets only, dispose from another thread of the "
        "one-thread harness): instants are not compared, only state threading, at most one call per period, the first call's instant, "
        "stop after self-dispose/raise and NO CALL STARTING AFTER THE DISPOSE INSTANT",
    ]
    return ck.finish()


def replay(rec) -> int:
    f = pc.judge(rec["scn"], rec["expected"], rec["target"], **rec.get("variant", {}))
    print(json.dumps(f, default=str)[:2000] if f else "replay: observation allowed by the spec")
    return 1 if f else 0


META = {
    'technique': 'TLC-enumerated periodic scenarios of Periodic.tla (self-rescheduling machine checked against a reference tick function) replayed on the real periodic schedulers and on interval/timer',
    'level': 'TLC checks that the rescheduling machine calls the action exactly at start+first+(k-1)*period with the threaded state, never after dispose/self-dispose/raise, and agrees with the reference counts (a dispose coinciding with a tick may go either way); every scenario is exported and performed on VirtualTimeScheduler/TestScheduler/HistoricalScheduler (bare and under CatchScheduler, exact instants), on reactivex.interval/timer (values 0,1,2,... at those instants), and on TimeoutScheduler/NewThreadScheduler/EventLoopScheduler/AsyncIOScheduler driven on one thread under a controlled clock (once per period). Exhaustive for the stated bounds; thread interleavings of the real-time schedulers are not covered here.',
    'note': "TLC 1.8; codec and one-thread discrete-event shims of props/misc_c35.py (Timer, Event.wait, Condition.wait, loop.call_later, default_now); virtual-time schedulers (C28)",
    'ref': 'DESIGN.md 6 C35',
}
