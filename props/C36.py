"""C36 - time values convert consistently between representations.
Spec: TimeConv.tla (tagged values [kind, base, k, q]; conversions change only the kind; laws Identity,
RoundTrip, PathIndependent, OrderPreserved, Neighbour checked by TLC on every case of the 3 x 3 kind
table x magnitude classes x offsets x ordered pairs).  Binding A: every case made concrete by the codec
of props/misc_c36.py (several strides, time zones and ways of reaching the functions) and given to the
real to_seconds / to_datetime / to_timedelta; `now` of every constructible scheduler."""
from __future__ import annotations

import json
import random

from harness import core, tlc
from props import misc_c36 as tc

INVS = ["TypeOK", "Identity", "RoundTrip", "PathIndependent", "OrderPreserved", "Neighbour", "NowIndependentOfZone"]
QUICK = dict(Bases={"n1e9", "m0", "epoch", "p1e9", "y2106", "y9000", "y9000c"}, Coarse={"y9000c"}, SubUs={"n1e9", "m0", "epoch", "p1e9"},
             Offs={0, 1, 2}, Quarters={0, 1, 2, 3})
THOROUGH = dict(Bases={"n1e9", "m0", "epoch", "p1e9", "y2106", "y9000", "y9000c"}, Coarse={"y9000c"}, SubUs={"n1e9", "m0", "epoch", "p1e9"},
                Offs={0, 1, 2, 3, 4, 5}, Quarters={0, 1, 2, 3})


def variants(scn, tier):
    h = len(json.dumps(scn, sort_keys=True)) + scn["v"]["k"] + 3 * scn["w"]["k"]
    n = 4 if tier == "quick" else 12
    return [dict(stride_i=(h * 7 + i * 5) % 48, zone_i=(h + i // 2) % 3, holder=tc.HOLDERS[(h + i) % len(tc.HOLDERS)]) for i in range(n)]


def _job(args):
    ln, tier = args
    fails = []
    vs = variants(ln["scn"], tier)
    for kw in vs:
        fails += tc.judge(ln["scn"], ln["obs"], **kw)
    return len(vs), fails


def _pmap(fn, items):
    # measured on the loaded box: a fork pool is SLOWER than a plain loop for these sub-millisecond replays
    # until there are some 10^5 of them (14 500 programs: 8 s serial, 17-67 s with 2-8 processes)
    if len(items) < 60000:
        return [fn(x) for x in items]
    return core.parallel_map(fn, items, procs=8, chunk=2000)


def run(tier: str) -> int:
    ck = core.Check("C36", tier)
    consts = QUICK if tier == "quick" else THOROUGH
    ck.rule = ("source kind x target kind (3 x 3) x ordered pairs of tagged values over magnitude classes (-1e9 s, just below zero, epoch, "
               "+1e9 s, 2^32 s, year 9000 on a float-resolvable grid, year 9000 at microsecond grain) x offsets x quarter-microsecond positions "
               "(floats only), enumerated by TLC on TimeConv.tla; each made concrete under several strides (1 us, just under / over a second, "
               "a day), time zones of the datetime (UTC, +05:30, -08:00) and holders of the classmethods; non-trivial = source and target "
               "kinds differ")
    res = tlc.run("TimeConv", tlc.cfg_text(consts, invariants=INVS + ["Export"]), workers=1, timeout=1500, allow_violation=False)
    ck.add_tlc(res, "exhaustive " + json.dumps({k: sorted(v) if isinstance(v, set) else v for k, v in consts.items()}))
    ck.exhaustive = True
    conv = [ln for ln in res.lines if ln["scn"]["mode"] == "conv"]
    now = [ln for ln in res.lines if ln["scn"]["mode"] == "now"]
    ck.note("cases", len(conv))
    vac = {
        "non_aligned": sum(1 for ln in conv if ln["scn"]["v"]["q"] or ln["scn"]["w"]["q"]),
        "tie_half_microsecond": sum(1 for ln in conv if 2 in (ln["scn"]["v"]["q"], ln["scn"]["w"]["q"])),
        "round_trip_asserted": sum(1 for ln in conv if ln["obs"]["rtv"] and ln["scn"]["kind"] != ln["scn"]["target"]),
        "lossy_coarse": sum(1 for ln in conv if not ln["obs"]["exactv"] and not ln["scn"]["v"]["q"]),
        "order_may_collapse": sum(1 for ln in conv if sorted(ln["obs"]["rels"]) == ["eq", "lt"]),
        "order_strict": sum(1 for ln in conv if ln["obs"]["rels"] == ["lt"]),
        "now": len(now),
    }
    ck.note("vacuity", vac)
    if not all(vac.values()):
        raise RuntimeError(f"vacuous model run: {vac}")
    n_impl = 0
    for n, fails in _pmap(_job, [(ln, tier) for ln in conv]):
        n_impl += n
        for f in fails:
            ck.fail(f)
    for ln in now:
        cases = tc.now_cases()
        n_impl += len(cases)
        ck.note("schedulers_whose_now_was_read", [c[0] for c in cases])
        for f in tc.judge_now(ln["obs"], ln["scn"]["zone"]):
            ck.fail(f)
    ck.impl = n_impl
    ck.nontrivial = sum(1 for ln in conv if ln["scn"]["kind"] != ln["scn"]["target"])
    rnd = random.Random(ck.seed)
    for ln in rnd.sample(conv, min(5, len(conv))):
        ck.sample(ln)
    ck.assumptions = [
        "THIN: TLC contributes the case table, the allowed result sets and the allowed order relations; the magnitudes that matter for floats live in the codec",
        "'microsecond-aligned' float = the correctly rounded float of an integer number of microseconds; on the year-9000 grid the unit is 1/64 s so that floats are exact",
        "a float strictly between two microseconds may land on either neighbour (the statement only promises order)",
        "year 9000 at microsecond grain: a conversion through float cannot keep the microseconds (float64); only non-strict order is asserted there, and round trips through float are not",
        "datetime <-> timedelta conversions are exact at every magnitude; datetimes in other zones compare by instant",
        "the 2^53-microsecond boundary (year 2255), nan/inf, naive datetimes and values outside datetime's range are outside the asserted domain",
    ]
    return ck.finish()


def replay(rec) -> int:
    if rec["scn"].get("mode") == "now":
        fails = [f for f in tc.judge_now(rec["expected"], rec.get("zone", 0)) if f["scheduler"] == rec.get("scheduler")]
    else:
        fails = tc.judge(rec["scn"], rec["expected"], stride_i=rec.get("stride_i", 0), zone_i=rec.get("zone_i", 0), holder=rec.get("holder", "Scheduler"))
    print(json.dumps(fails[0], default=str)[:2000] if fails else "replay: observation allowed by the spec")
    return 1 if fails else 0


META = {
    'technique': 'TLC-enumerated case table of TimeConv.tla (tagged time values, conversions change only the kind, algebraic laws as invariants) made concrete by a magnitude codec and given to the real conversion functions',
    'level': 'TLC checks identity, round-trip, path-independence, order-preservation and neighbour laws on every case of the 3x3 kind table x magnitude classes x offsets x ordered pairs and exports per case the allowed results and order relations; the real to_seconds/to_datetime/to_timedelta must return the allowed value (exact for aligned values, a neighbouring microsecond for floats between two microseconds), round-trip to the identical value, never invert an order (strict for distinct aligned values), and every constructible scheduler.now must be an aware datetime with zero UTC offset that denotes the present instant whatever the local time zone of the process is (read under TZ = UTC, UTC+9, UTC-5). The TLA+ part is a small table; the numerically interesting magnitudes are chosen in the Python codec (stated candidly in notes/misc.md).',
    'note': "TLC 1.8; codec of props/misc_c36.py (Fraction -> correctly rounded float, magnitude classes, strides, zones)",
    'ref': 'DESIGN.md 6 C36, 7',
}
