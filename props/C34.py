"""C34 - real-time schedulers never start an action before its due time nor after a cancellation that preceded the due time;
ImmediateScheduler is synchronous and refuses positive delays.
Spec: TimerSched.tla + TimerSchedTrace.tla (Binding C+B: Timeout, NewThread, ThreadPool, EventLoop) and ImmediateSched.tla (Binding A)."""
from __future__ import annotations

from harness import core, tlc
from props import evloop_common as ec

META = {
    "technique": "TLA+ abstract timer object with silent Lin/Commit steps (TimerSched.tla) checked by TLC; real TimeoutScheduler/NewThreadScheduler/ThreadPoolScheduler/EventLoopScheduler run under deterministic thread schedules with a controlled clock and validated as traces by TLC (TimerSchedTrace.tla); ImmediateScheduler programs enumerated by TLC (ImmediateSched.tla) and replayed",
    "level": "TLC checks NotEarly/CancelledBeforeDueNeverRuns/AtMostOnce on every interleaving of the bounded generator; relative/absolute schedules and cancellations placed before, at and after the due time are executed on each real thread-based scheduler for every sampled schedule up to the preemption bound, and each trace must be explainable with a Commit step no earlier than the due time (a cancel that returned before the due time is therefore effective); every ImmediateScheduler program of <= 3-4 commands (nested scheduling, clock moves) is replayed and its event sequence must equal the model's (synchronous run, WouldBlockException iff positive delay).",
    "note": "TLC 2026.09; threading.Timer, Thread (thread_factory), Event, Condition and ThreadPoolExecutor replaced by cooperative shims on a controlled clock (the executor is a FIFO pool of logical worker threads); scenario scripts in ticks under two time-scale profiles (1 tick = 1 s; 1 tick = 0.4 ms), traces in integer microseconds",
    "ref": "DESIGN.md 6 C34, 3.3, D.6",
}

RULE = ("6-9 client scenarios (relative, timedelta and absolute schedules, zero/negative delays, cancels before / at / after the due time, "
        "cancel from another thread, actions that schedule) x {Timeout, NewThread, ThreadPool, ThreadPool(max_workers=1), EventLoop, "
        "EventLoop(exit_if_empty)} x time scale {1 tick = 1 s, 1 tick = 0.4 ms (positive sub-millisecond delays, woken 0.4 ms before due)}; level-sampled schedules up to the preemption bound + seeded random; every ImmediateScheduler program up to "
        "the command budget in float and timedelta form; non-trivial = distinct concurrent traces + immediate programs with a refusal or nesting")
ASSUME = [
    "controlled schedules preempt only where the pinned GIL interpreter can: a subset of the language-level interleavings",
    "the due time of a relative schedule is the clock at the call plus the delay; 'disposed before its due time' = the dispose() call returned at a clock strictly before it",
    "schedule_periodic: a run is due one period after the START of the previous run (first run: one period after the call); once the dispose() has returned no further run may start (a run already committed may still start)",
    "a late start (pool saturated, loop busy) is not a violation; liveness is not part of C34 - the check only requires that the runs are not vacuous (actions did start)",
    "the cooperative executor starts workers lazily up to max_workers and serves tasks FIFO, like concurrent.futures.ThreadPoolExecutor",
]


def run(tier: str) -> int:
    ck = core.Check("C34", tier)
    ck.rule = RULE
    quick = tier == "quick"
    ec.jvm_for(tier)
    design = ec.Bg(ec.ts_design, tier)
    imm = ec.Bg(ec.imm_export, tier)
    scs = ec.timer_scenarios(tier)
    if quick:
        total, distinct = ec.conc_check(ck, scs, tier, "TimerSchedTrace", ec.TS_TRACE_CONSTS, ec.TS_INVS, "timer-conc",
                                        bound=2, per_level=(1, 20, 10, 3), nrandom=4, procs=8)
    else:
        total, distinct = ec.conc_check(ck, scs, tier, "TimerSchedTrace", ec.TS_TRACE_CONSTS, ec.TS_INVS, "timer-conc",
                                        bound=3, per_level=(1, 100, 100, 50, 20), nrandom=40, procs=8)
    if ck.extra.get("timer-conc_starts", 0) == 0:
        raise tlc.TLCFailure("vacuous: no action started in any execution")
    res, consts = design.result()
    ck.add_tlc(res, "design: all interleavings of the abstract timer object " + str(consts))
    ck.note("design_coverage", ec.require_coverage(res, ec.TS_ACTIONS, "TimerSched design run"))
    ires, iconsts = imm.result()
    ck.add_tlc(ires, "ImmediateSched programs " + str({k: (sorted(v) if isinstance(v, set) else v) for k, v in iconsts.items()}))
    ec.require_coverage(ires, ["Sched", "Finish", "Sleep"], "ImmediateSched export")
    hists = [ln["obs"] for ln in ires.lines]
    nontriv = 0
    for h in hists:
        for form in ("float", "timedelta"):
            f = ec.imm_judge(h, form)
            if f:
                ck.fail(f)
        if any(ev.get("res") == "wouldblock" or ev.get("depth", 0) >= 2 for ev in h):
            nontriv += 1
    ck.impl += 2 * len(hists)
    ck.note("immediate_programs_replayed", 2 * len(hists))
    if hists:
        ck.sample({"immediate_program": hists[len(hists) // 2]})
    ck.nontrivial = distinct + nontriv
    ck.exhaustive = False
    ck.assumptions = ASSUME
    return ck.finish()


def replay(rec) -> int:
    if rec.get("engine") == "immediate":
        f = ec.imm_judge(rec["history"], rec["form"])
        print(f if f else "replay: the real ImmediateScheduler now produces the model's event sequence")
        return 1 if f else 0
    return ec.replay_record(rec, "TimerSchedTrace", ec.TS_TRACE_CONSTS, ec.TS_INVS)
