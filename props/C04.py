"""C04 - cold observables can be subscribed again with identical results.
Every Ops1.tla scenario is built once on a cold source and the SAME observable object is subscribed twice
(overlapping: 3 ticks later; sequentially: after the first run finished); each subscriber's notifications,
relative to its own subscription instant, and its source-subscription interval must be an allowed
observation of the one-subscription scenario (the model allocates all operator state in Sub())."""
from harness import core
from props import ops1_common as oc
from props import ops1_ext as ox
from props import diff_common

META = {
    "technique": "TLC-exported single-subscription observations of Ops1.tla required of every subscriber when the same cold observable object is subscribed twice (overlapping and sequentially)",
    "level": "The model allocates every piece of operator state in its Sub() step, so its expected observation is per subscription; each element-wise/aggregate scenario is built once on a cold test observable and subscribed twice - overlapping (second subscription 3 ticks after the first) and sequentially - and both subscribers must see an allowed observation of the single-subscription scenario shifted to their own subscription instant, with their own source subscription opened and closed at the expected instants. For about 100 further operators (sequential, merging, combining, time-based, windowing; all non-multicasting catalogue operators whose generic callbacks are deterministic) the same cold pipeline object is subscribed twice in sequence and the two subscribers' notification streams and source-subscription intervals, relative to their subscription instants, must be identical - a differential pass, counted separately in the evidence. Sequential operators, sources and callback bridges are additionally checked against their models by C10/C37/C41.",
    "note": "TLC 1.8; cold sources only (a hot source legitimately shows a later subscriber a different suffix); deterministic callbacks",
    "ref": "DESIGN.md 6 C04",
}
K = [2]


def variants(scn):
    s = len(str(scn)) % 2
    return [dict(mode="resub", pattern="overlap", tmap="spread", profile="plain", k=K[0], salt=s),
            dict(mode="resub", pattern="overlap_mid", tmap="spread", profile="plain", k=K[0], salt=s),
            dict(mode="resub", pattern="seq", tmap="bunched", profile="plain", k=K[0], salt=1 - s)]


def run(tier):
    ck = core.Check("C04", tier)
    k, n = (2, 3) if tier == "quick" else (3, 4)
    K[0] = k
    consts = dict(NVals=k, MaxLen=n, Terms={"C", "E"}, Disposes=False, Faults=False, IdentSrc=False)
    groups = oc.export_groups(ck, oc.ELEMENTWISE + oc.AGGREGATES, consts, "export")
    ck.exhaustive = True
    ck.rule = (f"every element-wise/aggregate scenario ({k} tokens, length 0..{n}) on a cold source, the same observable object subscribed "
               "twice (overlapping by 3 ticks; starting between two elements of the first run; sequentially); non-trivial = the operator keeps per-subscription state that matters "
               "(output differs from the plain pass-through of the input)")
    ox.replay_groups(ck, groups, variants)
    # differential part: every non-multicasting catalogue operator with deterministic callbacks, second subscription vs first
    df = diff_common.resub_pass(ck, ck.seed + 92, 10 if tier == "quick" else 50)
    ck.note("differential_resubscription_pass", {k: v for k, v in df.items()})
    ck.nontrivial = sum(1 for g in groups if oc.nontrivial(*g))
    ck.note("scenarios", len(groups))
    for g in groups[:: max(1, len(groups) // 4)][:4]:
        ck.sample({"scn": g[0], "allowed": g[1], "subscribed": "twice: at 200 and 203 / at 200 and 1200"})
    ck.assumptions = ["publish/share/replay/ref_count and subjects are excluded by the statement"]
    return ck.finish()


def replay(rec):
    if rec.get("engine") == "resub-diff":
        spec, out, skip = diff_common._resub_job(rec["spec"])
        if out is None:
            print("replay: skipped", skip)
            return 2
        runs, subs, subs2 = out
        a = [dict(e, vt=e["vt"] - 200) for e in runs[0]]
        b = [dict(e, vt=e["vt"] - rec["spec"].get("second_at", 1500)) for e in runs[1]]
        d = diff_common._first_diff(a, b)
        print("replay:", d or "both subscriptions saw the same")
        return 1 if d else 0
    return ox.generic_replay(rec)
