"""C07 - slicing an observable behaves like slicing a list (Ops1.tla: PySlice + SliceOK, Binding A)."""
from harness import core
from props import ops1_common as oc


def variants(scn):
    return [dict(hot=h, tmap="spread", profile="plain", salt=0, form=f) for h in (True, False) for f in ("pipe", "getitem")]


def run(tier):
    ck = core.Check("C07", tier)
    n = 4 if tier == "quick" else 6
    consts = dict(NVals=n, MaxLen=n, Terms={"C", "E"}, Disposes=False, Faults=False, IdentSrc=True)
    groups = oc.export_groups(ck, [["slice"], ["getitem_int"]], consts, "export")
    ck.exhaustive = True
    ck.rule = (f"sources <<0..m-1>>, m in 0..{n}, completion or error; start, stop in -{n+1}..{n+1} and None, step 1..{n+1}; "
               f"source[i] for every in-range i; ops.slice(...) and source[...] forms, hot and cold; instants not asserted; "
               "non-trivial = the slice is a proper sub-list")
    oc.replay_groups(ck, groups, variants, n)
    ck.nontrivial = sum(1 for g in groups if oc.nontrivial(*g))
    ck.note("scenarios", len(groups))
    for g in groups[:: max(1, len(groups) // 5)][:5]:
        ck.sample({"scn": g[0], "allowed": g[1]})
    ck.assumptions = ["for an erroring source a slice whose non-negative stop was already reached may complete instead of failing "
                      "(streaming) and already-determined elements may precede the error; both resolutions are in the allowed set",
                      "a slice that is empty whatever the source does (stop = 0) need not subscribe"]
    return ck.finish()


replay = oc.generic_replay


META = {
    'technique': 'Python slice semantics written out in TLA+ (PySlice, cross-checked by SliceOK in TLC) over all start/stop/step, replayed on ops.slice and source[...]',
    'level': 'TLC enumerates every (length, start, stop, step) and every in-range integer index within the bounds, checks the two TLA+ formulations of list slicing against each other, and exports the expected elements; both call forms of the real library must emit exactly those and then complete (errors passed through). Exhaustive for the stated bounds.',
    'note': 'TLC 1.8; instants are not asserted (a streaming slice with negative bounds must wait for completion)',
    'ref': 'DESIGN.md 6 C07',
}
